"""Concretisation of abstract runs (a way of ending, per ExecSteps) as test-case text for the stub main program
(harness/stubmain.py: default instruction set + `verif-stub` in every phase + `verif-actor` in [conf])."""
import os

from harness.stubs_names import PHASE_NAME

ACT_STEPS = ('parse', 'sym', 'pre', 'post', 'exeinput', 'prepare', 'execute')


def atc_line(exit_code: int) -> str:
    return '$ echo atc-out; echo atc-err >&2; exit %d' % exit_code


def scripted_case(tc: str, end_step, end_o: str, cleanup_o: str, atc_exit: int, n_per_phase: int = 1,
                  end_idx: int = 1, extra=None, real_assert: bool = True, real=None):
    """end_step: ('-','-') for a run without a failing forward step, else (step, phase) of ExecSteps.Forward.

    extra: {phase: [lines]} real instructions appended after the stubs of a phase.
    real: a REAL instruction (or, for an act step, the contents of [act]; "CONF-LINE | ACT-LINE" to select an actor) that
    produces the outcome end_o at end_step by itself - it replaces the scripted stub / actor."""
    step, phase = end_step
    extra = extra or {}
    conf = []
    if tc != 'PASS':
        conf.append('status = %s' % tc)
    exeinput = (step, phase) == ('exeinput', 'act')   # scripted through the stdin a setup instruction installs
    stub_actor = phase == 'act' and not exeinput and real is None
    real_act = None
    if real is not None and phase == 'act':
        if ' | ' in real:
            c, real_act = real.split(' | ', 1)
            conf.append(c)
        else:
            real_act = real
    if stub_actor:
        conf.append('verif-actor %s=%s exit=%d' % (step, end_o, atc_exit))
    if phase == 'conf':
        conf.append(real if real is not None else 'verif-stub 1 main=%s' % end_o)

    def stubs_for(ph):
        lines = []
        for i in range(1, n_per_phase + 1):
            script = ''
            if ph == phase and i == end_idx:
                if real is not None:
                    lines.append(real)
                    continue
                script = ' %s=%s' % (step, end_o)
            if exeinput and ph == 'setup' and i == 1:
                script += ' stdin=%s' % end_o
            if ph == 'cleanup' and cleanup_o != 'ok' and i == n_per_phase:
                script += ' main=%s' % cleanup_o
            lines.append('verif-stub %d%s' % (i, script))
        return lines + list(extra.get(ph, []))

    parts = []
    if conf:
        parts.append('[conf]\n' + '\n'.join(conf) + '\n')
    parts.append('[setup]\n' + '\n'.join(stubs_for('setup')) + '\n')
    parts.append('[act]\n' + ('stub action\n' if stub_actor else (real_act or atc_line(atc_exit)) + '\n'))
    parts.append('[before-assert]\n' + '\n'.join(stubs_for('ba')) + '\n')
    a = stubs_for('assert')
    if real_assert and not stub_actor and real_act is None:
        a.append('exit-code == %d' % atc_exit)
    parts.append('[assert]\n' + '\n'.join(a) + '\n')
    parts.append('[cleanup]\n' + '\n'.join(stubs_for('cleanup')) + '\n')
    return ''.join(parts)


def case_from_log(n, st, log, atc_exit):
    """A behaviour of PhaseExec / Exactly (shape n, status st, log with the outcome of every step) as test-case text
    for the stub main program; None if it cannot be scripted through text (an exe-input fault needs a setup
    instruction to install the scripted stdin)."""
    script = {}
    for e in log:
        if e[3] != 'ok':
            script.setdefault((e[1], e[2]), {})[e[0]] = e[3]
    act = dict(script.get(('act', 1), {}))
    exeinput = act.pop('exeinput', None)
    if exeinput and n['setup'] == 0:
        return None
    conf = []
    if act:
        conf.append('verif-actor %s exit=%d' % (' '.join('%s=%s' % kv for kv in sorted(act.items())), atc_exit))
    for i in range(1, n['conf'] + 1):
        conf.append('verif-stub %d%s' % (i, ''.join(' %s=%s' % kv for kv in sorted(script.get(('conf', i), {}).items()))))
    if st != 'PASS':
        conf.insert(0, 'status = %s' % st)

    def lines(ph):
        out = []
        for i in range(1, n[ph] + 1):
            sc = dict(script.get((ph, i), {}))
            if exeinput and ph == 'setup' and i == 1:
                sc['stdin'] = exeinput
            out.append('verif-stub %d%s' % (i, ''.join(' %s=%s' % kv for kv in sorted(sc.items()))))
        return out

    parts = []
    if conf:
        parts.append('[conf]\n' + '\n'.join(conf) + '\n')
    for ph in ('setup', 'act', 'ba', 'assert', 'cleanup'):
        if ph == 'act':
            parts.append('[act]\n' + ('stub action\n' if act else atc_line(atc_exit) + '\n'))
        elif n[ph]:
            parts.append('[%s]\n%s\n' % (PHASE_NAME[ph], '\n'.join(lines(ph))))
    return ''.join(parts)


VERDICTS = ('PASS', 'FAIL', 'XFAIL', 'XPASS', 'SKIPPED', 'VALIDATION_ERROR', 'HARD_ERROR', 'INTERNAL_ERROR',
            'SYNTAX_ERROR', 'FILE_ACCESS_ERROR', 'PRE_PROCESS_ERROR')
SDS_LAYOUT = ('act', 'tmp', 'result', 'internal')


def tokens(text: str, is_stdout: bool):
    """Concrete stream -> abstract tokens (total; nothing is repaired: unknown lines become OTHER / MSG)."""
    toks = []
    for line in text.split('\n'):
        if line == '':
            continue
        if line in VERDICTS:
            toks.append(['ID', line])
        elif line == 'atc-out':
            toks.append(['ATCOUT'])
        elif line == 'atc-err':
            toks.append(['ATCERR'])
        elif is_stdout and os.path.basename(line).startswith('exactly-') and os.path.isdir(line) and \
                all(os.path.isdir(os.path.join(line, d)) for d in SDS_LAYOUT):
            toks.append(['SDS'])
        elif is_stdout:
            toks.append(['OTHER', line[:80]])
        else:
            if not toks or toks[-1] != ['MSG']:
                toks.append(['MSG'])
    if text and not text.endswith('\n') and is_stdout:
        toks.append(['OTHER', 'no final newline'])
    return toks
