"""Scripted stub instructions and a scripted stub actor, built on the public base classes only.

Every method appends (step, phase, index[, previous phase]) to a recorder and then returns / raises what the
fault script says.  Used to drive the real executor along behaviours of spec/PhaseExec.tla.
"""
import itertools
import os
import pathlib
import tempfile

from exactly_lib.common.report_rendering import text_docs
from exactly_lib.execution.configuration import ExecutionConfiguration
from exactly_lib.execution.full_execution import execution
from exactly_lib.execution.predefined_properties import os_environ_getter
from exactly_lib.impls.os_services import os_services_access
from exactly_lib.section_document import model
from exactly_lib.section_document.source_location import SourceLocationInfo, source_location_path_of
from exactly_lib.symbol.sdv_structure import SymbolReference
from exactly_lib.test_case import test_case_doc
from exactly_lib.test_case.hard_error import HardErrorException
from exactly_lib.test_case.phases.act.actor import Actor, ActionToCheck, ParseException
from exactly_lib.test_case.phases.act.adv_w_validation import AdvWValidation
from exactly_lib.test_case.phases.act.instruction import ActPhaseInstruction
from exactly_lib.test_case.phases.assert_ import AssertPhaseInstruction
from exactly_lib.test_case.phases.before_assert import BeforeAssertPhaseInstruction
from exactly_lib.test_case.phases.cleanup import CleanupPhaseInstruction
from exactly_lib.test_case.phases.configuration import ConfigurationBuilder, ConfigurationPhaseInstruction
from exactly_lib.test_case.phases.setup.instruction import SetupPhaseInstruction
from exactly_lib.test_case.result import sh, svh, pfh, eh
from exactly_lib.test_case.result.failure_details import FailureDetails
from exactly_lib.test_case.test_case_status import TestCaseStatus
from exactly_lib.type_val_deps.sym_ref.w_str_rend_restrictions import reference_restrictions
from exactly_lib.util import line_source
from exactly_lib.util.file_utils.std import StdOutputFiles
from exactly_lib.util.name_and_value import NameAndValue
from exactly_lib.util.symbol_table import SymbolTable

MSG = text_docs.single_pre_formatted_line_object('scripted')
# "arbitrary exception": the class depends on where it is raised (deterministically), among them classes that the
# implementation handles specially elsewhere (OSError and subclasses: translated to hard errors by many
# instructions - but an exception that ESCAPES an instruction is an implementation error whatever its class)
_LAST_CALL = ('', '', 0)
_EXC_CLASSES = (RuntimeError, FileNotFoundError, KeyError, TimeoutError, PermissionError, AssertionError, OSError,
                ZeroDivisionError)


def scripted_exception():
    import zlib
    return _EXC_CLASSES[zlib.crc32(repr(_LAST_CALL).encode()) % len(_EXC_CLASSES)]('scripted')
ATC_EXIT_CODE = 7


class Recorder:
    def __init__(self):
        self.log = []
        self.observers = []  # callables invoked as f(step, phase, idx) at every recorded call

    def rec(self, step, phase, idx, **kw):
        global _LAST_CALL
        _LAST_CALL = (step, phase, idx)
        self.log.append(dict(step=step, phase=phase, idx=idx, **kw))
        for f in self.observers:
            f(step, phase, idx)


def outcome_svh(o):
    if o == 'ok':
        return svh.new_svh_success()
    if o == 've':
        return svh.new_svh_validation_error(MSG)
    if o == 'he_ret':
        return svh.new_svh_hard_error(MSG)
    if o == 'he_raise':
        raise HardErrorException(MSG)
    if o == 'exc':
        raise scripted_exception()
    raise ValueError(o)


def outcome_sh(o):
    if o == 'ok':
        return sh.new_sh_success()
    if o == 'he_ret':
        return sh.new_sh_hard_error(MSG)
    if o == 'he_raise':
        raise HardErrorException(MSG)
    if o == 'exc':
        raise scripted_exception()
    raise ValueError(o)


def outcome_pfh(o):
    if o == 'ok':
        return pfh.new_pfh_pass()
    if o == 'fail':
        return pfh.new_pfh_fail(MSG)
    if o == 'he_ret':
        return pfh.new_pfh_hard_error(MSG)
    if o == 'he_raise':
        raise HardErrorException(MSG)
    if o == 'exc':
        raise scripted_exception()
    raise ValueError(o)


def sym_usages(o):
    if o == 'ok':
        return []
    if o == 've':
        return [SymbolReference('UNDEFINED_SYMBOL', reference_restrictions.is_any_type_w_str_rendering())]
    if o == 'exc':
        raise scripted_exception()
    raise ValueError(o)


SNAPSHOT = None  # optional callable (phase, idx, environment, settings) -> None, called by main steps of stubs


class Base:
    def __init__(self, rec: Recorder, phase: str, idx: int, script: dict):
        self.r, self.phase, self.idx, self.script = rec, phase, idx, script

    def _snap(self, environment, settings):
        if SNAPSHOT is not None:
            SNAPSHOT(self.phase, self.idx, environment, settings)

    def _o(self, step, **kw):
        self.r.rec(step, self.phase, self.idx, **kw)
        return self.script.get(step, 'ok')


class StdinAdv(AdvWValidation):
    def __init__(self, rec: Recorder, outcome: str):
        self.r, self.outcome = rec, outcome

    def validate(self):
        self.r.rec('exeinput', 'act', 1)
        return MSG if self.outcome == 'he_ret' else None

    def resolve(self, environment):
        return None


class Conf(Base, ConfigurationPhaseInstruction):
    def __init__(self, rec, phase, idx, script, status=None):
        Base.__init__(self, rec, phase, idx, script)
        self.status = status

    def main(self, builder):
        o = self._o('main')
        if self.status is not None:
            builder.set_test_case_status(self.status)
        return outcome_svh(o)


class Setup(Base, SetupPhaseInstruction):
    def __init__(self, rec, phase, idx, script, stdin_outcome=None):
        Base.__init__(self, rec, phase, idx, script)
        self.stdin_outcome = stdin_outcome

    def symbol_usages(self):
        return sym_usages(self._o('sym'))

    def validate_pre_sds(self, e):
        return outcome_svh(self._o('pre'))

    def validate_post_setup(self, e):
        return outcome_svh(self._o('post'))

    def main(self, environment, settings, os_services, settings_builder):
        self._snap(environment, settings)
        o = self._o('main')
        if self.stdin_outcome is not None:
            settings_builder.stdin = StdinAdv(self.r, self.stdin_outcome)
        return outcome_sh(o)


class BA(Base, BeforeAssertPhaseInstruction):
    def symbol_usages(self):
        return sym_usages(self._o('sym'))

    def validate_pre_sds(self, e):
        return outcome_svh(self._o('pre'))

    def validate_post_setup(self, e):
        return outcome_svh(self._o('post'))

    def main(self, e, s, o):
        self._snap(e, s)
        return outcome_sh(self._o('main'))


class Assert(Base, AssertPhaseInstruction):
    def symbol_usages(self):
        return sym_usages(self._o('sym'))

    def validate_pre_sds(self, e):
        return outcome_svh(self._o('pre'))

    def validate_post_setup(self, e):
        return outcome_svh(self._o('post'))

    def main(self, e, s, o):
        self._snap(e, s)
        return outcome_pfh(self._o('main'))


class Cleanup(Base, CleanupPhaseInstruction):
    def symbol_usages(self):
        return sym_usages(self._o('sym'))

    def validate_pre_sds(self, e):
        return outcome_svh(self._o('pre'))

    def main(self, e, s, o, previous_phase):
        self._snap(e, s)
        return outcome_sh(self._o('main', prev=previous_phase.name))


class Atc(Base, ActionToCheck):
    def symbol_usages(self):
        return sym_usages(self._o('sym'))

    def validate_pre_sds(self, e):
        return outcome_svh(self._o('pre'))

    def validate_post_setup(self, e):
        return outcome_svh(self._o('post'))

    def prepare(self, e, o):
        return outcome_sh(self._o('prepare'))

    def execute(self, e, o, atc_input, output):
        x = self._o('execute')
        if x == 'ok':
            output.out.write('atc-out\n')
            output.err.write('atc-err\n')
            return eh.new_eh_exit_code(int(self.script.get('exit', ATC_EXIT_CODE)))
        if x == 'he_ret':
            return eh.new_eh_hard_error(FailureDetails.new_constant_message('scripted'))
        if x == 'he_raise':
            raise HardErrorException(MSG)
        raise scripted_exception()


class TheActor(Actor):
    def __init__(self, rec, script):
        self.r, self.script = rec, script

    def parse(self, instructions):
        self.r.rec('parse', 'act', 1)
        o = self.script.get('parse', 'ok')
        if o == 'syntax':
            raise ParseException(MSG)
        if o == 'he_raise':
            raise HardErrorException(MSG)
        if o == 'exc':
            raise scripted_exception()
        return Atc(self.r, 'act', 1, self.script)


class ActInstr(ActPhaseInstruction):
    def source_code(self):
        return line_source.LineSequence(1, ('act source',))


def contents(instrs, counter):
    elems = []
    for ins in instrs:
        ln = next(counter)
        src = line_source.Line(ln, 'line %d' % ln)
        sli = SourceLocationInfo(pathlib.Path('.'), source_location_path_of(pathlib.Path('x.case'), src))
        elems.append(model.SectionContentElement(model.ElementType.INSTRUCTION,
                                                 model.InstructionInfo(ins, None), sli))
    return model.SectionContents(tuple(elems))


STEP_NAME = {
    ('main', 'conf'): 'conf/9:main',
    ('parse', 'act'): 'act/0:act-parse',
    ('exeinput', 'act'): 'act/4:act-validate-exe-input',
    ('prepare', 'act'): 'act/5:act-prepare',
    ('execute', 'act'): 'act/6:act-execute',
}
_PH = {'setup': 'setup', 'act': 'act', 'ba': 'before-assert', 'assert': 'assert', 'cleanup': 'cleanup'}
for _p, _pn in _PH.items():
    STEP_NAME[('sym', _p)] = _pn + '/1:validate-symbols'
    STEP_NAME[('pre', _p)] = _pn + '/2:validate-pre-sds'
    STEP_NAME[('post', _p)] = _pn + '/3:validate-post-setup'
    if _p != 'act':
        STEP_NAME[('main', _p)] = _pn + '/9:main'


def build_case(rec: Recorder, n: dict, script: dict, status: str):
    """n: {phase: count}; script: {(phase, idx): {step: outcome}} (idx 1-based; ('act', 1) for actor and ATC)."""
    g = lambda ph, i: script.get((ph, i), {})
    counter = itertools.count(1)
    stdin_outcome = script.get(('act', 1), {}).get('exeinput', 'ok')
    st = {'PASS': TestCaseStatus.PASS, 'FAIL': TestCaseStatus.FAIL, 'SKIP': TestCaseStatus.SKIP}[status]
    return test_case_doc.TestCase(
        contents([Conf(rec, 'conf', i, g('conf', i), st if i == n['conf'] else None)
                  for i in range(1, n['conf'] + 1)], counter),
        contents([Setup(rec, 'setup', i, g('setup', i), stdin_outcome if i == 1 else None)
                  for i in range(1, n['setup'] + 1)], counter),
        contents([ActInstr()], counter),
        contents([BA(rec, 'ba', i, g('ba', i)) for i in range(1, n['ba'] + 1)], counter),
        contents([Assert(rec, 'assert', i, g('assert', i)) for i in range(1, n['assert'] + 1)], counter),
        contents([Cleanup(rec, 'cleanup', i, g('cleanup', i)) for i in range(1, n['cleanup'] + 1)], counter),
    )


def _cwd_is(d):
    try:
        return os.getcwd() == d
    except FileNotFoundError:
        return False


def run_case(n: dict, script: dict, status: str, mode: str, tmp_root: str, home: str,
             observers=(), out_dir: str = None) -> dict:
    rec = Recorder()
    rec.observers.extend(observers)
    tc = build_case(rec, n, script, status)
    act_files = None
    fo = fe = None
    if mode == 'act':
        fo = open(os.path.join(out_dir, 'atc-out'), 'w')
        fe = open(os.path.join(out_dir, 'atc-err'), 'w')
        act_files = StdOutputFiles(fo, fe)
    here = pathlib.Path(home).resolve()
    exe_conf = ExecutionConfiguration(os_environ_getter, None, 5, os_services_access.new_for_current_os(),
                                      lambda: tempfile.mkdtemp(prefix='exactly-', dir=tmp_root), 2 ** 10,
                                      SymbolTable(), act_files)
    cb = ConfigurationBuilder(here, here, NameAndValue('stub actor', TheActor(rec, script.get(('act', 1), {}))))
    cwd0 = os.getcwd()
    env0 = dict(os.environ)
    exc = None
    try:
        res = execution.execute(exe_conf, cb, mode == 'keep', tc)
    except BaseException as ex:
        res = None
        exc = '%s: %s' % (type(ex).__name__, ex)
    finally:
        if fo:
            fo.close()
            fe.close()
    out = dict(log=rec.log, exception=exc, cwd_restored=_cwd_is(cwd0),
               env_restored=(dict(os.environ) == env0))
    if res is not None:
        fi = res.failure_info
        out.update(status=res.status.name,
                   step=(str(fi.phase_step) if fi is not None else None),
                   atc=(res.action_to_check_outcome.exit_code if res.action_to_check_outcome else None),
                   has_sds=res.has_sds,
                   sds_root=(str(res.sds.root_dir) if res.has_sds else None),
                   sds_exists=(res.sds.root_dir.exists() if res.has_sds else None))
    return out
