#!/venv/bin/python
"""Generates /verif/MANIFEST.json from the table below (so that the file is always valid)."""
import json
import os
import subprocess

VERIF = os.path.dirname(os.path.dirname(os.path.abspath(__file__)))

CHECKS = {
    'C01': dict(
        engine='spec/PhaseExec.tla, spec/PhaseExecExport.tla, spec/PhaseExecTrace.tla, spec/Outcome.tla',
        technique='TLC model checking of the executor step machine (every fault sequence) + replay of every '
                  'TLC behaviour through the real executor with scripted stubs + TLC trace validation of hook '
                  'traces of real test cases',
        text='TLC exhausts every fault sequence of every test-case shape up to MaxN instructions per phase and checks '
             'step order, validation-before-main, halt-at-first-failure, cleanup-exactly-once, previous-phase, '
             'outcome naming (invariants) and termination / cleanup-eventually (liveness). Every terminal behaviour is '
             'replayed through full_execution.execute with scripted stub instructions and the call sequence, status and '
             'failing step compared; executions of the repository\'s .case corpus are recorded by hooks and validated '
             'as behaviours of the same actions.',
        note='Bounded by MaxN (1 quick, 2 thorough); stubs use public base classes; trace validation trusts the hooks '
             'to log at the linearisation points (negative controls: corrupted traces are rejected).',
        design='5/C01'),
    'C02': dict(
        engine='spec/OutcomeReport.tla, spec/Exactly.tla (composition with spec/PhaseExec.tla), spec/Outcome.tla, spec/ExecSteps.tla (+ *Export.tla)',
        technique='TLC model checking of the outcome/reporter machine + replay of every TLC-enumerated run '
                  '(status x mode x way of ending x ATC exit code) through the real CLI',
        text='TLC enumerates every run (3 statuses x 3 output modes x pre-execution endings x every failing executor '
             'step and outcome x cleanup fault x ATC exit codes) and checks the documented table as invariants; every '
             'run is rendered as test-case text, executed in process (and a sample as subprocess of the default '
             'program) and exit code, stdout and stderr token sequences are compared with the specification.'
             ' Every outcome class of the model is also produced by REAL instructions and actors (table REAL), the Preprocess stage by a failing, a missing, a non-executable and a working preprocessor.',
        note='Faults real instructions cannot produce are scripted through a stub instruction/actor added to the '
             'default instruction set with public constructors; message wording is not compared.',
        design='5/C02'),
    'C03': dict(
        engine='spec/Invalid.tla (refinement of spec/PhaseExec.tla), spec/InvalidExport.tla, spec/PhaseExecTrace.tla',
        technique='TLC model checking of the executor refined by one-defect fault scripts + replay of every case with '
                  'real instructions + TLC trace validation of the hook traces',
        text='TLC enumerates 13 defect classes x phase x position x actor x front end on the executor machine and checks '
             'that nothing is executed; every case is rendered with real instructions whose side effects are observable '
             'outside the sandbox and run through the CLI: verdict, exit 65, no marker, no sandbox, home unchanged, '
             'detecting step; the hook trace of each run must be a behaviour of PhaseExec.',
        note='Bounded base case (2 / 3 effectful instructions per phase); D11 is a recorded known finding.',
        design='5/C03'),
    'C04': dict(
        engine='spec/Sandbox.tla (refinement of spec/PhaseExec.tla), spec/SandboxExport.tla, spec/PhaseExecTrace.tla',
        technique='TLC model checking of the executor extended with sandbox/process state + replay of every case with '
                  'snapshot-taking stubs and real cd/env/file instructions + unprivileged read-only cases + TLC trace '
                  'validation',
        text='TLC enumerates every way of ending x cleanup fault x 3 modes x {cd, env, file in tmp/} and checks layout, '
             'result/ contents, tmp/ untouched, removal/keeping and process-state restoration as invariants; every case '
             'is executed and the snapshots taken by stubs inside the real sandbox, the fate of the sandbox directory and '
             'cwd/os.environ afterwards are compared; read-only sandbox contents are exercised as uid 65534.'
             ' What a case may leave in its sandbox (LeftRows: read-only / no-access entries, symbolic links) is run by unprivileged workers; a kept sandbox is compared entry by entry (kind, permission bits, link target); the action may remove the directory the test stands in (fRm).',
        note='Contents of internal/ are not compared; permission faults need workers that drop privileges (root ignores '
             'permission bits); D8 was found by this check and repaired (fix: 09e13fb).',
        design='5/C04'),
    'C13': dict(
        engine='spec/LineFilter.tla, spec/LineFilterExport.tla, spec/IntervalOps.tla, spec/IntervalLemmas.tla (Apalache), '
               'spec/IntervalOpsEq.tla',
        technique='TLC model checking of the interval mechanism as coded against the per-line reference for every '
                  'expression built by a stack machine + replay of every enumerated expression / range list through '
                  'the real CLI; the induction steps of the soundness invariants for ALL integer operands by Apalache '
                  '(SMT), bound to the TLC model by an operator-equality check',
        text='TLC checks IntervalSound, InversionSound and FilterExact for every line-matcher expression up to a token '
             'bound (both levels, six operators, operands around the text bounds) on a model of the two interval '
             'visitors, the adaption to line numbers and interval-limited reading; every expression and every range '
             'list TLC enumerates (plus deep random ones from -simulate) is rendered in the DSL and run on texts of 0, 1 '
             'and N lines, and the kept lines are compared with the reference.  Apalache proves the local lemmas '
             '(leaf, natural pair, union / intersection with De Morgan inversion, adaption to line numbers) for '
             'unbounded integers and refutes the pre-repair combination.',
        note='Bounded expression size / operand values for TLC and the replay (the Apalache lemmas are unbounded in the '
             'operands, not in the expression: the induction over the expression is not mechanised); the mechanism model mirrors the code after the repair of D1 (the '
             'old mechanism is kept as deviation D1 and TLC must find its counterexample in every run).',
        design='5/C13'),
    'C09': dict(
        engine='spec/Lexer.tla, spec/SymRefs.tla, spec/HereDoc.tla (+ *Export.tla)',
        technique='TLC enumeration of every source string by a character automaton of the documented syntax + replay '
                  'of every string in LIST / STRING / :> / here-document context through the real CLI (argv of a real '
                  'process, file contents); known finding judged by the specification with a named deviation',
        text='The documented string syntax is a TLA+ character automaton whose every reachable state is a source string; '
             'TLC checks token-boundary invariants and exports what each of ~30 000 sources (quick) denotes as list, '
             'string and text-until-end-of-line, a second machine enumerates reference-delimiter strings and a third '
             'here-document bodies; each is executed and compared character by character, error cases must be '
             'SYNTAX_ERROR located at the instruction.',
        note='Bounded source length (4-6 quick, 5-8 thorough); quoted strings spanning lines are not modelled; D2 was '
             'found and repaired (fix: 4902902); D3 is an open known finding judged by Lexer.tla with Deviations={"D3"}.',
        design='5/C09'),
    'C06': dict(
        engine='spec/ExprGrammar.tla, spec/ExprGrammarExport.tla',
        technique='TLC enumeration of every token string (with line breaks) and of every tree in six layouts against a '
                  'recursive-descent transcription of the documented grammar with lazy evaluation + replay in six host '
                  'contexts through the real CLI, laziness observed with logging run-primitives',
        text='TLC checks RoundTrip (every layout of every tree parses back: precedence, n-ary folding, parentheses, '
             'permitted line breaks), LeftToRight and LenientExtendsStrict, and exports the denotation of every token '
             'string up to the bound, well-formed or not; each is executed as integer, file, text, files and line matcher '
             '(also in simple contexts and inside parentheses) and must give PASS / FAIL / SYNTAX_ERROR as denoted; the '
             'order and laziness of evaluation is compared with the model\'s evaluation log.'
             ' Quantifier prefixes (`every/any line/file :`) and `-transformed-by T` are prefixes whose operand is a SIMPLE expression (QuantifierIsPrefixOperator; QSem one / ctx), replayed in five further hosts; quoted reserved words in place of operators are malformed.',
        note='Bounded string length / tree size; a line break before an infix operator is treated as unspecified '
             '(joined value or SYNTAX_ERROR accepted); transformer composition is checked under C05.',
        design='5/C06'),
    'C07': dict(
        engine='spec/SectionDoc.tla, spec/SectionDocExport.tla',
        technique='TLC generation of every test-case file (sequence of line kinds, with included files) by the '
                  'documented reader as a transition function + replay of every document through the real test-case '
                  'parser and, for error locations, the CLI',
        text='TLC enumerates every main file up to a line bound over 15 line kinds and, with four including-directives, '
             'combinations with candidate included files (cycles, nested inclusion, errors inside), checks location, '
             'merge-order and first-error invariants and exports per document the instruction elements of every phase '
             'with file, first line, line count and inclusion chain, or the error with its location; the real parser '
             'must produce exactly these.',
        note='Bounded document length; block-permutation invariance is not yet an invariant of the model; D11 '
             '(incomplete instruction takes the next non-empty line) is an open known finding with an input signature.',
        design='5/C07'),
    'C05': dict(
        engine='spec/Text.tla, spec/TextExport.tla',
        technique='TLC enumeration of every text up to a length bound with a TLA+ transcription of the documented '
                  'transformer / matcher semantics (incl. a Python-regex family with greedy backtracking) + replay of '
                  'every (text, operation) pair through the real CLI for three kinds of text source',
        text='Texts, lines, strip variants, char-case, filter, grep, replace (with -preserve-new-lines and -at), |, and '
             'the matchers is-empty, equals, matches [-full], num-lines, every/any line, -transformed-by, !, &&, || are '
             'recursive TLA+ operators; TLC checks algebraic laws in every state and exports, per text, the output of '
             '~400 transformers and the verdict of ~150 matchers; each text is one real test case holding all of them, '
             'from a file, from the action\'s stdout and from a string literal.'
             ' The regex model has lazy quantifiers; `equals` is also checked against files written with one time stamp; outputs of the strip family are also read line by line.',
        note='Bounded text length (4-5 over {a,b,blank,NL}, 7-10 over {a,NL}); regex family only (atoms, quantifiers, '
             'anchors, -ignore-case; no groups); characters beyond \\n that splitlines breaks on belong to C14.',
        design='5/C05'),
    'C12': dict(
        engine='spec/Paths.tla, spec/PathsExport.tla',
        technique='TLC model checking of a parse / validate / execute machine over small path programs (cd, chains of '
                  'def path, one use per argument role) + replay of every enumerated program (and random deeper chains '
                  'from -simulate) through the real CLI in a world where the same relative path exists under every root; '
                  'known finding judged by the specification with a named deviation',
        text='TLC explores 13 argument roles x every relativity option / default / -rel SYMBOL / leading path-symbol '
             'reference x FILE-NAME shapes (nested, string-symbol references, absolute) x chains up to MaxDepth x a '
             'context cd, and checks ResolvesUnderRoot, RelCdAtUse, WriteRolesNeverReachHome, acceptance sets and that '
             'rejection happens before execution; every program is executed with --keep and snapshots of all roots, the '
             'path a probe receives and the verdict are compared with the prediction.'
             ' A mention of the symbol before the use (restrictions are per reference), `copy SRC RELATIVITY` (the root directory itself); deviations AbsoluteSuffixWins (D4) and ValidatedOncePerSymbol must be refuted by TLC in every run.',
        note='Bounded chain depth (2 quick / 3 thorough, 6 in simulation); for read-only arguments only the resolution of '
             'what is accepted is claimed; D4 (absolute FILE-NAME escapes its root) is an open known finding judged by '
             'Paths.tla with Deviations={"AbsoluteSuffixWins"}.',
        design='5/C12'),
    'C16': dict(
        engine='spec/Suite.tla, spec/SuiteExport.tla',
        technique='TLC model checking of the suite reader / enumerator / runner / reporters as a step machine against a '
                  'declarative reading of the same hierarchy + replay of every enumerated hierarchy x verdict assignment '
                  'with both reporters through the real CLI',
        text='TLC explores every canonical suite hierarchy up to a bound (plain, glob, directory, repeated, cyclic, missing '
             'references, syntax errors) and every assignment of 14 case kinds, and checks InvalidIffDeclared, '
             'InvalidRunsNothing, EveryCaseOnce, SubSuitesFirst, ProgressVerdict and ReportersAgree; each input is built '
             'as a real file tree and run with the progress and the JUnit reporter; exit code, which cases executed in '
             'which order (marker file), progress lines and the JUnit document are compared.',
        note='Bounded hierarchy size (2 sub-suites / 2 lines quick; larger + 3000 random hierarchies thorough); unreadable '
             'case files need unprivileged workers; D6 was found and repaired (fix: 6c0ccbc), the old behaviour is kept '
             'as a named deviation that TLC must refute.',
        design='5/C16'),
    'C14': dict(
        engine='spec/StringSource.tla, spec/StringSourceExport.tla',
        technique='TLC enumeration of every access history (observer sequence, freeze, buffer-size class) x source kind x '
                  'transformer chain x text of a one-value specification + replay of every case as a real assertion with a '
                  'MainProgram built with the case\'s memory buffer size',
        text='The specification says that every access returns the one value whose lines are divided at new-line only; TLC '
             'enumerates 14 texts (FF, U+2028, CR LF, no final new-line, larger than the default buffer) x file / program '
             'output x 7 value-preserving transformer chains x buffer sizes around the text length x every sequence of '
             'observers reading as lines, as string, as file and through stdin, and checks that both cache '
             'representations are exercised; each case must PASS, and a control with one wrong observer must FAIL.'
             ' Observers tail / head (two passes over the lines) and notfirst (comparison with a text held in memory), texts with a second line longer than any look-ahead.',
        note='The specification is trivial by design (the property is a refinement claim); observer sequences up to 2 '
             '(quick) / 3 (thorough); D5 (splitlines) was found and repaired (fix: cfee5d8); texts with CR are the open '
             'known finding D5-CRLF (input signature).',
        design='5/C14'),
    'C19': dict(
        engine='spec/Timeout.tla (refinement of spec/PhaseExec.tla), spec/TimeoutExport.tla',
        technique='TLC model checking (safety + liveness) of the executor refined with discrete time and a process '
                  'sub-machine + replay of every case with real processes and wall-clock time',
        text='TLC explores one program use at each of 29 places (phase x kind of use, four actors, stdin from a program) x '
             'child behaviour (short, long, ignores SIGTERM) x five histories of timeout instructions x env in [setup], '
             'and checks KilledWhenOver, NotKilledWhenUnder, StepIsHardError, CleanupStillRuns, BoundedReturn, removal of '
             'the sandbox and Returns (liveness under fairness); each case is executed for real and verdict, failing '
             'phase, cleanup marker, sandbox, liveness of the started process and time bounds are compared.'
             ' Every place x use x history is also judged by the limit the process is GIVEN when it starts (hook proc), independent of wall-clock time; the point of use of a program that feeds stdin is where the process starts.',
        note='Wall-clock bounds are generous (limit + 5 s) and timing-only verdicts must be confirmed by a second run; the '
             'quick tier runs a selection (every place with a must-be-killed child), the thorough tier all 870 cases; '
             'grandchildren of shells are outside the property.',
        design='5/C19'),
    'C15': dict(
        engine='spec/DirTree.tla, spec/DirTreeExport.tla, spec/LoopTree.tla',
        technique='TLC model checking of two step machines (populating a directory from a FILE-LIST; the breadth-first '
                  'generator of -recursive with depth limits, pruning and selection) with the matchers as recursive '
                  'operators + replay of every enumerated FILE-LIST / tree x matcher through the real CLI',
        text='TLC checks PopulateDenotation, InvalidCreatesNothing, NothingOutside, GeneratorIsReference, BreadthFirst, '
             'PruneBeforeSelection, FullIsExact, QuantifierDuality, PopulateThenMatchRoundTrip and NameParts over every '
             'FILE-LIST of <= 3 entries and every tree of <= 3 nodes (files, dirs, links to files / dirs outside / broken), '
             'for every visiting order of directory entries; every scenario is executed with --keep and the tree on disk '
             '(also after HARD_ERROR), the verdicts of the files- and file-matchers and the surroundings are compared.',
        note='Bounded tree / list size (plus seeded random larger ones in the thorough tier); probes whose result depends '
             'on directory iteration order are not compared; a model-level deviation (NoNameValidation) must be refuted.',
        design='5/C15'),
    'C18': dict(
        level='exploration',
        engine='spec/Robust.tla, spec/RobustExport.tla',
        technique='model-guided exploration: TLC enumerates / simulates derivations of an abstract test-case grammar with '
                  'known defect classes and token mutations and states the outcomes allowed per class; every generated '
                  'text (and seeded mutants of the repository\'s .case files) is run by unprivileged workers under a '
                  'deadline',
        text='The input space is every text, so this is exploration, not enumeration: all single-instruction derivations '
             'over 19 instruction skeletons x classes of INTEGER / REGEX / replacement / range / typed-symbol fillers, '
             'random two-instruction derivations with up to two token mutations from TLC -simulate, and thousands of '
             'mutated corpus files; each must end with a documented outcome allowed for its class, never INTERNAL_ERROR, an '
             'escaping exception or no termination.'
             ' An exhaustive family puts one unbalanced quote before every token of every skeleton and of three kinds of [act] line; fillers hostile to message formatting (braces, per cent).',
        note='Only classes the model can classify from the text are held to {SYNTAX_ERROR, VALIDATION_ERROR, HARD_ERROR}; '
             'D7 was found and repaired (three fix: commits); D9 (astronomically large integers) and D10 (unbounded eval) '
             'are open known findings with input signatures.',
        design='5/C18'),
    'C20': dict(
        engine='spec/Help.tla, spec/HelpExport.tla',
        technique='TLC checks static relations and a nondeterministic request-resolution machine over the universe observed '
                  'from the real program (accepted names, help lists, ids and hrefs of the HTML manual) + replay of every '
                  'help request the machine resolves through the real CLI',
        text='The constants of Help.tla are bound at check time to what the program accepts (674 probes of instruction, '
             'entity, symbol, reporter, actor and header names) and to what the help and the manual list; TLC checks '
             'DocumentedIffAccepted, the entity / directive / suite relations, AnchorsUnique, EveryRefHasAnchor, '
             'RefTargetExactlyOnce and, for the grammar of `help help` as a 31-action machine, ResolveTotal and '
             'Every*Resolves; ~15 000 requests are replayed and the page kind compared.',
        note='The model is static relations plus a small decision procedure - all the property contains; where the synopsis '
             'is ambiguous or silent the machine is nondeterministic (either reading accepted).',
        design='5/C20'),
    'C10': dict(
        engine='spec/Program.tla, spec/ProgramExport.tla',
        technique='TLC model checking of program values (accumulation through @ SYMBOL chains) and of a 16-action machine '
                  'that builds and executes a test case around one process start + replay of every enumerated case (and '
                  'random deeper ones from -simulate) with a real probe process through the real CLI',
        text='TLC checks AccumulationIsAppendInDefinitionOrder (argv, stdin parts, transformations), ActStdinLast, '
             'ShellIsOneString, InterpreterArgv, CwdIsCurrentDirectory, ExecutedOnce, OutcomeTable, AssertionsSeeTheProcess '
             'and TransformsContextStreamOnly over 18 contexts of program use (four actors, run / $ / % per phase, text '
             'sources, matchers, transformers), chains up to depth 2-3 and exit codes; each case runs a sh probe that '
             'records argv (NUL separated), stdin, cwd and its parent\'s command line and exits as scripted; record, '
             'verdict, blamed line, result files and assertion verdicts are compared.',
        note='argv[0] is not compared; stdout/stderr -from explored with exit code 0 only; D12 (program output placed before '
             'earlier stdin parts) was found and repaired (fix: 0d09e39) and is kept as a deviation TLC must refute.',
        design='5/C10'),
    'C11': dict(
        engine='spec/Settings.tla, spec/SettingsExport.tla, spec/PathLookup.tla',
        technique='TLC model checking of an 11-action machine executing histories of env / cd / timeout / def instructions '
                  'interleaved with probes over the phases, against the reference semantics as folds + replay of every '
                  'history (and random longer ones from -simulate) with real probe processes through the real CLI',
        text='TLC checks ActSeesActSet, OthersSeeNonActSet, BothStartAsOsEnv, OsEnvUntouched, SetsIndependent, '
             'ActSetFinalAfterSetup, CwdForward, TimeoutForward, DefForward, KilledIffLimit (invariants) and ForwardOnly, '
             'ChildCdInvisible, SettingsOnlyByInstructions (action properties) over every history of <= 2 env instructions '
             '(-of act / !act / both, ${name} templates, program-sourced values) in all phase distributions and of the '
             'other settings; each history is a real test case whose sh probes record environment, cwd and symbol values, '
             'with one real sleeping process per timed case.',
        note='Bounded history length (longer by seeded simulation); the timeout in force at each probe is read from the '
             'proc trace event, really enforced timeouts are observed in the sleeper family only; a deviation '
             '(ActSetReinitialised) must be refuted by TLC in every run.',
        design='5/C11'),
    'C17': dict(
        engine='spec/SuiteCases.tla, spec/SuiteCasesExport.tla',
        technique='TLC model checking of a 15-action machine that processes the cases of one invocation with the process '
                  'state threaded through them, against a declarative reading (each case alone; merge of suite and case '
                  'contents) + replay of every enumerated history / merge / sandbox-value input in four ways of running '
                  'through the real CLI',
        text='TLC checks CasePure, OrderIrrelevant, EveryCase, MergeOrder, NotInherited, ThreeWaysAgree, OwnSandbox and '
             'Preprocessed over histories of 26 kinds of setting-mutating cases followed by observers, all 64 x 2 (quick) / '
             '4 096 (thorough) distributions of suite and case contents over the phases incl. actor, status and '
             'preprocessor in [conf], and 20 kinds of suite-supplied instructions whose value depends on the running '
             'case\'s sandbox; each is run via suite, --suite, beside exactly.suite and plain, and identifiers, ordered '
             'probe records, sandbox ownership of every value and os.environ / cwd afterwards are compared.'
             ' Ill-formed values (vbad) are validated from the case\'s own definitions; the multi-case suites have a preprocessor; --suite runs have a decoy exactly.suite beside the case; 12 named deviations must each be refuted by TLC.',
        note='Bounded history length; eight named deviations must each be refuted by TLC in every run; a short process after '
             '`timeout = 0` is a race and is never generated.',
        design='5/C17'),
    'C08': dict(
        engine='spec/Symbols.tla, spec/SymbolsExport.tla',
        technique='TLC model checking of a 19-action machine (one validation walk in execution order with a growing table, '
                  'then execution against the execution-time table) over programs of def / use instructions, against a '
                  'declarative violation set + replay of every enumerated program through the real CLI with probes',
        text='TLC checks VisibleIffDefinedBefore, DefinedOnce (builtins included), TypeCheckedTransitively, '
             'RejectedIffViolation, RejectedBeforeExecution, ValidationTableCoversExecutionTable, AcceptedImpliesResolvable '
             'and SubstitutionShape over programs of <= 4 instructions in any phases and file order, the full (defined type x '
             'required type) matrix directly and through one- and two-reference definitions and chains; every program is a '
             'real test case: VALIDATION_ERROR (place, rule, symbol) with nothing executed, or the values observed as argv '
             'of a probe, created directories / files, environment and kept lines.  The same programs are also given to '
             '`exactly symbol` (ReportMatchesWalk): listing (type, number of references), definition and references of '
             'every symbol, or the error of the run, with nothing executed.',
        note='13 value types, 19 use contexts; which contexts demand "just strings" transitively follows the property '
             'statement and the program\'s messages (the manual is silent); three named deviations (FirstRefOnly, ActLast, '
             'NoBuiltinsInTable) must each be refuted by TLC in every run.',
        design='5/C08'),
}

NOT_YET = 'check not built yet (planned in DESIGN.md section 5); no claim is made'


def main():
    hooks_commits = subprocess.run(
        ['git', '-C', '/repo', 'log', '--format=%H', '--grep=EXACTLY_VERIF_TRACE'],
        stdout=subprocess.PIPE, text=True).stdout.split()
    checks = []
    for pid, c in sorted(CHECKS.items()):
        checks.append({
            'property_id': pid,
            'quick_cmd': './check %s --tier quick' % pid,
            'thorough_cmd': './check %s --tier thorough' % pid,
            'evidence_file': 'evidence/%s.json' % pid,
            'replay_cmd_template': './check %s --replay {path}' % pid,
            'engine': c['engine'],
            'level_claimed': {'category': c.get('level', 'model_checking'), 'text': c['text'],
                              'design_ref': 'DESIGN.md ' + c['design']},
            'level_note': c['note'],
            'technique': c['technique'],
        })
    props = [json.loads(l)['id'] for l in open(os.path.join(VERIF, 'properties.jsonl'))]
    na = [{'property_id': p, 'reason': NOT_APPLICABLE.get(p, NOT_YET)} for p in props if p not in CHECKS]
    m = {
        'version': 1,
        'setup_cmd': './check --setup',
        'hooks': {
            'guard': 'EXACTLY_VERIF_TRACE',
            'enable': 'environment variable EXACTLY_VERIF_TRACE=<ndjson path> (set per execution by the harness); '
                      'exactly_lib is imported from /repo/src of the working tree in fresh worker processes',
            'baseline_off_cmd': '/venv/bin/python harness/baseline.py',
            'source_commits': list(reversed(hooks_commits)),
            'add_only': True,
        },
        'engines': [
            {'name': 'TLC 1.8 (tla2tools.jar)', 'path': '/opt/veriftools/tla/tla2tools.jar',
             'serves_properties': sorted(CHECKS), 'kind_free_text': 'explicit-state model checker for the TLA+ modules '
             'in spec/; also judges recorded observations and validates traces'},
            {'name': 'Apalache 0.58 (apalache-mc)', 'path': '/usr/local/bin/apalache-mc', 'serves_properties': ['C13'],
             'kind_free_text': 'symbolic (SMT) checker for TLA+: the induction steps of the interval algebra of '
             'spec/IntervalLemmas.tla for unbounded integers (length-0 invariant checks); auxiliary - TLC and the '
             'replay decide the property, an obligation Apalache does not discharge in its time limit is reported in '
             'the evidence, never assumed'},
        ],
        'checks': checks,
        'not_applicable': na,
        'notes': 'Model-based verification with an explicit TLA+ specification (spec/*.tla), bound to the code by '
                 'replay of TLC-enumerated behaviours/cases and by TLC trace validation. See DESIGN.md. '
                 'VERIF_SEED and VERIF_TIER are honoured; exit 2 = machinery failure.',
    }
    with open(os.path.join(VERIF, 'MANIFEST.json'), 'w') as fh:
        json.dump(m, fh, indent=1)
        fh.write('\n')
    try:
        import jsonschema
        jsonschema.validate(m, json.load(open('/root/.vp/MANIFEST.schema.json')))
        print('MANIFEST.json valid: %d checks, %d not claimed' % (len(checks), len(na)))
    except ImportError:
        print('MANIFEST.json written (jsonschema not available to validate)')


NOT_APPLICABLE = {}

if __name__ == '__main__':
    main()
