"""Run TLC on a module of /verif/spec and parse what it reports.

One TLC run gives: the verdict on the invariants/properties of the cfg, the statistics
(states generated, distinct states, depth), per-action coverage, and every value printed with
PrintT (used for exporting cases and for judging recorded observations).
"""
import json
import os
import re
import shutil
import subprocess
import time
from typing import Dict, List, Optional, Sequence

VERIF = os.path.dirname(os.path.dirname(os.path.abspath(__file__)))
SPEC_DIR = os.path.join(VERIF, 'spec')
TLA_CP = '/opt/veriftools/tla/tla2tools.jar:/opt/veriftools/tla/CommunityModules-deps.jar'


class TlcError(Exception):
    """Machinery failure (TLC crashed, parse error, timeout) - never a property verdict."""


class TlcResult:
    def __init__(self, cmd, rc, out, wall):
        self.cmd = cmd
        self.rc = rc
        self.out = out
        self.wall = wall
        self.generated = 0
        self.distinct = 0
        self.depth = 0
        self.violated: Optional[str] = None  # name of the violated invariant / property
        self.coverage: Dict[str, int] = {}
        self._parse()

    def _parse(self):
        m = None
        for m in re.finditer(r'(\d+) states generated, (\d+) distinct states found', self.out):
            pass
        if m:
            self.generated, self.distinct = int(m.group(1)), int(m.group(2))
        m = re.search(r'The depth of the complete state graph search is (\d+)', self.out)
        if m:
            self.depth = int(m.group(1))
        m = re.search(r'Invariant (\S+) is violated', self.out)
        if m:
            self.violated = m.group(1)
        m = re.search(r'Action property (\S+) is violated', self.out)
        if m:
            self.violated = m.group(1)
        if self.violated is None and re.search(r'Temporal properties were violated', self.out):
            self.violated = 'temporal'
        if self.violated is None and 'Assumption' in self.out and 'is false' in self.out:
            m = re.search(r'Assumption (.*?) is false', self.out)
            self.violated = 'ASSUME ' + (m.group(1) if m else '?')
        if self.violated is None and 'Deadlock reached' in self.out:
            self.violated = 'deadlock'
        if self.violated is None and re.search(r'The postcondition .* is violated|Checking .*postcondition.* failed'
                                               , self.out, re.I):
            self.violated = 'postcondition'
        # coverage: lines such as  <Init line 40, col 1 to line 40, col 4 of module M>: 12:34
        for m in re.finditer(r'^<(\w+) line \d+, col \d+ to line \d+, col \d+ of module (\w+)>: (\d+):(\d+)',
                             self.out, re.M):
            self.coverage[m.group(1)] = self.coverage.get(m.group(1), 0) + int(m.group(4))

    @property
    def ok(self) -> bool:
        return self.rc == 0 and self.violated is None and 'Error:' not in self.out

    def printed(self, tag: str) -> List[list]:
        """All values printed as <<"tag", ...>> by PrintT, each as a list of parsed elements.

        Elements are TLA+ strings (returned unescaped) or integers / other text (returned as str)."""
        return list(_iter_tagged(self.out, tag))

    def printed_json(self, tag: str) -> List:
        return [json.loads(v[0]) for v in self.printed(tag)]

    def error_excerpt(self, n=40) -> str:
        lines = self.out.splitlines()
        idx = [i for i, l in enumerate(lines) if 'Error' in l or 'violated' in l or 'is false' in l]
        if not idx:
            return '\n'.join(lines[-n:])
        return '\n'.join(lines[max(0, idx[0] - 2): idx[0] + n])


def _iter_tagged(out: str, tag: str):
    start_pat = '<<"%s"' % tag
    pos = 0
    n = len(out)
    while True:
        i = out.find(start_pat, pos)
        if i < 0:
            return
        j = i + len(start_pat)
        elems = []
        cur = []
        depth = 1
        in_str = False
        s = []
        ok = False
        while j < n:
            c = out[j]
            if in_str:
                if c == '\\' and j + 1 < n:
                    nx = out[j + 1]
                    s.append({'n': '\n', 't': '\t', 'r': '\r', 'f': '\f'}.get(nx, nx))
                    j += 2
                    continue
                if c == '"':
                    in_str = False
                    if depth == 1:
                        elems.append(''.join(s))
                        cur = None
                    else:
                        cur.append('"' + ''.join(s) + '"')
                    j += 1
                    continue
                s.append(c)
                j += 1
                continue
            if c == '"':
                in_str = True
                s = []
                if cur is None:
                    cur = []
                j += 1
                continue
            if out.startswith('<<', j):
                depth += 1
                if cur is None:
                    cur = []
                cur.append('<<')
                j += 2
                continue
            if out.startswith('>>', j):
                depth -= 1
                if depth == 0:
                    if cur:
                        t = ''.join(cur).strip()
                        if t:
                            elems.append(t)
                    ok = True
                    j += 2
                    break
                cur.append('>>')
                j += 2
                continue
            if c == ',' and depth == 1:
                if cur:
                    t = ''.join(cur).strip()
                    if t:
                        elems.append(t)
                cur = []
                j += 1
                continue
            if cur is None:
                cur = []
            cur.append(c)
            j += 1
        if ok:
            yield elems
        pos = j


def run(module: str,
        cfg: str,
        scratch: str,
        workers: int = 16,
        simulate: Optional[str] = None,
        depth: Optional[int] = None,
        seed: Optional[int] = None,
        coverage: bool = False,
        env: Optional[Dict[str, str]] = None,
        timeout: int = 1800,
        extra: Sequence[str] = (),
        java_props: Sequence[str] = (),
        heap: str = '8g',
        name: Optional[str] = None,
        spec_dir: str = SPEC_DIR,
        check_deadlock: bool = False) -> TlcResult:
    """Run TLC on spec/<module>.tla with the given cfg *text*.

    The spec directory is copied into the scratch directory so that TLC never writes into /verif."""
    name = name or module
    run_dir = os.path.join(scratch, 'tlc-' + name)
    k = 0
    while os.path.exists(run_dir):
        k += 1
        run_dir = os.path.join(scratch, 'tlc-%s-%d' % (name, k))
    os.makedirs(run_dir)
    for f in os.listdir(spec_dir):
        if f.endswith('.tla'):
            shutil.copy(os.path.join(spec_dir, f), run_dir)
    cfg_path = os.path.join(run_dir, module + '.cfg')
    with open(cfg_path, 'w') as fh:
        fh.write(cfg)
    tmpdir = os.path.join(run_dir, 'jtmp')
    os.makedirs(tmpdir)
    cmd = ['java', '-XX:+UseParallelGC', '-Xmx' + heap, '-Djava.io.tmpdir=' + tmpdir]
    cmd += list(java_props)
    cmd += ['-cp', TLA_CP, 'tlc2.TLC', '-metadir', os.path.join(run_dir, 'meta'), '-noGenerateSpecTE',
            '-workers', str(workers), '-config', cfg_path]
    if not check_deadlock:
        pass  # deadlock checking is switched off in the cfg (CHECK_DEADLOCK FALSE) where needed
    if simulate is not None:
        cmd += ['-simulate', simulate]
    if depth is not None:
        cmd += ['-depth', str(depth)]
    if seed is not None:
        cmd += ['-seed', str(seed)]
    if coverage:
        cmd += ['-coverage', '1']
    cmd += list(extra)
    cmd += [module + '.tla']
    e = dict(os.environ)
    e.pop('JAVA_TOOL_OPTIONS', None)
    if env:
        e.update(env)
    t0 = time.time()
    try:
        p = subprocess.run(cmd, cwd=run_dir, env=e, stdout=subprocess.PIPE, stderr=subprocess.STDOUT,
                           timeout=timeout, text=True, errors='replace')
    except subprocess.TimeoutExpired as ex:
        raise TlcError('TLC timed out after %d s: %s' % (timeout, ' '.join(cmd)))
    wall = time.time() - t0
    res = TlcResult(' '.join(cmd), p.returncode, p.stdout, wall)
    with open(os.path.join(run_dir, 'tlc.out'), 'w') as fh:
        fh.write(p.stdout)
    res.run_dir = run_dir
    if 'Parsing or semantic analysis failed' in p.stdout or 'Error: ' in p.stdout and 'is violated' not in p.stdout \
            and res.violated is None and p.returncode != 0:
        raise TlcError('TLC failed on %s:\n%s' % (module, res.error_excerpt(60)))
    return res


def apalache(module: str, scratch: str, inv: str, init: str = 'Init', next_: str = 'Next', length: int = 0,
             timeout: int = 900, name: Optional[str] = None, spec_dir: str = SPEC_DIR) -> Dict[str, object]:
    """apalache-mc check of an invariant (bounded symbolic model checking over unbounded integers).
    outcome: 'NoError' | 'Error' (counterexample found) | 'timeout' | 'unavailable' | 'failed'"""
    name = name or (module + '-' + inv)
    run_dir = os.path.join(scratch, 'apalache-' + name)
    os.makedirs(run_dir, exist_ok=True)
    for f in os.listdir(spec_dir):
        if f.endswith('.tla'):
            shutil.copy(os.path.join(spec_dir, f), run_dir)
    exe = shutil.which('apalache-mc') or '/opt/veriftools/apalache/bin/apalache-mc'
    cmd = [exe, 'check', '--init=' + init, '--next=' + next_, '--inv=' + inv, '--length=%d' % length,
           '--out-dir=' + os.path.join(run_dir, 'out'), module + '.tla']
    if not os.path.exists(exe):
        return dict(module=module, name=name, engine='apalache', outcome='unavailable', wall_s=0, cmd=' '.join(cmd))
    e = dict(os.environ)
    e.pop('JAVA_TOOL_OPTIONS', None)
    e['JVM_ARGS'] = '-Xmx4g -Djava.io.tmpdir=' + run_dir
    e['TMPDIR'] = run_dir
    t0 = time.time()
    try:
        p = subprocess.run(cmd, cwd=run_dir, env=e, stdout=subprocess.PIPE, stderr=subprocess.STDOUT, timeout=timeout,
                           text=True, errors='replace', start_new_session=True)
        out = p.stdout
        if 'The outcome is: NoError' in out:
            outcome = 'NoError'
        elif 'The outcome is: Error' in out and 'invariant' in out and 'violated' in out:
            outcome = 'Error'
        else:
            outcome = 'failed'
    except subprocess.TimeoutExpired as ex:
        out = (ex.stdout or b'').decode('utf-8', 'replace') if isinstance(ex.stdout, bytes) else (ex.stdout or '')
        outcome = 'timeout'
        subprocess.run(['pkill', '-f', run_dir], stdout=subprocess.DEVNULL, stderr=subprocess.DEVNULL)
    with open(os.path.join(run_dir, 'apalache.out'), 'w') as fh:
        fh.write(out)
    return dict(module=module, name=name, engine='apalache', inv=inv, init=init, length=length, outcome=outcome,
                wall_s=round(time.time() - t0, 1), cmd=' '.join(cmd).replace(run_dir, '<scratch>'),
                excerpt=out[-1500:] if outcome == 'failed' else None)


def sany(path: str) -> bool:
    import tempfile
    tmp = tempfile.mkdtemp(prefix='vf-sany-')        # (SANY unpacks its standard modules into java.io.tmpdir)
    try:
        p = subprocess.run(['java', '-Djava.io.tmpdir=' + tmp, '-cp', TLA_CP, 'tla2sany.SANY', os.path.basename(path)],
                           cwd=os.path.dirname(path), stdout=subprocess.PIPE, stderr=subprocess.STDOUT, text=True)
    finally:
        shutil.rmtree(tmp, ignore_errors=True)
    return p.returncode == 0 and 'error' not in p.stdout.lower().replace('errors: 0', ''), p.stdout
