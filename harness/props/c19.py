"""C19  Timeouts are enforced on every OS process; Exactly never waits indefinitely.

spec/Timeout.tla: PhaseExec refined with discrete time and a process sub-machine (Start, Tick, ChildExit, Kill) for
one program use at every place (phase x kind of use), child behaviour (short / long / ignores SIGTERM), history of
`timeout` instructions relative to the use, with and without `env` in [setup].  TLC checks KilledWhenOver,
NotKilledWhenUnder, StepIsHardError, CleanupStillRuns, BoundedReturn, removal of the sandbox (invariants) and Returns
(liveness).  Every case is run for real - real processes, wall-clock time - and compared: verdict and failing phase,
cleanup marker, sandbox gone, child process gone, time bounds.
"""
import json
import os
import random
import time

from harness import core

LIMIT_S = 1
SHORT_S = 0.2
LONG_KILLED_S = 9        # a child that must be killed: it never gets that far if the timeout works
LONG_ALLOWED_S = 2.2     # a child that must NOT be killed although it runs longer than `timeout = 1` elsewhere
SLACK_S = 5.0            # generous: the machine may be busy
INVARIANTS = ['KilledWhenOver', 'TerminatedWhenOver', 'NotKilledWhenUnder', 'RunsToCompletionOtherwise',
              'StepIsHardError', 'PassOtherwise', 'CleanupStillRuns', 'BoundedReturn', 'SpendsTheChildsTime',
              'RemovedAtEnd', 'CleanupExactlyOnce']
PHASE_HDR = {'setup': '[setup]', 'ba': '[before-assert]', 'assert': '[assert]', 'cleanup': '[cleanup]'}
PHASE_NAME = {'setup': 'setup', 'ba': 'before-assert', 'assert': 'assert', 'cleanup': 'cleanup', 'act': 'act'}


def cfg(histories, spec='TSpec', invariants=INVARIANTS, props=(), deviations=()):
    return ('SPECIFICATION %s\nCONSTANTS MaxN = 3\n Limit = 2\n ShortDur = 1\n LongDur = 5\n'
            ' Places = {"setup", "act", "ba", "assert", "cleanup"}\n Histories = {%s}\n Deviations = {%s}\n'
            % (spec, ', '.join('"%s"' % h for h in histories), ', '.join('"%s"' % d for d in deviations))
            + ''.join('INVARIANT %s\n' % i for i in invariants) + ''.join('PROPERTY %s\n' % p for p in props)
            + 'CHECK_DEADLOCK FALSE\n')


def use_line(use, prog):
    return {
        'run': 'run %s' % prog,
        'shell': '$ %s' % prog,
        'percent': '%% %s' % prog,
        'file-from-stdout': 'file out-of-program.txt = -stdout-from %s' % prog,
        'transformer-run': "file transformed.txt = 'abc' -transformed-by run %s" % prog,
        'text-matcher-run': 'contents -rel-home some.txt : run %s' % prog,
        'file-matcher-run': 'exists -rel-home some.txt : run %s' % prog,
        'exit-code-from': 'exit-code -from %s\n == 0' % prog,
        'stdout-from': 'stdout -from %s\n ! is-empty' % prog,
        'env-from-stdout': 'env VERIF_P = -stdout-from %s' % prog,
        'stdout-from-transformed': 'stdout -from % echo x\n  -transformed-by run ' + prog + '\n  ! is-empty',
        'prune-matcher-run': 'dir-contents -rel-home dd : -recursive -with-pruned ( run %s ) num-files >= 0' % prog,
        'selection-matcher-run': 'dir-contents -rel-home dd : -selection ( run %s ) num-files >= 0' % prog,
    }[use]


def concretize(c, slow, tag, marker, dur):
    # half of the cases: one more argument (which the program ignores) made of text that is hostile to message
    # formatting - the command line is quoted in the error message of a timeout
    import zlib
    hostile = " '{0}%s{'" if zlib.crc32(sig(c).encode()) % 2 else ''
    prog = '%s %s %s %s%s' % (slow, tag, c['child'], dur, hostile)
    conf, setup, act, ba, asrt, cleanup = [], [], [], [], [], []
    tmo = {'default': [], 'set-before': ['timeout = 1'], 'none-then-set': ['timeout = none', 'timeout = 1'],
           'set-then-none': ['timeout = 1', 'timeout = none'], 'set-after': [],
           'decl-then-set': [], 'set-decl-none': ['timeout = 1'],
           'zero-before': ['timeout = 0'], 'none-then-zero': ['timeout = none', 'timeout = 1-1']}[c['hist']]
    setup += tmo
    if c['env']:
        setup.append('env VERIF_E = 1')
    phases = {'setup': setup, 'ba': ba, 'assert': asrt, 'cleanup': cleanup}
    if c['place'] == 'act':
        if c['use'] == 'actor-command-line':
            act = [prog]
        elif c['use'] == 'actor-shell':
            act = ['$ ' + prog]
        elif c['use'] == 'actor-file':
            conf.append('actor = file % sh')
            act = ['slow.sh %s %s %s%s' % (tag, c['child'], dur, hostile)]
        elif c['use'] == 'actor-source':
            conf.append('actor = source % sh')
            act = ['exec %s %s %s %s%s' % (slow, tag, c['child'], dur, hostile)]
        else:
            setup.append('stdin = -stdout-from %s' % prog)
            if c['hist'] == 'decl-then-set':        # in force when the process starts, in [act]
                setup.append('timeout = 1')
            elif c['hist'] == 'set-decl-none':
                setup.append('timeout = none')
            act = ['$ cat > /dev/null']
        if c['hist'] == 'set-after':
            ba.append('timeout = 1')
    else:
        phases[c['place']].append(use_line(c['use'], prog))
        if c['hist'] == 'set-after':
            phases[c['place']].append('timeout = 1')
    if c['hist'] in ('zero-before', 'none-then-zero'):
        cleanup.append('timeout = none')          # (the marker is written by a process, too)
    cleanup.append('$ touch %s' % marker)
    parts = []
    if conf:
        parts.append('[conf]\n' + '\n'.join(conf))
    for name, lines in (('[setup]', setup), ('[act]', act), ('[before-assert]', ba), ('[assert]', asrt),
                        ('[cleanup]', cleanup)):
        if lines:
            parts.append(name + '\n' + '\n'.join(lines))
    return '\n'.join(parts) + '\n'


SLOW = """#!/bin/sh
# usage: slow.sh TAG BEHAVIOUR SECONDS
echo $$ > %(out)s/pid-$1
case "$2" in
  stubborn) trap '' TERM ;;
esac
sleep $3
cat > /dev/null 2>&1 < /dev/null
echo done
exit 0
"""


def expected_dur(c):
    if c['child'] == 'short':
        return SHORT_S
    return LONG_KILLED_S if c['killed'] else LONG_ALLOWED_S


def exec_case(task, cd):
    from harness import inproc
    c = task['case']
    slow = os.path.join(cd.home, 'slow.sh')
    cd.write({'slow.sh': SLOW % dict(out=cd.out), 'some.txt': 'abc\n', 'dd/sub/f.txt': 'x\n'}, mode={'slow.sh': 0o755})
    marker = os.path.join(cd.out, 'cleanup-marker')
    text = concretize(c, slow, 't', marker, expected_dur(c))
    cd.write({'c.case': text})
    t0 = time.time()
    r = inproc.run_main(['c.case'], cd, trace=True)
    wall = time.time() - t0
    # the limit each process that runs the program was GIVEN when it started (hook `proc`, at the point of start)
    given = []
    for ev in r.get('trace') or []:
        if ev.get('ev') == 'proc':
            cmd = ev.get('cmd')
            cmd = cmd if isinstance(cmd, str) else ' '.join(map(str, cmd))
            if 'slow.sh t ' in cmd or cmd.endswith('slow.sh t'):
                given.append(ev.get('timeout'))
    t_end = time.time()
    pidf = os.path.join(cd.out, 'pid-t')
    alive = None
    child_start = None
    if os.path.exists(pidf):
        try:
            child_start = os.stat(pidf).st_mtime
        except OSError:
            pass
        try:
            pid = int(open(pidf).read().strip())
            time.sleep(0.05)
            alive = os.path.exists('/proc/%d' % pid) and 'Z' not in open('/proc/%d/stat' % pid).read().split(')')[1][:3]
        except (ValueError, OSError):
            alive = False
    return dict(exit=r['exit'], exception=r['exception'], ident=(r['stdout'].splitlines() or [''])[0],
                stderr=r['stderr'][:400], wall=round(wall, 2), marker=os.path.exists(marker),
                sandboxes=cd.sandboxes(), child_started=os.path.exists(pidf), child_alive=alive, text=text,
                given=given, events=r.get('trace') or [],
                child_ran_s=None if child_start is None else round(t_end - child_start, 3))


def compare(c, o):
    """returns (clause or None, timing_only)"""
    if o.get('no_termination'):
        return 'BoundedReturn: Exactly did not return within the deadline', False
    if o.get('exception') or o.get('harness_exception') or o.get('worker_died'):
        return 'NoEscapingException: %s' % str(o)[:200], False
    if not o['child_started'] and c['atStart'] != 'zero':     # (a limit of 0 s: the child may not get as far as that)
        return 'ChildStarted: the program was never started (concretisation?)', False
    want = {'set': LIMIT_S, 'none': None, 'default': 60, 'zero': 0}[c['atStart']]
    limit_s = 0 if c['atStart'] == 'zero' else LIMIT_S
    if o.get('given') and any(g != want for g in o['given']):
        return 'TimeoutInForceAtStart: the process was started with limit %s, specification %s (%s)' % (
            o['given'], want, c['atStart']), False
    if c['killed']:
        if o['exit'] != 128 or o['ident'] != 'HARD_ERROR':
            return 'StepIsHardError/KilledWhenOver: %s (exit %s) after %.1f s' % (o['ident'], o['exit'], o['wall']), False
        if ('In [%s]' % PHASE_NAME[c['phase']]) not in o['stderr']:
            return 'StepIsHardError: failing phase %r' % o['stderr'][:40], False
    else:
        if o['exit'] != 0 or o['ident'] != 'PASS':
            # A child that was still running when its limit had passed (a loaded machine: the 0.2 s child needed more
            # than the limit) was killed rightly: that run says nothing about NotKilledWhenUnder.  Measured by the
            # child itself: the time stamp of the file it writes first, against the return of Exactly.
            slow_machine = (c['atStart'] == 'set' and o['ident'] == 'HARD_ERROR' and o.get('child_ran_s') is not None
                            and o['child_ran_s'] >= LIMIT_S)
            return 'NotKilledWhenUnder: %s (exit %s) after %.1f s: %s' % (o['ident'], o['exit'], o['wall'],
                                                                         o['stderr'][:120]), ('slow-machine' if slow_machine else False)
    if bool(c['cleanupRan']) != o['marker']:
        return 'CleanupStillRuns: marker %s' % o['marker'], False
    if o['sandboxes']:
        return 'SandboxRemoved: %s' % o['sandboxes'], False
    if c['killed'] and c['use'] not in ('shell', 'actor-shell', 'actor-source') and o['child_alive']:
        return 'KilledWhenOver: the process Exactly started is still alive', False
    if c['killed'] and o['wall'] > limit_s + SLACK_S:
        return 'BoundedReturn: returned after %.1f s (limit %d s)' % (o['wall'], limit_s), True
    if c['killed'] and o['wall'] < limit_s * 0.9:
        return 'NotKilledWhenUnder: HARD_ERROR after only %.2f s' % o['wall'], True
    if not c['killed'] and o['wall'] < expected_dur(c) * 0.9:
        return 'RunsToCompletion: returned after %.2f s, the child runs %.1f s' % (o['wall'], expected_dur(c)), True
    return None, False


def sig(c):
    return 'place=%s use=%s child=%s timeout=%s env=%s' % (c['place'], c['use'], c['child'], c['hist'], c['env'])


def select_quick(cases, rnd):
    out = []
    for c in cases:
        if c['hist'] in ('decl-then-set', 'set-decl-none'):
            if not c['env'] and c['child'] != 'stubborn':
                out.append(c)
        elif c['hist'] in ('zero-before', 'none-then-zero'):
            # a limit of 0 seconds: cheap (every process is killed at once) - every place x use
            if not c['env'] and (c['child'] == 'long' if c['hist'] == 'zero-before' else c['child'] == 'short'):
                out.append(c)
        elif c['child'] == 'short':
            out.append(c)       # cheap: every place x use x history, judged by the limit given at the start
        elif c['killed']:
            if c['hist'] == 'set-before' and (c['env'] or c['place'] != 'act') and not (c['env'] and c['place'] not in ('act', 'setup')):
                out.append(c)
            elif c['hist'] == 'none-then-set' and c['use'] in ('run', 'actor-command-line') and not c['env']:
                out.append(c)
        elif c['child'] == 'long' and not c['env'] and c['use'] in ('run', 'actor-command-line', 'text-matcher-run') \
                and c['hist'] in ('set-after', 'set-then-none'):
            out.append(c)
    return out


def run(ctx):
    quick = ctx.tier == 'quick'
    rnd = random.Random(ctx.seed)
    hists = ['default', 'set-before', 'set-after', 'none-then-set', 'set-then-none', 'decl-then-set', 'set-decl-none',
             'zero-before', 'none-then-zero']
    mc = ctx.tlc('Timeout', cfg(hists), coverage=True, name='mc')
    ctx.require_coverage(mc, ['Start', 'Tick', 'ChildExit', 'Kill', 'ExecStep'])
    ctx.tlc('Timeout', cfg(['set-before', 'set-after'], spec='TFairSpec', invariants=[], props=['Returns']),
            name='liveness', count=False)
    ctx.cov['liveness_checked'] = ['Returns']
    dv = ctx.tlc('Timeout', cfg(['decl-then-set', 'set-decl-none'], invariants=['TerminatedWhenOver', 'NotKilledWhenUnder'],
                                deviations=['CapturedAtDeclaration']), name='mc-with-deviation', count=False,
                 must_hold=False)
    if dv.violated not in ('TerminatedWhenOver', 'NotKilledWhenUnder'):
        raise core.MachineryFailure('the deviation CapturedAtDeclaration is not refuted (TLC: %s)' % dv.violated)
    ctx.cov['negative_controls_rejected'] += 1
    ex = ctx.tlc('TimeoutExport', cfg(hists, invariants=['Export']), workers=1, name='export', count=False)
    cases = ex.printed_json('CASE')
    if quick:
        cases = select_quick(cases, rnd)
    with ctx.pool(workers=12) as pool:
        obs = pool.map('harness.props.c19:exec_case', [dict(case=c) for c in cases], deadline=60, chunk=1)
        # a timing verdict counts only if it is confirmed by a second run, alone
        retry = [j for j, (c, o) in enumerate(zip(cases, obs)) if compare(c, o)[1]]
        for j in retry:
            for _attempt in range(3):
                obs[j] = pool.map('harness.props.c19:exec_case', [dict(case=cases[j])], deadline=60, chunk=1)[0]
                if not compare(cases[j], obs[j])[1]:
                    break
    bad = inconclusive = 0
    for c, o in zip(cases, obs):
        ctx.count()
        ctx.nontrivial(sig(c))
        clause, timing = compare(c, o)
        if clause and timing == 'slow-machine':
            inconclusive += 1        # four runs, each time the 0.2 s child was still running after its 1 s limit
            continue
        if clause:
            bad += 1
            ctx.fail('%s %s' % (clause.split(':')[0], sig(c)), dict(kind='case', case=c, observed=o, clause=clause))
    # code -> spec: a process killed by the timeout is a HARD_ERROR of the step it belongs to - the execution as a
    # whole (what runs afterwards, [cleanup], the removal of the sandbox) must be a behaviour of PhaseExec
    from harness import trace_exec
    items = [dict(id=sig(c), events=o['events'], argv=['c.case'], files={'c.case': o.get('text')})
             for c, o in zip(cases, obs) if o.get('events')]
    if items:
        trace_exec.validate(ctx, items, 'timeout cases')
    for o in obs:
        o.pop('events', None)
    ctx.cov['traces_validated_against_impl'] += len(cases)
    ctx.cov['replay'] = dict(cases=len(cases), killed_expected=sum(1 for c in cases if c['killed']),
                             judged_by_limit_given_at_start=sum(1 for o in obs if o.get('given')),
                             retried_for_timing=len(retry), disagreements=bad,
                             inconclusive_machine_too_slow=inconclusive,
                             max_wall_killed=max([o.get('wall', 0) for c, o in zip(cases, obs) if c['killed']] or [0]))
    # negative controls
    tried = rejected = 0
    for c, o in list(zip(cases, obs))[:: max(1, len(cases) // 20)]:
        o2 = dict(o)
        if c['killed']:
            o2.update(exit=0, ident='PASS')
        else:
            o2.update(exit=128, ident='HARD_ERROR')
        tried += 1
        rejected += compare(c, o2)[0] is not None
    if tried == 0 or tried != rejected:
        raise core.MachineryFailure('negative controls: %d of %d rejected' % (rejected, tried))
    ctx.cov['negative_controls_rejected'] += rejected
    for j in (0, len(cases) // 2, len(cases) - 1):
        ctx.sample(dict(case=sig(cases[j]), test_case=obs[j].get('text'), expected='HARD_ERROR' if cases[j]['killed'] else 'PASS',
                        observed=dict(ident=obs[j].get('ident'), wall=obs[j].get('wall'), cleanup_marker=obs[j].get('marker'))))
    ctx.cov['exhaustive'] = not quick
    ctx.cov['rule'] = ('cases of Timeout.tla: 29 places (phase x kind of program use, incl. the four actors and stdin from a '
                       'program) x child {short, long, ignores SIGTERM} x 7 timeout histories x env in [setup] or not; '
                       + ('quick tier: every place with a child that must be killed (timeout set before), env variants '
                          'for act and setup, and a selection of must-not-be-killed cases; ' if quick else 'all of them; ')
                       + 'run with real processes and wall-clock time; non-trivial = every distinct case')
    ctx.assumptions += ['wall-clock bounds are generous (limit + %.0f s) and a timing-only verdict must be confirmed by a '
                        'second run' % SLACK_S,
                        'for `$` uses the process Exactly starts is the shell; whether grandchildren die is not checked',
                        'cases are run in process (the timeout machinery is subprocess.call, the same in or out of process)']


def replay(ctx, rec):
    r = rec['record']
    if r.get('kind') == 'trace':
        from harness import trace_exec
        return trace_exec.replay(ctx, r)
    with ctx.pool(workers=1) as pool:
        o = pool.map('harness.props.c19:exec_case', [dict(case=r['case'])], deadline=60)[0]
    clause, _ = compare(r['case'], o)
    print(json.dumps(dict(case=r['case'], observed=o, clause=clause), indent=1))
    if clause:
        print('VIOLATION property=C19 replay=(given)')
        return 1
    return 0
