"""C18  Mistakes in a test case are reported as such, never as internal errors.   (level: exploration)

spec/Robust.tla generates test cases with KNOWN defect classes from an abstract grammar (typed argument slots filled
with well-formed or defective values) and mutants of them (token deletion / duplication / transposition /
replacement, truncation, quote imbalance), and states which outcomes the property permits per class.  TLC enumerates
all unmutated single-instruction derivations and simulates random deeper derivations + mutations; every generated
text is run in process by UNPRIVILEGED workers (the text may contain damaged shell commands) under a wall-clock
deadline, and outcome / escaping exception / non-termination are compared with the allowed set.  Additionally the
repository's own .case files are mutated (seeded) and held to "documented outcome, no INTERNAL_ERROR, no exception,
terminates".
"""
import json
import os
import random
import re

from harness import core, trace_exec

LEVEL = 'exploration'
IDENTS = ('PASS', 'FAIL', 'XFAIL', 'XPASS', 'SKIPPED', 'SYNTAX_ERROR', 'VALIDATION_ERROR', 'HARD_ERROR',
          'FILE_ACCESS_ERROR', 'PRE_PROCESS_ERROR', 'INTERNAL_ERROR')
EXIT = {'PASS': 0, 'SKIPPED': 0, 'FAIL': 32, 'XFAIL': 33, 'XPASS': 33, 'SYNTAX_ERROR': 65, 'VALIDATION_ERROR': 65,
        'FILE_ACCESS_ERROR': 65, 'PRE_PROCESS_ERROR': 65, 'HARD_ERROR': 128, 'INTERNAL_ERROR': 129}


def cfg(max_instr, max_mut, hang=False, export=False, quote_family=False):
    c = ('SPECIFICATION Spec\nCONSTANTS MaxInstr = %d\n MaxMut = %d\n IncludeHang = %s\n QuoteFamily = %s\n'
         % (max_instr, max_mut, 'TRUE' if hang else 'FALSE', 'TRUE' if quote_family else 'FALSE'))
    c += 'INVARIANT Export\n' if export else 'INVARIANT NeverInternal\nINVARIANT ClassTotal\nINVARIANT ValidHasNoDefect\n'
    return c + 'CHECK_DEADLOCK FALSE\n'


SPECIAL = {'\\u00e9': 'é', '\\f': '\x0c', '\\v': '\x0b', '\\u00a0': '\u00a0', '\\u2028': '\u2028', 'LONG': 'a' * 300,
           'NBSP-HDR': '\u00a0[assert]', 'FF-HDR': '\x0c[setup]', 'EMSP-HDR': '\u2003[cleanup]',
           'DIGIT2': '\u00b2', 'DIGITS-AR': '\u0661\u0662', 'NINES': '9' * 5000}


def render(toks):
    lines, cur = [], []
    eol = True
    for t in toks:
        if t == 'NL':
            lines.append(' '.join(cur))
            cur = []
        elif t == 'NOEOL':
            eol = False
        else:
            cur.append(SPECIAL.get(t, t))
    if cur:
        lines.append(' '.join(cur))
    return '\n'.join(lines) + ('\n' if eol else '')


# ---------------------------------------------------------------- worker side
def exec_text(task, cd):
    from harness import inproc
    cwd = task.get('cwd')
    if cwd:
        path = os.path.join(cwd, 'verif-mutant-%d.case' % os.getpid())
        with open(path, 'w', encoding='utf-8', errors='surrogateescape') as fh:
            fh.write(task['text'])
        argv = [os.path.basename(path)]
    else:
        cd.write({'c.case': task['text']})
        path = None
        argv = ['c.case']
        import zlib
        if zlib.crc32(task['text'].encode('utf-8', 'surrogateescape')) % 3 == 0:
            # the case file is named by a relative path that leads OUT of the current directory
            cwd = os.path.join(cd.home, 'elsewhere')
            os.makedirs(cwd, exist_ok=True)
            argv = ['../c.case']
    try:
        r = inproc.run_main(argv, cd, cwd=cwd)
    finally:
        if path:
            try:
                os.remove(path)
            except OSError:
                pass
    first = (r['stdout'].splitlines() or [''])[0]
    return dict(exit=r['exit'], exception=r['exception'], ident=first if first in IDENTS else None,
                stdout=r['stdout'][:200], stderr=r['stderr'][-500:], traceback=r.get('traceback'),
                name_too_long='File name too long' in r['stderr'])


def judge(allowed, o):
    """-> None or the violated clause"""
    if o.get('no_termination'):
        return 'Terminates: no outcome within the deadline'
    if o.get('worker_died'):
        return 'Terminates: the process died'
    if o.get('harness_exception'):
        return 'Harness: ' + o['harness_exception'][-300:]
    if o['exception']:
        return 'NoEscapingException: ' + o['exception']
    if o['ident'] is None:
        if o['exit'] == 64:      # invalid usage: not an outcome of a test case text (cannot happen here)
            return 'DocumentedOutcome: exit 64'
        return 'DocumentedOutcome: exit %s, stdout %r' % (o['exit'], o['stdout'][:80])
    if o['ident'] == 'INTERNAL_ERROR':
        if 'UnicodeDecodeError' in o['stderr']:
            # output of a PROGRAM that is not UTF-8 text (a mutated option makes `stat` print half a character): the
            # error does not stem from the text of the test case - outside the property (observation O4 in DESIGN.md)
            return None
        return 'NeverInternalError: %s' % o['stderr'][-200:].replace('\n', ' | ')
    if EXIT[o['ident']] != o['exit']:
        return 'ExitCodeMatchesIdentifier: %s with exit %s' % (o['ident'], o['exit'])
    if o['ident'] not in allowed:
        return 'AllowedForClass: %s, allowed %s' % (o['ident'], sorted(allowed))
    return None


def known(text, o):
    # D18: a path component of more than 255 characters (whatever it is made of) AND the OS error for it
    if re.search(r'[^\s/]{256,}', text) and o.get('ident') == 'INTERNAL_ERROR' and \
            (o.get('name_too_long') or 'File name too long' in (o.get('stderr') or '')):
        return 'D18'
    if '9**9**9' in text and o.get('no_termination'):
        return 'D10'
    return None


# ---------------------------------------------------------------- corpus mutation (auxiliary, seeded)
EXTREME = ['0', '-1', '1//0', '1/0', '1.5', "'a'", '()', '2**70', '1e3', 'None', '', '(', ')', '[', '*', '\\', "'\\6'",
           "'(?P<a'", "'[a-'", "'a{2,1}'", '+', '@[UNDEF]@', '@[EXACTLY_ACT]@', '"', "'", '<<EOF', ':>', '-rel-tmp', '-rel',
           '!', '&&', '||', '=', ':', '{', '}', '-full', 'é', '\t', "'a{4294967296}'", '10**5000', '[setup]', '`', '\x0c', '\x0b', '\u00a0', '\u2028', 'a' * 300,
           "''", "'.'", '\u00b2', '9' * 5000, '007', '\u0661', 'exit()', 'exit(7)', 'quit()', '\u00a0[assert]',
           '\x0c[setup]', '\u2003[cleanup]']


def mutate(rnd, text):
    toks = re.findall(r'\s+|\S+', text)
    idx = [i for i, t in enumerate(toks) if not t.isspace()]
    if not idx:
        return text
    for _ in range(rnd.choice((1, 1, 2, 3))):
        i = rnd.choice(idx)
        op = rnd.choice(('del', 'dup', 'rep', 'swap', 'trunc', 'quote', 'noise'))
        if op == 'del':
            toks[i] = ''
        elif op == 'dup':
            toks[i] = toks[i] + ' ' + toks[i]
        elif op == 'rep':
            toks[i] = rnd.choice(EXTREME)
        elif op == 'swap':
            j = rnd.choice(idx)
            toks[i], toks[j] = toks[j], toks[i]
        elif op == 'trunc':
            s = ''.join(toks)
            return s[:rnd.randrange(len(s) + 1)]
        elif op == 'noise':
            toks[i] = ''.join(chr(rnd.choice((rnd.randrange(32, 127), rnd.randrange(160, 0x2fff)))) for _ in range(rnd.randrange(1, 6)))
        else:
            toks[i] = rnd.choice('"\'') + toks[i]
    return ''.join(toks)


def run(ctx):
    quick = ctx.tier == 'quick'
    rnd = random.Random(ctx.seed)
    mc = ctx.tlc('Robust', cfg(1, 0, hang=True), coverage=True, name='mc-derivations')
    ctx.require_coverage(mc, ['Assemble', 'Finish'])
    ex1 = ctx.tlc('RobustExport', cfg(1, 0, export=True), workers=1, name='export-derivations', count=False)
    derivs = ex1.printed_json('CASE')
    exh = ctx.tlc('RobustExport', cfg(1, 0, hang=True, export=True), workers=1, name='export-hang', count=False)
    hang = [c for c in exh.printed_json('CASE') if any('9**9**9' in t for t in c['toks'])]
    sim = ctx.tlc('RobustExport', cfg(2, 2, export=True), workers=1, simulate='num=%d' % (1200 if quick else 20000),
                  depth=12, seed=ctx.seed + 5, name='simulate', count=True, timeout=3000)
    simc = {json.dumps(c['toks']): c for c in sim.printed_json('CASE')}
    # exhaustive: one unbalanced quote in front of every token of every skeleton and of every kind of [act] line
    exq = ctx.tlc('RobustExport', cfg(1, 1, export=True, quote_family=True), workers=1, name='export-quote-family',
                  count=True, timeout=3000)
    quotes = {json.dumps(c['toks']): c for c in exq.printed_json('CASE')}
    if len(quotes) < 500:
        raise core.MachineryFailure('quote family too small: %d' % len(quotes))
    gen = derivs + list(simc.values()) + list(quotes.values())
    classes = {}
    for c in gen:
        classes[c['class']] = classes.get(c['class'], 0) + 1
    if not all(classes.get(k) for k in ('Valid', 'TextOnlyDefect', 'Unknown')):
        raise core.MachineryFailure('a class was never generated: %s' % classes)
    # corpus mutants
    base = trace_exec.prepare_corpus(ctx)
    os.system('chmod -R a+rwX %s' % base)
    seeds = []
    for p in trace_exec.corpus_cases(base):
        try:
            t = open(p, encoding='utf-8').read()
        except (OSError, UnicodeDecodeError):
            continue
        if 'python' in t.lower() or 'python' in p.lower():
            continue     # the interpreter is not executable for the unprivileged user
        seeds.append((p, t))
    n_corpus = 3000 if quick else 150000
    ctasks = []
    for _ in range(n_corpus):
        p, t = rnd.choice(seeds)
        ctasks.append(dict(text=mutate(rnd, t), cwd=os.path.dirname(p), seed=os.path.relpath(p, base)))
    gtasks = [dict(text=render(c['toks'])) for c in gen]
    htasks = [dict(text=render(c['toks'])) for c in hang[:2]]
    with ctx.pool(unprivileged=True) as pool:
        gobs = pool.map('harness.props.c18:exec_text', gtasks, deadline=20, chunk=16)
        cobs = pool.map('harness.props.c18:exec_text', ctasks, deadline=20, chunk=8)
        hobs = pool.map('harness.props.c18:exec_text', htasks, deadline=6, chunk=1)
    bad = 0
    outcomes = {}
    for c, t, o in list(zip(gen, gtasks, gobs)) + list(zip(hang[:2], htasks, hobs)):
        ctx.count()
        ctx.nontrivial(t['text'])
        outcomes[o.get('ident') or 'other'] = outcomes.get(o.get('ident') or 'other', 0) + 1
        clause = judge(set(c['allowed']), o)
        if clause:
            bad += 1
            ctx.fail('%s class=%s %s' % (clause.split(':')[0], c['class'], ' '.join(x for x in c['toks'][57:] if x != 'NL')[:160]),
                     dict(kind='generated', case=c, text=t['text'], observed=o, clause=clause),
                     explained_by=known(t['text'], o))
    cbad = 0
    artefacts = 0
    for t, o in zip(ctasks, cobs):
        ctx.count()
        ctx.nontrivial(t['text'])
        outcomes[o.get('ident') or 'other'] = outcomes.get(o.get('ident') or 'other', 0) + 1
        clause = judge(set(IDENTS) - {'INTERNAL_ERROR'}, o)
        if clause and 'Permission denied' in (o.get('stderr') or '') and \
                ('/venv/bin/python' in o['stderr'] or '/root/.pyenv' in o['stderr']):
            artefacts += 1       # the unprivileged user cannot execute the python interpreter: not a fact about Exactly
            continue
        if clause:
            cbad += 1
            last = (o.get('stderr') or o.get('exception') or '').strip().split('\n')[-1][:120]
            ctx.fail('%s corpus-mutant %s' % (clause.split(':')[0], last),
                     dict(kind='corpus', seed_file=t['seed'], text=t['text'], observed=o, clause=clause),
                     explained_by=known(t['text'], o))
    ctx.cov['traces_validated_against_impl'] += len(gen) + len(ctasks) + len(htasks)
    ctx.cov['replay'] = dict(generated=len(gen), by_class=classes, corpus_mutants=len(ctasks), corpus_seeds=len(seeds),
                             disagreements_generated=bad, disagreements_corpus=cbad,
                             skipped_unprivileged_artefacts=artefacts, outcome_mix=outcomes)
    # negative controls
    if judge({'PASS'}, dict(exit=129, exception=None, ident='INTERNAL_ERROR', stdout='', stderr='x')) is None \
            or judge({'PASS'}, dict(exit=None, exception='ValueError: x', ident=None, stdout='', stderr='')) is None \
            or judge({'SYNTAX_ERROR'}, dict(exit=0, exception=None, ident='PASS', stdout='PASS', stderr='')) is None \
            or judge({'PASS'}, dict(no_termination=True)) is None:
        raise core.MachineryFailure('negative controls')
    ctx.cov['negative_controls_rejected'] += 4
    for c in (gen[10], gen[len(derivs) // 2], gen[-1]):
        ctx.sample(dict(cls=c['class'], allowed=c['allowed'], defects=c['defects'], text=render(c['toks'])[-300:]))
    ctx.sample(dict(corpus_mutant_of=ctasks[0]['seed'], text=ctasks[0]['text'][-200:], outcome=cobs[0].get('ident')))
    ctx.cov['exhaustive'] = False
    ctx.cov['rule'] = ('TLC: every single-instruction derivation of Robust.tla (19 skeletons x classes of INTEGER / REGEX / '
                       'replacement / range / typed-symbol fillers) + random derivations of 2 instructions with <= 2 token '
                       'mutations from TLC -simulate (seeded); + seeded token mutations / truncations / noise on the '
                       'repository\'s own .case files; each text is one distinct case; all are non-trivial except '
                       'duplicates (counted once)')
    ctx.assumptions += ['the input space is unbounded: this is exploration guided by the model, not enumeration',
                        'texts are run as uid 65534 in a scratch directory; seeds that need the python interpreter are '
                        'left out (it is not executable for that user)',
                        'only defect classes the model classifies from the text alone are held to the narrow set '
                        '{SYNTAX_ERROR, VALIDATION_ERROR, HARD_ERROR}; mutants are held to: documented outcome, no '
                        'INTERNAL_ERROR, no escaping exception, termination within 20 s']


def replay(ctx, rec):
    r = rec['record']
    task = dict(text=r['text'])
    with ctx.pool(workers=1, unprivileged=True) as pool:
        o = pool.map('harness.props.c18:exec_text', [task], deadline=20)[0]
    allowed = set(r['case']['allowed']) if r.get('case') else set(IDENTS) - {'INTERNAL_ERROR'}
    clause = judge(allowed, o)
    print(json.dumps(dict(text=r['text'], observed=o, clause=clause), indent=1))
    if clause:
        print('VIOLATION property=C18 replay=(given)')
        return 1
    return 0
