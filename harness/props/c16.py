"""C16  Suite run: every case once, verdict OK iff all succeed, the progress and the JUnit reporter agree.

spec/Suite.tla is the reader (depth first, visited set), the enumerator (sub-suites first), the case loop and the
two reporters as a step machine, next to a declarative reading of the same input (reachability, in-degree,
post-order); TLC checks the clauses of the property on every input of three generator families
  struct   every hierarchy up to a number of reference lines, every kind of reference (plain name, another
           spelling, directory with default suite file, glob pattern, missing file; repeated and cyclic references)
  verdict  every assignment of the 14 ways a case can end (PASS, FAIL, XFAIL, XPASS, SKIPPED, hard / validation /
           syntax (instruction and [act]) / file access / preprocessor / internal error, unreadable and undecodable
           file) to the cases of a few simple hierarchies
  listing  every way of listing the cases (plain, glob, missing, any order)
(thorough: + seeded random hierarchies beyond those bounds, handed to TLC as a file) and exports, per input and
reporter, what must be observed.  Every exported run is rendered as a directory tree of suite and case files and
executed by the real main program (in process; a sample as a real subprocess); compared are the exit code, the
marker file every executing case appends its name to (executions and their order), the event lines and the final
identifier of the progress reporter, and the JUnit document (root element, cases per suite, tests, failures + errors,
failure/error children).
"""
import json
import os
import random
import re
import subprocess
import threading
import time
import zlib
from xml.etree import ElementTree

from harness import core

KINDS = ['PASS', 'FAIL', 'XFAIL', 'XPASS', 'SKIPPED', 'HARD_ERROR', 'VALIDATION_ERROR', 'SYNTAX_ERROR',
         'ACT_SYNTAX_ERROR', 'FILE_ACCESS_ERROR', 'UNREADABLE', 'PRE_PROCESS_ERROR', 'INTERNAL_ERROR', 'UNDECODABLE']
ERROR_IDENTS = ('HARD_ERROR', 'VALIDATION_ERROR', 'SYNTAX_ERROR', 'FILE_ACCESS_ERROR', 'PRE_PROCESS_ERROR',
                'INTERNAL_ERROR')
CLASS_KINDS = ['PASS', 'XFAIL', 'FAIL', 'HARD_ERROR', 'ACT_SYNTAX_ERROR', 'UNREADABLE']
SUITE_KINDS = ['plain', 'alt', 'dir', 'glob', 'missing']
INVARIANTS = ['TypeOK', 'InvalidIffDeclared', 'InvalidRunsNothing', 'EveryCaseOnce', 'SubSuitesFirst',
              'ProgressVerdict', 'ReportersAgree']
PROPERTIES = ['LogGrows', 'VisitedGrows']
ACTIONS = ['ParseSuite', 'ResolveSuiteLine', 'SuitesSectionDone', 'ResolveCaseLine', 'CasesSectionDone', 'Descend',
           'Return', 'ReportInvalid', 'Enumerate', 'SuiteBegin', 'RunCase', 'SuiteEnd', 'ReportProgress',
           'ReportJUnit']
D6 = 'D6'
D6_DEVIATION = 'JUnitActSyntaxIsSuccess'


def _set(xs):
    return '{' + ', '.join('"%s"' % x for x in xs) + '}'


def cfg(nsub, ncases, families, suite_lines=0, suite_width=0, verdict_cases=0, class_cases=0, list_cases=0,
        case_lines=0, invariants=INVARIANTS, properties=PROPERTIES, deviations=()):
    t = 'SPECIFICATION Spec\n'
    t += 'CONSTANT NSub = %d\nCONSTANT NCases = %d\nCONSTANT Families = %s\n' % (nsub, ncases, _set(families))
    t += 'CONSTANT Reporters = {"progress", "junit"}\nCONSTANT Deviations = %s\n' % _set(deviations)
    t += 'CONSTANT SuiteKinds = %s\n' % _set(SUITE_KINDS)
    t += 'CONSTANT MaxSuiteLines = %d\nCONSTANT MaxSuiteWidth = %d\n' % (suite_lines, suite_width)
    t += 'CONSTANT VerdictKinds = %s\nCONSTANT MaxVerdictCases = %d\n' % (_set(KINDS), verdict_cases)
    t += 'CONSTANT ClassKinds = %s\nCONSTANT MaxClassCases = %d\n' % (_set(CLASS_KINDS), class_cases)
    t += 'CONSTANT ListCases = %d\nCONSTANT MaxCaseLines = %d\n' % (list_cases, case_lines)
    t += ''.join('INVARIANT %s\n' % i for i in invariants)
    t += ''.join('PROPERTY %s\n' % p for p in properties)
    return t + 'CHECK_DEADLOCK FALSE\n'


# ======================================================================================== concretisation
# Layout under the home directory of a task:
#   <root>.suite | exactly.suite      suite 0 (the command line argument)
#   sJ/exactly.suite                  suite J (every one of 1..NSub exists, referenced or not);  lJ -> sJ (symlink)
#   <dir of the listing suite>/<prefix>K.case     case K (unlisted cases: the home directory)
#   emptydir/  a-directory/ (also in every sJ)  pp.sh
# Names sort like the numbers of the model (single digits).
ROOT_NAMES = ['root.suite', 'top.suite', 'exactly.suite']
CASE_PREFIXES = ['c', 'case-', 'k', 't']
MARKER = '@MARKER@'
HOME = '@HOME@'
BAD_BYTES = '@BYTES-THAT-ARE-NOT-UTF-8@'
PP_WORD = 'PREPROCESSOR-MUST-FAIL-ON-THIS-FILE'
PP_SH = 'if grep -q %s "$1"; then echo refused >&2; exit 1; fi\ncat "$1"\n' % PP_WORD
SYNTAX_DEFECTS = ['[no-such-section]\n', '[cases]\nfirst.case superfluous-argument\n', '[setup]\nno-such-instruction x\n',
                  "[suites]\n'unterminated\n", '[cases]\n"unterminated\n', '[assert]\nexit-code ==\n']


def case_text(kind, name):
    mark = '$ echo %s >> %s\n' % (name, MARKER)
    if kind in ('PASS', 'UNREADABLE'):
        return '[setup]\n' + mark + '[assert]\nexit-code == 0\n'
    if kind == 'FAIL':
        return '[setup]\n' + mark + '[assert]\nexit-code == 1\n'
    if kind == 'XFAIL':
        return '[conf]\nstatus = FAIL\n[setup]\n' + mark + '[assert]\nexit-code == 1\n'
    if kind == 'XPASS':
        return '[conf]\nstatus = FAIL\n[setup]\n' + mark + '[assert]\nexit-code == 0\n'
    if kind == 'SKIPPED':
        return '[conf]\nstatus = SKIP\n[setup]\n' + mark + '[assert]\nexit-code == 1\n'
    if kind == 'HARD_ERROR':
        return '[setup]\n' + mark + '$ exit 1\n[assert]\nexit-code == 0\n'
    if kind == 'VALIDATION_ERROR':
        return '[setup]\n' + mark + '[assert]\nexit-code == @[UNDEFINED_SYMBOL]@\n'
    if kind == 'SYNTAX_ERROR':
        return '[setup]\n' + mark + '[assert]\nno-such-instruction x\n'
    if kind == 'ACT_SYNTAX_ERROR':
        return '[setup]\n' + mark + "[act]\n'unterminated\n[assert]\nexit-code == 0\n"
    if kind == 'FILE_ACCESS_ERROR':
        return '[setup]\n' + mark + '[assert]\nincluding nonexistent-file.xly\n'
    if kind == 'PRE_PROCESS_ERROR':
        return '# %s\n[setup]\n' % PP_WORD + mark + '[assert]\nexit-code == 0\n'
    if kind == 'INTERNAL_ERROR':
        return '[setup]\n' + mark + 'verif-stub 1 main=exc\n'
    if kind == 'UNDECODABLE':
        return '[setup]\n' + mark + '# ' + BAD_BYTES + '\n[assert]\nexit-code == 0\n'
    raise ValueError(kind)


def input_key(rec, seed=0):
    return json.dumps([rec['sl'], rec['cl'], sorted(rec['syn']), rec['vd'], seed], sort_keys=True)


def concretize(rec, seed=0):
    """abstract input (+ reporter) -> task: files, directories, links, argv.  Both reporters get the same tree."""
    nsub = len(rec['sl']) - 1
    ncases = len(rec['vd'])
    key = input_key(rec, seed)

    def pick(salt, options):
        return options[zlib.crc32((salt + '|' + key).encode()) % len(options)]

    rootname = pick('root', ROOT_NAMES)
    prefix = pick('prefix', CASE_PREFIXES)
    reach = set(rec['reach'])

    def sdir(s):
        return '' if s == 0 else 's%d' % s

    # the directory of a case: that of the (first) suite listing it
    lister = {}
    for s in range(nsub + 1):
        for ln in rec['cl'][s]:
            for c in ln['t']:
                lister.setdefault(c, s)
    casedir = {c: sdir(lister.get(c, 0)) for c in range(1, ncases + 1)}

    # in a quarter of the inputs the case files have names with wildcard characters (k[1].case): a QUOTED name is
    # taken literally, a glob pattern must escape the bracket
    brackets = pick('brackets', [False, False, False, True])

    def casename(c):
        return 'k[%d].case' % c if brackets else '%s%d.case' % (prefix, c)

    def suite_ref(s, ln, salt):
        rel = '' if s == 0 else '../'
        k, t = ln['k'], sorted(ln['t'])
        if k == 'plain':
            return rel + (rootname if t[0] == 0 else 's%d/exactly.suite' % t[0])
        if k == 'dir':
            return rel + 's%d' % t[0]
        if k == 'alt':
            j = t[0]
            return pick(salt, ['./%ss%d/exactly.suite' % (rel, j), '%ss%d/../s%d/exactly.suite' % (rel, j, j),
                               '%sl%d' % (rel, j), '%sl%d/exactly.suite' % (rel, j),
                               "'%ss%d/exactly.suite'" % (rel, j), '"%ss%d"' % (rel, j)])
        if k == 'glob':
            if not t:
                return pick(salt, [rel + 's[x]', rel + 'nomatch-*.suite', rel + 'nomatch-*/exactly.suite'])
            digits = ''.join(map(str, t))
            opts = [rel + 's[%s]' % digits, rel + 's[%s]/exactly.suite' % digits, rel + 's[%s]/*.suite' % digits]
            if t == list(range(1, nsub + 1)):
                opts += [rel + 's?', rel + 's*/exactly.suite', rel + 's*']
            return pick(salt, opts)
        if k == 'missing':
            return pick(salt, [rel + 'nonexistent.suite', rel + 'emptydir', rel + 'nonexistent-dir/exactly.suite'])
        raise ValueError(k)

    def case_ref(s, ln, salt):
        k, t = ln['k'], sorted(ln['t'])
        if k == 'plain':
            n = casename(t[0])
            if brackets:
                return pick(salt, ["'%s'" % n, '"%s"' % n])
            return pick(salt, [n, n, './' + n, "'%s'" % n, '"%s"' % n])
        if k == 'glob':
            if not t:
                return pick(salt, ['%s[x].case' % prefix, 'nomatch-*.case'])
            digits = ''.join(map(str, t))
            if brackets:
                opts = ['k[[][%s][]].case' % digits, '*[[][%s][]].case' % digits, 'k[[][%s]?.c*' % digits]
            else:
                opts = ['%s[%s].case' % (prefix, digits), '*[%s].case' % digits, '%s[%s].c*' % (prefix, digits)]
            if t == sorted(c for c in casedir if casedir[c] == sdir(s)):
                opts += ['*.case', '*.case']     # every case file of the directory
                if not brackets:
                    opts += ['%s?.case' % prefix]
            return pick(salt, opts)
        if k == 'missing':
            # (a quoted name is a name, whatever characters it has: it does not exist)
            return pick(salt, ['nonexistent.case', 'a-directory',
                               ("'nonexistent-dir/%s'" if brackets else 'nonexistent-dir/%s') % casename(1),
                               "'gone[1].case'", '"*.nothing"',
                               # one name per line: a quoted name followed by more is no reference at all
                               "'%s' %s" % (casename(1), casename(1)), '"%s" x' % casename(1)])
        raise ValueError(k)

    files = []   # (relative path, text) in creation order
    globs = []   # (directory, names a glob line must match) - to see whether the natural order differs from sorted
    for s in range(nsub + 1):
        sl = [suite_ref(s, ln, 'sl%d.%d' % (s, j)) for j, ln in enumerate(rec['sl'][s])]
        cl = [case_ref(s, ln, 'cl%d.%d' % (s, j)) for j, ln in enumerate(rec['cl'][s])]
        for ln in rec['cl'][s]:
            if ln['k'] == 'glob' and len(ln['t']) > 1:
                globs.append([sdir(s), [casename(c) for c in sorted(ln['t'])]])
        for ln in rec['sl'][s]:
            if ln['k'] == 'glob' and len(ln['t']) > 1:
                globs.append(['', ['s%d' % j for j in sorted(ln['t'])]])
        if s not in reach and not sl and not cl:
            # a suite file nothing refers to: if it is read or run nevertheless, its decoy case shows up
            cl = ['decoy.case']
            files.append((os.path.join(sdir(s), 'decoy.case'), case_text('PASS', 'decoy-s%d' % s)))
        layout = pick('layout%d' % s, [0, 1, 2, 3])
        if layout == 0:
            text = '[suites]\n' + ''.join(l + '\n' for l in sl) + '[cases]\n' + ''.join(l + '\n' for l in cl)
        elif layout == 1:     # [cases] is the default section
            text = ''.join(l + '\n' for l in cl) + '[suites]\n' + ''.join(l + '\n' for l in sl)
        elif layout == 2:     # a section may appear any number of times: the contents are accumulated
            hs, hc = (len(sl) + 1) // 2, (len(cl) + 1) // 2
            text = ('[cases]\n' + ''.join(l + '\n' for l in cl[:hc]) + '[suites]\n' + ''.join(l + '\n' for l in sl[:hs])
                    + '\n# a comment\n[cases]\n' + ''.join(l + '\n' for l in cl[hc:])
                    + '[suites]\n\n' + ''.join(l + '\n' for l in sl[hs:]))
        else:                 # empty lines and comment lines are ignored
            text = ('# suite %d\n\n[cases]\n\n' % s + ''.join(l + '\n\n' for l in cl) + '# sub-suites\n[suites]\n'
                    + ''.join('# next\n' + l + '\n' for l in sl))
        own = [c for c in range(1, ncases + 1) if lister.get(c) == s]
        if any(rec['vd'][c - 1] == 'PRE_PROCESS_ERROR' for c in own):
            text += '[conf]\npreprocessor = sh %s/pp.sh\n' % HOME
        if s in rec['syn']:
            d = pick('syn%d' % s, SYNTAX_DEFECTS)
            text = (d + text) if (d.startswith('[no-such') and pick('synpos%d' % s, [0, 1])) else (text + d)
        files.append((os.path.join(sdir(s), rootname if s == 0 else 'exactly.suite'), text))
    chmod0 = []
    order = list(range(1, ncases + 1))
    if pick('creation', [0, 1]):
        order.reverse()
    for c in order:
        p = os.path.join(casedir[c], casename(c))
        files.append((p, case_text(rec['vd'][c - 1], 'c%d' % c)))
        if rec['vd'][c - 1] == 'UNREADABLE':
            chmod0.append(p)
    files.append(('pp.sh', PP_SH))
    # the current directory of the process: the directory of the root suite, or its parent
    cwd = pick('cwd', ['home', 'home', 'parent'])
    if cwd == 'parent':
        rootarg = pick('rootarg', ['home/' + rootname] + (['home'] if rootname == 'exactly.suite' else []))
    else:
        rootarg = pick('rootarg', [rootname, rootname, './' + rootname, HOME + '/' + rootname]
                       + (['.', HOME] if rootname == 'exactly.suite' else []))
    if rec['rep'] == 'junit':
        argv = ['suite', '--reporter', 'junit', rootarg]
    else:
        argv = ['suite'] + pick('progress-option', [[], [], ['--reporter', 'progress']]) + [rootarg]
    listed = set(c for s in reach for ln in rec['cl'][s] for c in ln['t'])
    return dict(files=files, cwd=cwd,
                dirs=['emptydir', 'a-directory'] + [d for j in range(1, nsub + 1) for d in ('s%d' % j, 's%d/a-directory' % j)],
                links=[['l%d' % j, 's%d' % j] for j in range(1, nsub + 1)], chmod0=chmod0, argv=argv, globs=globs,
                stub=any(rec['vd'][c - 1] == 'INTERNAL_ERROR' for c in range(1, ncases + 1)),
                unprivileged=bool(chmod0),
                meta=dict(rootname=rootname, prefix=prefix, brackets=brackets, casedir={str(c): d for c, d in casedir.items()},
                          listed=sorted(listed), cwd=cwd))


# ======================================================================================== execution (workers)
def worker_init():
    """Runs in every worker before privileges are dropped: everything the task functions import."""
    import xml.etree.ElementTree  # noqa: F401
    from harness import inproc, stubmain  # noqa: F401
    stubmain.stub_main_program()


def _materialize(task, cd):
    marker = os.path.join(cd.out, 'marker')
    for d in task['dirs']:
        os.makedirs(os.path.join(cd.home, d), exist_ok=True)
    for rel, text in task['files']:
        text = text.replace(MARKER, marker).replace(HOME, cd.home)
        cd.write({rel: text.encode().replace(BAD_BYTES.encode(), b'\xff\xfe\x80') if BAD_BYTES in text else text})
    for rel, target in task['links']:
        os.symlink(target, os.path.join(cd.home, rel))
    readable = []
    for rel in task['chmod0']:
        p = os.path.join(cd.home, rel)
        os.chmod(p, 0)
        try:
            with open(p):
                readable.append(rel)
        except OSError:
            pass
    unsorted_globs = 0
    for d, names in task['globs']:
        natural = [n for n in os.listdir(os.path.join(cd.home, d)) if n in names]
        unsorted_globs += natural != sorted(names)
    return marker, readable, unsorted_globs


def _marks(marker):
    if not os.path.exists(marker):
        return []
    with open(marker) as fh:
        return [l for l in fh.read().split('\n') if l]


def exec_run(task, cd):
    from harness import inproc, stubmain
    marker, readable, unsorted_globs = _materialize(task, cd)
    argv = [a.replace(HOME, cd.home) for a in task['argv']]
    mp = stubmain.stub_main_program() if task['stub'] else inproc.default_main_program()
    r = inproc.run_main(argv, cd, main_program=mp, cwd=cd.root if task.get('cwd') == 'parent' else None)
    return dict(exit=r['exit'], exception=r['exception'], stdout=r['stdout'][:60000], stderr=r['stderr'][:20000],
                marks=_marks(marker), home=cd.home, uid=os.getuid(), chmod0_readable=readable,
                unsorted_globs=unsorted_globs, cwd_ok=r['cwd_after'] == r['cwd_before'], how='in-process',
                sandboxes_left=[n for n in os.listdir(cd.tmp) if n.startswith('exactly-')])


def exec_subprocess(task, cd):
    from harness import runner
    marker, readable, unsorted_globs = _materialize(task, cd)
    argv = [a.replace(HOME, cd.home) for a in task['argv']]
    env = dict(os.environ, PYTHONPATH=os.path.join(runner.REPO, 'src'), TMPDIR=cd.tmp, PYTHONWARNINGS='ignore')
    env.pop('EXACTLY_VERIF_TRACE', None)
    p = subprocess.run(['/venv/bin/python', os.path.join(runner.REPO, 'src', 'default-main-program-runner.py')] + argv,
                       cwd=cd.root if task.get('cwd') == 'parent' else cd.home, env=env, stdout=subprocess.PIPE,
                       stderr=subprocess.PIPE, text=True, timeout=120)
    return dict(exit=p.returncode, exception=None, stdout=p.stdout[:60000], stderr=p.stderr[:20000],
                marks=_marks(marker), home=cd.home, uid=os.getuid(), chmod0_readable=readable,
                unsorted_globs=unsorted_globs, cwd_ok=True, how='subprocess')


# ======================================================================================== projection
SUITE_LINE = re.compile(r'^suite (.+): (begin|end)$')
CASE_LINE = re.compile(r'^case  (.+): \(\d+\.\d+s\) ([A-Z_]+)$')
FINAL_IDS = ('OK', 'ERROR', 'INVALID_SUITE')


def _rel(path, meta, home):
    """a path as the program presents it -> relative to the directory of the root suite"""
    for h in (home, os.path.realpath(home)):
        if path.startswith(h + '/'):
            path = path[len(h) + 1:]
    if meta.get('cwd') == 'parent' and path.startswith('home/'):
        path = path[5:]
    return os.path.normpath(path)


def suite_id(path, meta, home):
    p = _rel(path, meta, home)
    if p == meta['rootname']:
        return 0
    m = re.match(r'^[sl](\d)/exactly\.suite$', p)
    return int(m.group(1)) if m else 'OTHER:' + p


def case_id(path, meta, home):
    p = _rel(path, meta, home)
    d, b = os.path.split(p)
    m = re.match(r'^k\[(\d)\]\.case$', b) if meta.get('brackets') else \
        re.match('^' + re.escape(meta['prefix']) + r'(\d)\.case$', b)
    if m and re.sub(r'^l(\d)$', r's\1', d) == meta['casedir'].get(m.group(1)):
        return int(m.group(1))
    return 'OTHER:' + p


def progress_tokens(text, meta, home):
    """the progress reporter's lines -> events (total; nothing is repaired: unknown lines become OTHER)"""
    toks = []
    for line in text.split('\n'):
        if line == '':
            continue
        m = SUITE_LINE.match(line)
        if m:
            toks.append(['B' if m.group(2) == 'begin' else 'E', suite_id(m.group(1), meta, home)])
            continue
        m = CASE_LINE.match(line)
        if m:
            toks.append(['C', case_id(m.group(1), meta, home), m.group(2)])
        elif line in FINAL_IDS:
            toks.append(['ID', line])
        else:
            toks.append(['OTHER', line[:80]])
    if text and not text.endswith('\n'):
        toks.append(['OTHER', 'no final newline'])
    return toks


def junit_doc(text, meta, home):
    """JUnit XML -> [root tag, [[tests, failures + errors, [[case, 'none' | 'bad'], ...]], ...]] or an error string"""
    try:
        root = ElementTree.fromstring(text)
    except ElementTree.ParseError as ex:
        return 'not well-formed XML: %s' % ex
    if root.tag == 'testsuite':
        suites = [root]
    elif root.tag == 'testsuites':
        suites = list(root)
        if any(e.tag != 'testsuite' for e in suites):
            return 'unexpected child of testsuites: %s' % [e.tag for e in suites]
    else:
        return 'unexpected root element: ' + root.tag
    doc = []
    for e in suites:
        try:
            tests, bad = int(e.get('tests')), int(e.get('failures')) + int(e.get('errors'))
        except (TypeError, ValueError):
            return 'testsuite without integer tests/failures/errors: %s' % e.attrib
        cases = []
        for tc in e.findall('testcase'):
            children = [ch.tag for ch in tc if ch.tag in ('failure', 'error')]
            cases.append([case_id(tc.get('name', ''), meta, home), 'bad' if children else 'none'])
        doc.append([tests, bad, cases])
    return [root.tag, doc]


def error_kind(stderr):
    if 'already been included' in stderr:
        return 'double'
    if 'Syntax error' in stderr:
        return 'syntax'
    if 'does not exist' in stderr or 'is not a regular file' in stderr or 'does not contain' in stderr:
        return 'missing'
    return '?'


def project(rec, task, o):
    home = o['home']
    p = dict(exit=o['exit'], marks=o['marks'])
    if rec['rep'] == 'progress':
        p['events'] = progress_tokens(o['stdout'], task['meta'], home)
    else:
        p['doc'] = junit_doc(o['stdout'], task['meta'], home) if o['stdout'].strip() else None
        p['stderr_events'] = progress_tokens(o['stderr'], task['meta'], home)
    if not rec['valid']:
        p['error_kind'] = error_kind(o['stderr'])
    return p


# ======================================================================================== comparison
def expected_doc(doc):
    return [doc['root'], [[s['tests'], s['bad'], [[c['c'], c['child']] for c in s['cases']]] for s in doc['suites']]]


def same_events(got, want):
    """equality of event sequences; an expected identifier SOME_ERROR stands for any of the error identifiers"""
    if len(got) != len(want):
        return False
    for g, w in zip(got, want):
        if w[0] == 'C' and w[2] == 'SOME_ERROR' and g[0] == 'C' and g[1] == w[1] and g[2] in ERROR_IDENTS:
            continue
        if g != w:
            return False
    return True


def compare(rec, p, o, junit=None):
    """None, or 'Clause: detail'.  junit: the JUnit document to expect instead of rec['junit'] (a deviation)."""
    if o.get('exception') or o.get('no_termination') or o.get('worker_died') or o.get('harness_exception'):
        return 'Terminates/NoEscapingException: %s' % (o.get('exception') or [k for k in o if o[k] is True])
    if p['exit'] != rec['exit']:
        return 'ExitCode: %s, specification %s' % (p['exit'], rec['exit'])
    want_marks = ['c%d' % c for c in rec['marks']]
    if p['marks'] != want_marks:
        return '%s: executed %s, specification %s' % ('EveryCaseOnce' if rec['valid'] else 'InvalidRunsNothing',
                                                       p['marks'], want_marks)
    if not o.get('cwd_ok', True):
        return 'ProcessStateRestored: cwd'
    if o.get('sandboxes_left'):
        return 'SandboxesRemoved: %d sandbox(es) of the cases left behind: %s' % (len(o['sandboxes_left']),
                                                                                   o['sandboxes_left'][:3])
    if rec['rep'] == 'progress':
        want = [list(e) for e in rec['log']] + [['ID', rec['final']]]
        if not same_events(p['events'], want):
            if not rec['valid']:
                return 'InvalidRunsNothing: stdout %s, specification %s' % (p['events'], want)
            if same_events(p['events'][:-1], want[:-1]):
                return 'ProgressVerdict: final line %s, specification %s' % (p['events'][-1:], want[-1])
            return 'ProgressEvents: %s, specification %s' % (p['events'], want)
        return None
    # JUnit
    if not rec['valid']:
        if p['doc'] is not None and (isinstance(p['doc'], str) or any(s[2] for s in p['doc'][1])):
            return 'InvalidRunsNothing: JUnit output for an invalid suite: %s' % (p['doc'],)
        return None
    if p['doc'] is None or isinstance(p['doc'], str):
        return 'JUnitDocument: %s' % (p['doc'] or 'stdout is empty')
    want = expected_doc(junit or rec['junit'])
    tag, suites = p['doc']
    if tag != want[0]:
        return 'JUnitRootElement: %s, specification %s' % (tag, want[0])
    for s in suites:
        if s[0] != len(s[2]):
            return 'JUnitTests: tests=%d on a testsuite with %d testcase elements' % (s[0], len(s[2]))
    # a suite without cases may be reported or not (the program leaves out the root suite when it has no cases)
    got_cases = [[c[0] for c in s[2]] for s in suites if s[2]]
    want_cases = [[c[0] for c in s[2]] for s in want[1] if s[2]]
    if got_cases != want_cases:
        return 'JUnitCases: %s, specification %s' % (got_cases, want_cases)
    if [s[:2] for s in suites if s[2]] != [s[:2] for s in want[1] if s[2]] or any(s[1] for s in suites if not s[2]):
        return 'ReportersAgree(counters): [tests, failures + errors] %s, specification %s' % (
            [s[:2] for s in suites if s[2]], [s[:2] for s in want[1] if s[2]])
    if [s[2] for s in suites if s[2]] != [s[2] for s in want[1] if s[2]]:
        return 'ReportersAgree(children): %s, specification %s' % ([s[2] for s in suites if s[2]],
                                                                   [s[2] for s in want[1] if s[2]])
    return None


def brief(rec):
    def lines(ll):
        return ';'.join('%d:%s' % (s, ','.join(ln['k'] + ''.join(map(str, sorted(ln['t']))) for ln in l))
                        for s, l in enumerate(ll) if l)
    listed = sorted(set(c for s in rec['reach'] for ln in rec['cl'][s] for c in ln['t']))
    return 'sl[%s] cl[%s] syn%s kinds[%s]' % (lines(rec['sl']), lines(rec['cl']), sorted(rec['syn']),
                                             ','.join('%d=%s' % (c, rec['vd'][c - 1]) for c in listed))


def is_d6(rec, p, o):
    """Finding D6 (deviation Suite!JUnitActSyntaxIsSuccess): the JUnit reporter takes a case whose [act] phase has a
    syntax error for a successful one.  Exactly: JUnit reporter, valid suite, at least one processed case of that kind,
    and the observation is what the specification predicts with that one deviation switched on."""
    if rec['rep'] != 'junit' or not rec['valid']:
        return False
    ran = [e[1] for e in rec['log'] if e[0] == 'C']
    if not any(rec['vd'][c - 1] == 'ACT_SYNTAX_ERROR' for c in ran):
        return False
    return compare(rec, p, o, junit=rec['dev'][D6_DEVIATION]) is None


def nontrivial(rec):
    listed = set(c for s in rec['reach'] for ln in rec['cl'][s] for c in ln['t'])
    return (rec['rep'] == 'junit' or any(rec['sl']) or rec['syn'] or any(rec['vd'][c - 1] != 'PASS' for c in listed)
            or any(ln['k'] != 'plain' for l in rec['cl'] for ln in l))


# ======================================================================================== the check
def export(ctx, name, text, env=None, expect=None):
    res = ctx.tlc('SuiteExport', text, workers=1, name=name, count=False, env=env)
    recs = res.printed_json('CASE')
    if not recs or (expect is not None and len(recs) != expect):
        raise core.MachineryFailure('export %s: %d runs exported, expected %s' % (name, len(recs), expect or '> 0'))
    return recs


def random_inputs(seed, n, nsub, ncases):
    """seeded random hierarchies beyond the exhaustive bounds (TLC runs the machine on them: family "file")"""
    rnd = random.Random(seed)
    out, seen = [], set()
    while len(out) < n:
        used = rnd.sample(range(1, nsub + 1), rnd.randint(0, nsub))
        sl = [[] for _ in range(nsub + 1)]
        children = {s: [] for s in range(nsub + 1)}
        included = [0]
        for j in used:
            children[rnd.choice(included)].append(j)
            included.append(j)
        for s, ch in children.items():
            rnd.shuffle(ch)
            while ch:
                k = rnd.randint(1, len(ch))
                grp, ch = ch[:k], ch[k:]
                if len(grp) > 1 or rnd.random() < 0.3:
                    sl[s].append(dict(k='glob', t=sorted(grp)))
                else:
                    sl[s].append(dict(k=rnd.choice(['plain', 'alt', 'dir']), t=grp))
            if rnd.random() < 0.1:
                sl[s].insert(rnd.randint(0, len(sl[s])), dict(k='glob', t=[]))
        syn = []
        defect = rnd.random()
        if defect < 0.12 and included:           # a second reference / a cycle
            s = rnd.choice(included)
            j = rnd.choice(included)
            sl[s].insert(rnd.randint(0, len(sl[s])), dict(k=rnd.choice(['plain', 'alt', 'dir'] if j else ['plain']), t=[j]))
        elif defect < 0.2:
            s = rnd.choice(included)
            sl[s].insert(rnd.randint(0, len(sl[s])), dict(k='missing', t=[]))
        elif defect < 0.26:
            syn = [rnd.choice(included)]
        cl = [[] for _ in range(nsub + 1)]
        cases = rnd.sample(range(1, ncases + 1), rnd.randint(0, ncases))
        where = {}
        for c in cases:
            where.setdefault(rnd.choice(included), []).append(c)
        for s, cs in where.items():
            rnd.shuffle(cs)
            while cs:
                k = rnd.randint(1, len(cs))
                grp, cs = cs[:k], cs[k:]
                if len(grp) > 1 or rnd.random() < 0.3:
                    cl[s].append(dict(k='glob', t=sorted(grp)))
                else:
                    cl[s].append(dict(k='plain', t=grp))
        if 0.26 <= defect < 0.32:
            s = rnd.choice(included)
            cl[s].insert(rnd.randint(0, len(cl[s])), dict(k='missing', t=[]))
        bias = rnd.choice([1.0, 0.85, 0.6, 0.3])
        vd = [rnd.choice(['PASS', 'PASS', 'XFAIL', 'SKIPPED']) if rnd.random() < bias else rnd.choice(KINDS)
              for _ in range(ncases)]
        x = dict(sl=sl, cl=cl, syn=syn, vd=vd)
        k = json.dumps(x, sort_keys=True)
        if k not in seen:
            seen.add(k)
            out.append(x)
    return out


def replay_runs(ctx, recs, label, subprocess_sample=0):
    """render, execute, compare; returns (tasks, observations, projections)"""
    tasks = [concretize(r, ctx.seed) for r in recs]
    normal = [j for j, t in enumerate(tasks) if not t['unprivileged']]
    unpriv = [j for j, t in enumerate(tasks) if t['unprivileged']]
    obs = [None] * len(tasks)
    rnd = random.Random(ctx.seed + 16)
    plain = [j for j in normal if not tasks[j]['stub']]
    sub_idx = rnd.sample(plain, min(subprocess_sample, len(plain)))
    # both pools are forked before the second thread exists; the unprivileged one (unreadable case files) works
    # beside the normal one
    pool = ctx.pool(init='harness.props.c16:worker_init')
    upool = ctx.pool(workers=8, unprivileged=True, init='harness.props.c16:worker_init') if unpriv else None
    failure = []

    def unprivileged_part():
        try:
            for j, o in zip(unpriv, upool.map('harness.props.c16:exec_run', [tasks[j] for j in unpriv], deadline=120,
                                              chunk=8)):
                obs[j] = o
        except BaseException as ex:
            failure.append(ex)

    th = threading.Thread(target=unprivileged_part)
    try:
        if upool:
            th.start()
        for j, o in zip(normal, pool.map('harness.props.c16:exec_run', [tasks[j] for j in normal], deadline=120, chunk=8)):
            obs[j] = o
        sub_obs = pool.map('harness.props.c16:exec_subprocess', [tasks[j] for j in sub_idx], deadline=180, chunk=1)
        if upool:
            th.join()
    finally:
        pool.close()
        if upool:
            th.join()
            upool.close()
    if failure:
        raise failure[0]
    for j in unpriv:
        if obs[j].get('uid') == 0 or obs[j].get('chmod0_readable'):
            raise core.MachineryFailure('unprivileged worker can read a chmod 000 file: %s' % obs[j])
    stats = dict(runs=len(tasks), unprivileged_runs=len(unpriv), subprocess_runs=len(sub_idx), disagreements=0,
                 known=0, unsorted_globs=sum((o or {}).get('unsorted_globs', 0) for o in obs),
                 first_error_agrees=0, first_error_differs=0)
    projs = [None] * len(tasks)
    failing = []
    for j, (r, t, o) in enumerate(zip(recs, tasks, obs)):
        projs[j] = judge(ctx, r, t, o, stats, failing)
    for j, o in zip(sub_idx, sub_obs):
        judge(ctx, recs[j], tasks[j], o, stats, failing)
    # smallest inputs first: the replay files that get written are the minimal examples
    failing.sort(key=lambda f: f[0])
    for _, sig, record, explained in failing:
        ctx.fail(sig, record, explained_by=explained)
    ctx.cov['traces_validated_against_impl'] += len(tasks) + len(sub_idx)
    ctx.cov.setdefault('replay', {})[label] = stats
    return tasks, obs, projs


def judge(ctx, rec, task, o, stats, failing):
    ctx.count()
    if nontrivial(rec):
        ctx.nontrivial(input_key(rec) + rec['rep'])
    if any(o.get(k) for k in ('no_termination', 'worker_died', 'harness_exception')):
        p = dict(exit=None, marks=[])
    else:
        p = project(rec, task, o)
    clause = compare(rec, p, o)
    if not rec['valid'] and clause is None:
        stats['first_error_agrees' if p.get('error_kind') == rec['err'][0] else 'first_error_differs'] += 1
    if clause is None:
        return p
    stats['disagreements'] += 1
    record = dict(kind='run', how=o.get('how'), case=rec, task=task, clause=clause,
                  observed={k: o.get(k) for k in ('exit', 'exception', 'stdout', 'stderr', 'marks', 'traceback',
                                                  'no_termination', 'worker_died', 'harness_exception')},
                  projected=p)
    size = sum(len(l) for l in rec['sl']) + sum(len(l) for l in rec['cl']) + sum(len(ln['t']) for l in rec['cl'] for ln in l)
    if is_d6(rec, p, o):
        stats['known'] += 1
        failing.append((size, 'ReportersAgree reporter=junit: a case with a syntax error in [act] has no failure/error '
                              'element and is not counted', record, D6))
    else:
        failing.append((size, '%s fam=%s reporter=%s %s' % (clause.split(':')[0], rec['fam'], rec['rep'], brief(rec)),
                        record, None))
    return p


def corruptions(r, p):
    """the corruptions applicable to a run: (name, function(projection, expectation) changing one of them)"""
    def set_exit(p, e):
        p['exit'] = {0: 4, 4: 0, 3: 0}.get(p['exit'], 1)

    def drop_mark(p, e):
        p['marks'].pop()

    def reverse_marks(p, e):
        p['marks'].reverse()

    def add_mark(p, e):
        p['marks'].append('c1')

    def flip_final(p, e):
        p['events'][-1] = ['ID', 'OK' if p['events'][-1][1] != 'OK' else 'ERROR']

    def case_twice(p, e):
        k = [i for i, ev in enumerate(p['events']) if ev[0] == 'C'][0]
        p['events'].insert(k, p['events'][k])

    def suite_after(p, e):      # the first suite is processed last
        k = [i for i, ev in enumerate(p['events']) if ev[0] == 'E'][0]
        p['events'][:-1] = p['events'][k + 1:-1] + p['events'][:k + 1]

    def counters(p, e):
        [s for s in p['doc'][1] if s[2]][0][1] += 1

    def child(p, e):
        c = [s for s in p['doc'][1] if s[2]][0][2][0]
        c[1] = 'none' if c[1] == 'bad' else 'bad'

    def drop_testcase(p, e):
        s = [s for s in p['doc'][1] if s[2]][0]
        s[2].pop()
        s[0] -= 1

    def exp_final(p, e):
        e['final'] = 'OK' if e['final'] != 'OK' else 'ERROR'

    def exp_root(p, e):
        e['junit']['root'] = 'testsuite' if e['junit']['root'] == 'testsuites' else 'testsuites'

    def exp_marks(p, e):
        e['marks'] = e['marks'][1:]

    c = [('observation: exit code', set_exit)]
    if p['marks']:
        c += [('observation: an execution missing', drop_mark), ('expectation: an execution missing', exp_marks)]
    if len(set(p['marks'])) >= 2:
        c.append(('observation: executions in another order', reverse_marks))
    if not r['valid']:
        c.append(('observation: an execution in an invalid suite', add_mark))
    if r['valid'] and r['rep'] == 'progress':
        c += [('observation: final identifier', flip_final), ('expectation: final identifier', exp_final)]
        if any(ev[0] == 'C' for ev in p['events']):
            c.append(('observation: a case reported twice', case_twice))
        if sum(ev[0] == 'E' for ev in p['events']) >= 2:
            c.append(('observation: sub-suite processed after its parent', suite_after))
    if r['valid'] and r['rep'] == 'junit':
        c.append(('expectation: root element', exp_root))
        if any(s[2] for s in p['doc'][1]):
            c += [('observation: failures + errors off by one', counters),
                  ('observation: failure/error child flipped', child),
                  ('observation: a testcase element missing', drop_testcase)]
    return c


def negative_controls(ctx, recs, tasks, obs, projs):
    """corrupted observations and corrupted expectations must be rejected by the comparison"""
    rnd = random.Random(ctx.seed + 1)
    good = [j for j in range(len(recs)) if projs[j] is not None and compare(recs[j], projs[j], obs[j]) is None]
    kinds = {}
    for n, j in enumerate(rnd.sample(good, min(600, len(good)))):
        p, exp = json.loads(json.dumps(projs[j])), json.loads(json.dumps(recs[j]))
        cs = corruptions(recs[j], p)
        what, f = cs[n % len(cs)]
        f(p, exp)
        if compare(exp, p, obs[j]) is None:
            raise core.MachineryFailure('negative control accepted (%s): %s' % (what, brief(recs[j])))
        kinds[what] = kinds.get(what, 0) + 1
    if len(kinds) < 12:
        raise core.MachineryFailure('negative controls: only %s exercised' % sorted(kinds))
    ctx.cov['negative_controls_rejected'] += sum(kinds.values())
    ctx.cov['negative_control_kinds'] = kinds


def run(ctx):
    quick = ctx.tier == 'quick'
    t0 = time.time()
    phases = ctx.cov.setdefault('phases_s', {})
    if quick:
        plans = [('main', dict(nsub=2, ncases=3, families=['struct', 'verdict', 'listing'], suite_lines=2, suite_width=2,
                               verdict_cases=2, class_cases=2, list_cases=3, case_lines=2), None)]
    else:
        plans = [('main', dict(nsub=2, ncases=4, families=['struct', 'verdict', 'listing'], suite_lines=3, suite_width=2,
                               verdict_cases=3, class_cases=4, list_cases=3, case_lines=3), None),
                 ('wide', dict(nsub=3, ncases=4, families=['struct'], suite_lines=2, suite_width=2), None),
                 ('random', dict(nsub=4, ncases=6, families=['file']), 3000)]
    # TLC: model checking (all workers, coverage) in this thread; the exports (one worker each) and the run that
    # must refute the deviation of finding D6 beside it
    background = []

    def start(f, *a, **kw):
        box = {}

        def body():
            try:
                box['result'] = f(*a, **kw)
            except BaseException as ex:
                box['error'] = ex
        th = threading.Thread(target=body)
        th.start()
        background.append((th, box))
        return box

    exports = []
    prepared = []
    for name, c, n_random in plans:
        env = None
        if n_random:
            path = os.path.join(ctx.scratch, 'random-inputs.ndjson')
            with open(path, 'w') as fh:
                for x in random_inputs(ctx.seed, n_random, c['nsub'], c['ncases']):
                    fh.write(json.dumps(x) + '\n')
            env = {'SUITE_INPUTS': path}
        prepared.append((name, c, env))
        exports.append(start(export, ctx, 'export-' + name, cfg(invariants=['Export'], properties=[], **c), env=env,
                             expect=2 * n_random if n_random else None))
    # the model itself: with the deviation of finding D6 switched on, TLC must refute ReportersAgree
    neg = start(ctx.tlc, 'Suite', cfg(nsub=1, ncases=2, families=['verdict'], verdict_cases=1, class_cases=1,
                                      deviations=[D6_DEVIATION]), name='deviation-D6', count=False, must_hold=False,
                workers=2)
    try:
        for name, c, env in prepared:
            res = ctx.tlc('Suite', cfg(**c), coverage=True, name='mc-' + name, env=env)
            ctx.require_coverage(res, ACTIONS)
    finally:
        for th, _ in background:
            th.join()
    for _, box in background:
        if 'error' in box:
            raise box['error']
    if neg['result'].violated != 'ReportersAgree':
        raise core.MachineryFailure('ReportersAgree does not refute the deviation %s (TLC: %s)'
                                    % (D6_DEVIATION, neg['result'].violated))
    ctx.cov['negative_controls_rejected'] += 1
    recs = [r for box in exports for r in box['result']]
    phases['tlc'] = round(time.time() - t0, 1)

    tasks, obs, projs = replay_runs(ctx, recs, 'all runs', subprocess_sample=(16 if quick else 200))
    phases['replay'] = round(time.time() - t0 - phases['tlc'], 1)
    negative_controls(ctx, recs, tasks, obs, projs)
    listed_twice_family(ctx)
    stats = ctx.cov['replay']['all runs']
    if stats['unsorted_globs'] == 0:
        ctx.note('no glob line with several matches met a directory whose natural order differs from the sorted one')
    if stats['first_error_differs']:
        ctx.note('%d invalid suites: the error the program names is not the first one of the model (not judged)'
                 % stats['first_error_differs'])
    by_fam = {}
    for r in recs:
        by_fam[r['fam']] = by_fam.get(r['fam'], 0) + 1
    stats['by_family'] = by_fam
    want = {'struct': 0, 'verdict': 0, 'listing': 0}
    for f in want:
        js = [j for j, r in enumerate(recs) if r['fam'] == f and r['valid'] and any(e[0] == 'C' for e in r['log'])]
        for j in js[len(js) // 2: len(js) // 2 + 2]:
            r = recs[j]
            ctx.sample(dict(input=brief(r), reporter=r['rep'], argv=tasks[j]['argv'],
                            files={p: t for p, t in tasks[j]['files'] if p.endswith('.suite')},
                            expected=dict(exit=r['exit'], marks=r['marks'], log=r['log'], final=r['final'],
                                          junit=expected_doc(r['junit']) if r['rep'] == 'junit' else None),
                            observed=projs[j]), limit=6)
    ctx.cov['exhaustive'] = True
    ctx.cov['rule'] = (
        'every run TLC enumerates from Suite.tla, both reporters on the same tree: struct = every canonical hierarchy '
        'with <= %s reference lines over the root and %s sub-suite files, line kinds plain / other spelling / '
        'directory / glob (every subset) / missing, incl. repeated and cyclic references, each valid one also without '
        'root cases, with every case passing, and with a syntax error in each suite file in turn; verdict = every '
        'assignment of the %d kinds to <= %s cases%s, in 3 shapes (flat, first / last case in a sub-suite); listing = '
        'every sequence of <= %d case lines (plain, glob over every subset of 3 cases, missing) in the root and in '
        'root + sub-suite%s; non-trivial = anything but a flat suite of plainly listed passing cases under the progress '
        'reporter, distinct by (input, reporter)'
        % ((2, 2, len(KINDS), 2, '', 2, '') if quick else
           (3, '2 (and <= 2 lines over 3)', len(KINDS), 3, ' (6 class representatives to 4)', 3,
            '; + 3000 seeded random hierarchies over 4 sub-suites / 6 cases, judged by TLC (family file)')))
    ctx.assumptions += [
        'file names sort like the numbers of the model (sJ, <prefix>K.case with single digits); the way a reference is '
        'spelled (./x, x/../x, symlinked directory, quotes, glob syntax), the layout of the suite file (section order, '
        'repeated sections, default section, comments), the name of the root file and the form of the command line '
        'argument are chosen per input by a hash and are not part of the model',
        'a case file is never listed by two lines (what should happen then is not documented)',
        'a JUnit testsuite element without test cases may be present or absent (the program omits the root suite '
        'when it has sub-suites and no cases); only failures + errors is compared, not the split',
        'which error is named for an invalid suite with several errors is not judged (counted in '
        'replay.first_error_agrees / first_error_differs)',
        'INTERNAL_ERROR is scripted through the verif-stub instruction of harness/stubmain.py; an unreadable case '
        'file (chmod 000) is run by unprivileged workers (setuid nobody)',
        'executions are observed through a marker file outside the sandbox that the first [setup] instruction of '
        'every case appends to; kinds that end before execution (SKIPPED, validation / syntax / access / '
        'preprocessor errors) must leave no mark',
    ]


def listed_twice_family(ctx):
    """A case file listed by two lines: how often it is then processed is not documented (not modelled).  Whatever
    the program does, its reports must agree with what it did: the number of case lines of the progress reporter,
    "Ran N tests", the executions themselves, and `tests` / the testcase elements of the JUnit report."""
    files = [['top.suite', '[cases]\nb.case\n*.case\n'],
             ['a.case', '[setup]\n$ echo ca >> %s\n[assert]\nexit-code == 0\n' % MARKER],
             ['b.case', '[setup]\n$ echo cb >> %s\n[assert]\nexit-code == 1\n' % MARKER]]
    base = dict(dirs=[], files=files, links=[], chmod0=[], globs=[], stub=False)
    tasks = [dict(base, argv=['suite', 'top.suite']), dict(base, argv=['suite', '--reporter', 'junit', 'top.suite'])]
    with ctx.pool(workers=2) as pool:
        obs = pool.map('harness.props.c16:exec_run', tasks, deadline=120, chunk=1)
    prog, ju = obs
    problems = []
    for o in obs:
        if o.get('exception') or o.get('no_termination') or o.get('worker_died') or o.get('harness_exception'):
            problems.append('Terminates/NoEscapingException')
    if not problems:
        n_exec = len(prog['marks'])
        case_lines = [l for l in prog['stdout'].split('\n') if CASE_LINE.match(l)]
        bad_lines = [l for l in case_lines if not l.endswith(('PASS', 'SKIPPED', 'XFAIL'))]
        m = re.search(r'Ran (\d+) tests?', prog['stderr'])
        if len(case_lines) != n_exec:
            problems.append('ReportersAgree(listed twice): %d case lines for %d executions' % (len(case_lines), n_exec))
        if m and int(m.group(1)) != n_exec:
            problems.append('ReportersAgree(listed twice): "Ran %s tests" for %d executions' % (m.group(1), n_exec))
        if (prog['exit'] == 0) != (not bad_lines):
            problems.append('VerdictIffAllSucceed(listed twice): exit %s with unsuccessful lines %s' % (prog['exit'], bad_lines))
        try:
            root = ElementTree.fromstring(ju['stdout'])
            suites = [root] if root.tag == 'testsuite' else list(root)
            tests = sum(int(e.get('tests')) for e in suites)
            elems = sum(len(e.findall('testcase')) for e in suites)
            bad = sum(int(e.get('failures')) + int(e.get('errors')) for e in suites)
            if not (tests == elems == len(ju['marks'])):
                problems.append('ReportersAgree(listed twice): JUnit tests=%d, %d testcase elements, %d executions'
                                % (tests, elems, len(ju['marks'])))
            if len(ju['marks']) != n_exec:
                problems.append('ReportersAgree(listed twice): %d executions with one reporter, %d with the other'
                                % (n_exec, len(ju['marks'])))
            if bad != len(bad_lines) * (len(ju['marks']) // max(n_exec, 1) if n_exec else 1):
                problems.append('ReportersAgree(listed twice): JUnit failures + errors = %d, progress reporter %d'
                                % (bad, len(bad_lines)))
        except (ElementTree.ParseError, TypeError, ValueError) as ex:
            problems.append('ReportersAgree(listed twice): JUnit report %s' % ex)
    ctx.count()
    ctx.nontrivial('listed-twice')
    for pr in problems:
        ctx.fail(pr.split(':')[0] + ' a case file listed by two lines',
                 dict(kind='listed-twice', clause=pr, progress=prog, junit=ju))
    ctx.cov['traces_validated_against_impl'] += 2
    ctx.cov.setdefault('replay', {})['a case file listed by two lines (consistency only)'] = dict(
        runs=2, disagreements=len(problems))


def replay(ctx, rec):
    if rec['record'].get('kind') == 'listed-twice':
        before = len(ctx.violations)
        listed_twice_family(ctx)
        if len(ctx.violations) > before:
            print('VIOLATION property=C16 replay=(given)')
            return 1
        return 0
    r = rec['record']
    t = r['task']
    f = 'harness.props.c16:exec_subprocess' if r.get('how') == 'subprocess' else 'harness.props.c16:exec_run'
    with ctx.pool(workers=1, unprivileged=bool(t.get('unprivileged')), init='harness.props.c16:worker_init') as pool:
        o = pool.map(f, [t], deadline=180)[0]
    if any(o.get(k) for k in ('no_termination', 'worker_died', 'harness_exception')):
        p = dict(exit=None, marks=[])
    else:
        p = project(r['case'], t, o)
    clause = compare(r['case'], p, o)
    print(json.dumps(dict(input=brief(r['case']), reporter=r['case']['rep'], argv=t['argv'],
                          files=dict((a, b) for a, b in t['files']), observed=o, projected=p, clause=clause), indent=1))
    if clause:
        if is_d6(r['case'], p, o) and ctx.findings.get(D6, {}).get('state') == 'open':
            print('KNOWN-FINDING: property=C16 %s' % D6)
            return 0
        print('VIOLATION property=C16 replay=(given)')
        return 1
    return 0
