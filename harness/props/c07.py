"""C07  Test-case file structure: phases, merging, inclusion, source locations.

spec/SectionDoc.tla is the documented reader as a transition function over line kinds; TLC generates EVERY main
file up to a length bound line by line (and, in the inclusion configuration, combines it with candidate included
files), checks location / merge / first-error invariants and exports, per document, the instruction elements of
every phase with (file, first line, number of lines, chain of including directives) or the error with its location.
Every document is rendered with real instructions and parsed by the real test-case parser
(processing.parse.test_case_parser, the code the CLI uses); elements and error locations are compared exactly, and
a sample is run through the CLI to compare the location PRINTED in error messages.
"""
import json
import os
import random
import re

from harness import core

LINE = {
    'Hs': '[setup]', 'Ha': '[assert]', 'Hact': '[act]', 'Hc': '  [cleanup]  ', 'Hunk': '[nophase]', 'Hmal': '[setup',
    'C': '# comment', 'B': '', 'I': 'timeout = 1', 'MLs': 'file f.txt = <<EOF', 'MLe': 'EOF', 'D': '`described`',
    'X': 'echo hi', 'ESC': '\\[setup]', 'INC': 'file',
    'IB': 'including B.xly', 'IC': 'including sub/C.xly', 'IM': 'including main.case', 'IMISS': 'including missing.xly',
}
# in the included files the same kinds are used; B lives beside main, C in a sub directory (relative to the includer)
FILE_NAME = {'main': 'main.case', 'B': 'B.xly', 'C': 'sub/C.xly'}
ALL = ['Hs', 'Ha', 'Hact', 'Hc', 'Hunk', 'Hmal', 'C', 'B', 'I', 'MLs', 'MLe', 'D', 'X', 'ESC', 'INC']
INCL = ['Hs', 'Ha', 'Hact', 'I', 'MLs', 'MLe', 'X', 'IB', 'IC', 'IM', 'IMISS']
INVARIANTS = ['LocationsDisjoint', 'LocationsInside', 'MergeInFileOrder', 'Terminates', 'OrderIrrelevant']
PHASES = ['conf', 'setup', 'act', 'ba', 'assert', 'cleanup']


def cfg(max_lines, kinds, includes, export=False):
    c = ('SPECIFICATION Spec\nCONSTANTS MaxLines = %d\n Kinds = {%s}\n Includes = "%s"\n'
         % (max_lines, ', '.join('"%s"' % k for k in kinds), includes))
    if export:
        c += 'INVARIANT Export\n'
    else:
        c += ''.join('INVARIANT %s\n' % i for i in INVARIANTS) + 'PROPERTY FirstErrorWins\n'
    return c + 'CHECK_DEADLOCK FALSE\n'


def text_of(kinds, file_key):
    import zlib
    # layout: in half of the documents the instructions do not begin in the first column
    indent = '   ' if zlib.crc32(('/'.join(kinds) + file_key).encode()) % 2 else ''
    lines = []
    for k in kinds:
        l = LINE[k]
        if k in ('I', 'MLs', 'INC', 'IB', 'IC', 'IM', 'IMISS'):
            l = indent + l
        if file_key == 'C':
            # paths in including directives are relative to the including file's directory
            l = l.replace('including B.xly', 'including ../B.xly').replace('including sub/C.xly', 'including C.xly') \
                .replace('including main.case', 'including ../main.case')
        lines.append(l)
    return ''.join(l + '\n' for l in lines)


def files_of(c):
    return {'main.case': text_of(c['doc'], 'main'), 'B.xly': text_of(c['bdoc'], 'B'),
            'sub/C.xly': text_of(c['cdoc'], 'C')}


# ---------------------------------------------------------------- worker side
_PARSER = None


def _parser():
    global _PARSER
    if _PARSER is None:
        from exactly_lib.cli_default.program_modes.test_case import default_instructions_setup
        from exactly_lib.common import instruction_name_and_argument_splitter
        from exactly_lib.processing.instruction_setup import TestCaseParsingSetup
        from exactly_lib.processing.parse.act_phase_source_parser import ActPhaseParser
        from exactly_lib.processing.parse import test_case_parser
        _PARSER = test_case_parser.new_parser(TestCaseParsingSetup(instruction_name_and_argument_splitter.splitter,
                                                                   default_instructions_setup.INSTRUCTIONS_SETUP,
                                                                   ActPhaseParser()))
    return _PARSER


def _first(src):
    return src.first_line.line_number if hasattr(src, 'first_line') else src.first_line_number


def _loc(locations, home):
    """sequence of SourceLocation (inclusion chain + final location) ->
    (file key, first line, number of lines, chain, source lines)"""
    import pathlib
    cur_dir = pathlib.Path(home)
    names = {v: k for k, v in FILE_NAME.items()}
    resolved = []
    for loc in locations:
        fp = loc.file_path_rel_referrer
        f = None
        if fp is not None:
            f = os.path.normpath(str(cur_dir / fp))
            cur_dir = pathlib.Path(f).parent
            f = os.path.relpath(f, home)
        resolved.append((names.get(f, f), loc.source))
    chain = [[f, _first(src)] for f, src in resolved[:-1]]
    f, src = resolved[-1]
    if src is None:
        return f, None, None, chain, None
    return f, _first(src), len(src.lines), chain, list(src.lines)


def _path_locations(slp):
    return list(slp.file_inclusion_chain) + [slp.location]


def parse_batch(task, cd):
    """several documents per task (each in its own sub directory): the per-task overhead dominates otherwise"""
    out = []
    for j, files in enumerate(task['batch']):
        out.append(parse_doc(dict(files=files), cd, sub='d%d' % j))
    return out


def parse_doc(task, cd, sub=None):
    import pathlib
    from exactly_lib.processing.test_case_processing import TestCaseFileReference
    from exactly_lib.section_document.parse_source import ParseSource
    from exactly_lib.section_document import exceptions
    from exactly_lib.section_document.model import ElementType
    files = task['files']
    base = cd.home if sub is None else os.path.join(cd.home, sub)
    cd.write(files, base=base)
    home = os.path.realpath(base)
    main = pathlib.Path(home) / 'main.case'
    out = dict(err=None, res=None, exception=None)
    try:
        tc = _parser().apply(TestCaseFileReference(main, pathlib.Path(home)), ParseSource(files['main.case']))
    except exceptions.FileSourceError as ex:
        f, first, n, chain, lines = _loc(list(ex.location_path), home)
        out['err'] = ['syntax', f, first, chain]
        out['err_lines'] = lines
        return out
    except exceptions.FileAccessError as ex:
        f, first, n, chain, lines = _loc(list(ex.location_path), home)
        out['err'] = ['file-access', f, first, chain]
        return out
    except exceptions.ParseError as ex:
        out['err'] = ['other:' + type(ex).__name__, None, None, []]
        return out
    except Exception as ex:
        out['exception'] = '%s: %s' % (type(ex).__name__, ex)
        return out
    res = {}
    for name, sec in zip(PHASES, [tc.configuration_phase, tc.setup_phase, tc.act_phase, tc.before_assert_phase,
                                  tc.assert_phase, tc.cleanup_phase]):
        els = []
        for e in sec.elements:
            if e.element_type is ElementType.INSTRUCTION:
                f, first, n, chain, lines = _loc(_path_locations(e.source_location_info.source_location_path), home)
                els.append([f, first, n, chain])
                # the element carries the text of the lines it came from
                want = files[FILE_NAME[f]].split('\n')[first - 1:first - 1 + n]
                if name == 'act':
                    # documented: a leading "\[" in the act phase stands for "[" (escaped header line)
                    want = [w.replace('\\[', '[', 1) if w.lstrip().startswith('\\[') else w for w in want]
                elif want:
                    # the text of an instruction begins where the instruction begins (layout before it is not part)
                    want = [want[0].lstrip()] + want[1:]
                if lines != want:
                    els[-1].append('TEXT-MISMATCH %r' % (lines,))
        res[name] = els
    out['res'] = res
    return out


def cli_doc(task, cd):
    from harness import inproc
    d = task.get('dir', '')          # the case file is given with a directory component
    cd.write({d + k: v for k, v in task['files'].items()})
    r = inproc.run_main([d + 'main.case'], cd)
    return dict(exit=r['exit'], exception=r['exception'], ident=(r['stdout'].splitlines() or [''])[0],
                stderr=r['stderr'][:1500])


# ---------------------------------------------------------------- comparison
def has_d11_signature(c):
    """an instruction whose argument is missing, followed - possibly after empty lines - by another non-empty line
    (known finding D11: that line is taken as the argument)"""
    for doc in (c['doc'], c['bdoc'], c['cdoc']):
        for j, k in enumerate(doc):
            if k == 'INC' and any(x != 'B' for x in doc[j + 1:]):
                return True
    return False


def compare(c, o):
    if o.get('exception') or o.get('no_termination') or o.get('harness_exception') or o.get('worker_died'):
        return 'Terminates/NoEscapingException: %s' % str(o)[:200]
    exp_err = c['err']
    if exp_err:
        kind, f, line, chain = exp_err
        if not o['err']:
            return 'ErrorReported: accepted, specification %s error at %s line %d' % (kind, f, line)
        if o['err'][0] != kind:
            return 'ErrorKind: %s, specification %s' % (o['err'][0], kind)
        if c['unspec']:
            return None
        if o['err'][1:] != [f, line, [list(x) for x in chain]]:
            return 'ErrorLocation: %s, specification %s' % (o['err'][1:], [f, line, chain])
        return None
    if o['err']:
        return 'Accepted: %s, specification accepts' % (o['err'],)
    for ph in PHASES:
        exp = [[e[0], e[1], e[2], [list(x) for x in e[3]]] for e in c['res'][ph]]
        if o['res'][ph] != exp:
            return 'Elements[%s]: %s, specification %s' % (ph, o['res'][ph], exp)
    return None


def run_config(ctx, pool, label, max_lines, kinds, includes, sample=None):
    mc = ctx.tlc('SectionDoc', cfg(max_lines, kinds, includes), coverage=True,
                 name='mc-' + label, timeout=3000)
    ctx.require_coverage(mc, ['ReadLine'])
    ex = ctx.tlc('SectionDocExport', cfg(max_lines, kinds, includes, export=True), workers=1, name='export-' + label,
                 count=False, timeout=3000)
    cases = ex.printed_json('DOC')
    if sample and len(cases) > sample:
        cases = random.Random(ctx.seed).sample(cases, sample)
    tasks = [dict(files=files_of(c)) for c in cases]
    per = 40
    batches = [dict(batch=[t['files'] for t in tasks[a:a + per]]) for a in range(0, len(tasks), per)]
    bobs = pool.map('harness.props.c07:parse_batch', batches, deadline=120, chunk=2)
    obs = []
    for b, o in zip(batches, bobs):
        if isinstance(o, list):
            obs.extend(o)
        else:      # the whole batch was lost (deadline / crash): run its documents one by one
            obs.extend(pool.map('harness.props.c07:parse_doc', [dict(files=f) for f in b['batch']], deadline=60, chunk=4))
    bad = 0
    for c, t, o in zip(cases, tasks, obs):
        ctx.count()
        if len(c['doc']) >= 2:
            ctx.nontrivial(json.dumps([c['doc'], c['bdoc'], c['cdoc']]))
        clause = compare(c, o)
        if clause:
            bad += 1
            ctx.fail('%s doc=%s B=%s C=%s' % (clause.split(':')[0], ' '.join(c['doc']), ' '.join(c['bdoc']),
                                              ' '.join(c['cdoc'])),
                     dict(kind='doc', case=c, files=t['files'], observed=o, clause=clause),
                     explained_by='D11' if has_d11_signature(c) else None)
    ctx.cov['traces_validated_against_impl'] += len(cases)
    ctx.cov.setdefault('replay', {})[label] = dict(documents=len(cases), disagreements=bad)
    return cases, tasks, obs


def run(ctx):
    quick = ctx.tier == 'quick'
    rnd = random.Random(ctx.seed)
    with ctx.pool() as pool:
        cases, tasks, obs = run_config(ctx, pool, 'single file', 4 if quick else 5, ALL, 'none')
        icases, itasks, iobs = run_config(ctx, pool, 'with inclusion', 3 if quick else 4, INCL, 'std',
                                          sample=(12000 if quick else 300000))
        # longer main files over the kinds that matter for the phase an included file starts in (repeated phase
        # declarations with inclusions between them)
        run_config(ctx, pool, 'with inclusion, repeated phases', 5 if quick else 6, ['Hs', 'Ha', 'I', 'IB', 'IC'], 'std',
                   sample=(15000 if quick else 300000))
        # the location PRINTED by the CLI for syntax errors (sample)
        err_idx = [j for j, c in enumerate(cases) if c['err'] and not c['unspec'] and not has_d11_signature(c)]
        err_idx = rnd.sample(err_idx, min(len(err_idx), 1500 if quick else 15000))
        cobs = pool.map('harness.props.c07:cli_doc', [tasks[j] for j in err_idx], deadline=60, chunk=16)
    bad = 0
    for j, o in zip(err_idx, cobs):
        ctx.count()
        c = cases[j]
        kind, f, line, chain = c['err']
        ident = 'SYNTAX_ERROR' if kind == 'syntax' else 'FILE_ACCESS_ERROR'
        want = '%s, line %d' % (FILE_NAME[f], line)
        src_line = LINE[c['doc'][line - 1]]
        if o.get('exit') != 65 or o.get('ident') != ident or want not in o.get('stderr', '') or \
                (src_line.strip() and src_line.strip() not in o['stderr']):
            bad += 1
            ctx.fail('PrintedLocation doc=%s' % ' '.join(c['doc']),
                     dict(kind='cli', case=c, files=tasks[j]['files'], observed=o, want=want))
    ctx.cov['traces_validated_against_impl'] += len(err_idx)
    ctx.cov['replay']['CLI: printed error location'] = dict(documents=len(err_idx), disagreements=bad)
    # the CHAIN of locations printed for an error in an included file; the case file is given with a directory
    # component (every printed path is relative to the current directory, through all levels of inclusion)
    inc_idx = [j for j, c in enumerate(icases) if c['err'] and c['err'][3] and not c['unspec'] and not has_d11_signature(c)]
    inc_idx = rnd.sample(inc_idx, min(len(inc_idx), 1500 if quick else 15000))
    with ctx.pool() as pool:
        iobs2 = pool.map('harness.props.c07:cli_doc', [dict(files=itasks[j]['files'], dir=('cases/' if n % 4 else ''))
                                                      for n, j in enumerate(inc_idx)], deadline=60, chunk=16)
    bad = 0
    for n, (j, o) in enumerate(zip(inc_idx, iobs2)):
        ctx.count()
        c = icases[j]
        d = 'cases/' if n % 4 else ''
        kind, f, line, chain = c['err']
        ident = 'SYNTAX_ERROR' if kind == 'syntax' else 'FILE_ACCESS_ERROR'
        want = [[os.path.normpath(d + FILE_NAME[cf]), cl] for cf, cl in chain] + [[os.path.normpath(d + FILE_NAME[f]), line]]
        got = [[os.path.normpath(m.group(1)), int(m.group(2))]
               for m in re.finditer(r'^(\S+), line (\d+)$', o.get('stderr', ''), re.M)]
        if o.get('exit') != 65 or o.get('ident') != ident or got != want:
            bad += 1
            ctx.fail('PrintedChain main=%s B=%s C=%s' % (' '.join(c['doc']), ' '.join(c['bdoc']), ' '.join(c['cdoc'])),
                     dict(kind='cli', case=c, files=itasks[j]['files'], dir=d, observed=o, want=want, got=got))
    ctx.cov['traces_validated_against_impl'] += len(inc_idx)
    ctx.cov['replay']['CLI: printed chain of inclusion locations'] = dict(documents=len(inc_idx), disagreements=bad)
    # negative controls
    tried = rejected = 0
    good = [j for j, c in enumerate(cases) if not c['err'] and any(c['res'][p] for p in PHASES)]
    for j in rnd.sample(good, min(30, len(good))):
        o = json.loads(json.dumps(obs[j]))
        ph = next(p for p in PHASES if o['res'][p])
        if tried % 2 == 0:
            o['res'][ph][0][1] += 1
        else:
            o['res'][ph] = o['res'][ph][1:]
        tried += 1
        rejected += compare(cases[j], o) is not None
    if tried == 0 or tried != rejected:
        raise core.MachineryFailure('negative controls: %d of %d rejected' % (rejected, tried))
    ctx.cov['negative_controls_rejected'] += rejected
    for c in (cases[len(cases) // 2], icases[len(icases) // 3], icases[-1]):
        ctx.sample(dict(main=[LINE[k] for k in c['doc']], B=[LINE[k] for k in c['bdoc']], C=[LINE[k] for k in c['cdoc']],
                        error=c['err'], elements={p: c['res'][p] for p in PHASES if c['res'][p]}))
    ctx.cov['exhaustive'] = True
    ctx.cov['rule'] = ('every main file of <= %d lines over 15 line kinds (headers, unknown/malformed header, comment, '
                       'blank, instruction, here-document start/end, description, non-instruction, escaped header, '
                       'incomplete instruction); every main file of <= %d lines over 11 kinds including the four '
                       'including-directives x 10 x 2 candidate included files (sampled in the quick tier); '
                       'non-trivial = distinct document set with at least 2 lines'
                       % (4 if quick else 5, 3 if quick else 4))
    ctx.assumptions += ['elements are observed through processing.parse.test_case_parser (the parser the CLI uses) and, '
                        'for error locations, additionally through the CLI output',
                        'which line is blamed when a description is not followed by an instruction is not specified; '
                        'only the error kind is compared there',
                        'an incomplete instruction directly followed by a non-empty line is known finding D11']


def replay(ctx, rec):
    r = rec['record']
    with ctx.pool(workers=1) as pool:
        if r['kind'] == 'cli':
            o = pool.map('harness.props.c07:cli_doc', [dict(files=r['files'], dir=r.get('dir', ''))], deadline=60)[0]
            print(json.dumps(dict(files=r['files'], want=r['want'], observed=o), indent=1))
            if isinstance(r['want'], list):
                got = [[os.path.normpath(m.group(1)), int(m.group(2))]
                       for m in re.finditer(r'^(\S+), line (\d+)$', o.get('stderr', ''), re.M)]
                ok = got == r['want'] and o.get('exit') == 65
            else:
                ok = r['want'] in o.get('stderr', '') and o.get('exit') == 65
        else:
            o = pool.map('harness.props.c07:parse_doc', [dict(files=r['files'])], deadline=60)[0]
            clause = compare(r['case'], o)
            print(json.dumps(dict(files=r['files'], case=r['case'], observed=o, clause=clause), indent=1))
            ok = clause is None
    if not ok:
        print('VIOLATION property=C07 replay=(given)')
        return 1
    return 0
