"""C04  Sandbox lifecycle and isolation of the Exactly process.

spec/Sandbox.tla (refinement of PhaseExec) enumerates every way of ending x mode x {cd, env, file-in-tmp} and the
snapshot every stub instruction must see (top-level layout, result/, tmp/, current directory, environment).
Every case is rendered as text for the stub main program (real `dir`/`cd`/`env`/`file` instructions, real action
to check) and executed; the snapshots taken by the stubs inside the real sandbox, the verdict, the fate of the
sandbox directory and the process state (cwd, os.environ) afterwards are compared.  Read-only sandbox contents are
exercised by unprivileged workers (root ignores permission bits).  Hook traces are validated by PhaseExecTrace.
"""
import json
import os
import random

from harness import core, casegen, trace_exec

INVARIANTS = ['FreshLayout', 'LayoutStable', 'ResultAfterAct', 'TmpUntouched', 'ProcessEnvUntouched', 'CdPersists',
              'RemovedAtEnd', 'ProcessStateRestored', 'CleanupExactlyOnce', 'SandboxBeforeEffects',
              'CwdInSandboxWhileLive', 'CwdRemovalHarmless']
ATC_EXIT = 3
REAL = {'dir': 'dir sub', 'cd': 'cd sub', 'env': 'env VERIF_X = 1', 'tmpfile': 'file -rel-tmp u.txt = x'}


def cfg(invariants=INVARIANTS):
    return ('SPECIFICATION SSpec\nCONSTANT MaxN = 7\n' + ''.join('INVARIANT %s\n' % i for i in invariants)
            + 'CHECK_DEADLOCK FALSE\n')


def concretize(c):
    step, phase = c['endStep']
    conf = []
    exeinput = (step, phase) == ('exeinput', 'act')
    stub_actor = phase == 'act' and not exeinput
    if stub_actor:
        conf.append('verif-actor %s=%s exit=%d' % (step, c['endO'], ATC_EXIT))

    def stub(ph, idx):
        s = 'verif-stub %d' % idx
        if ph == phase and idx == c['endI']:
            s += ' %s=%s' % (step, c['endO'])
        if exeinput and ph == 'setup' and idx == 1:
            s += ' stdin=%s' % c['endO']
        if ph == 'cleanup' and c['cleanupO'] != 'ok':
            s += ' main=%s' % c['cleanupO']
        return s

    setup = []
    for j, kind in enumerate(c['setup'], 1):
        setup.append(stub('setup', j) if kind == 'stub' else REAL[kind])
    parts = []
    if conf:
        parts.append('[conf]\n' + '\n'.join(conf) + '\n')
    parts.append('[setup]\n' + '\n'.join(setup) + '\n')
    atc = casegen.atc_line(ATC_EXIT)
    if c.get('fRm'):        # the action removes the directory it (and the test) stands in
        atc = atc.replace('exit ', 'rmdir ../sub; exit ')
    parts.append('[act]\n' + ('stub action\n' if stub_actor else atc + '\n'))
    parts.append('[before-assert]\n' + stub('ba', 1) + '\n')
    parts.append('[assert]\n' + stub('assert', 1) + '\n')
    parts.append('[cleanup]\n' + stub('cleanup', 1) + '\n')
    argv = {'normal': [], 'keep': ['--keep'], 'act': ['--act']}[c['mode']] + ['c.case']
    return {'c.case': ''.join(parts)}, argv


TRACKED = ('VERIF_X',)


def _cwd_rel(root):
    try:
        return os.path.relpath(os.getcwd(), root)
    except FileNotFoundError:
        return 'gone'


def exec_case(task, cd):
    from harness import inproc, stubmain, stubs
    files, argv = concretize(task)
    cd.write(files)
    snaps = []

    def snapshot(phase, idx, environment, settings):
        root = str(environment.sds.root_dir)
        res_dir = os.path.join(root, 'result')
        e = settings.environ()
        e = os.environ if e is None else e
        contents = {}
        for f in sorted(os.listdir(res_dir)):
            with open(os.path.join(res_dir, f)) as fh:
                contents[f] = fh.read()
        snaps.append(dict(phase=phase, idx=idx, top=sorted(os.listdir(root)), result=sorted(os.listdir(res_dir)),
                          tmp=sorted(os.listdir(os.path.join(root, 'tmp'))),
                          cwd=_cwd_rel(root), env=sorted(k for k in TRACKED if k in e),
                          penv=sorted(k for k in TRACKED if k in os.environ), contents=contents,
                          act=sorted(os.listdir(os.path.join(root, 'act')))))

    stubs.SNAPSHOT = snapshot
    stubmain.RECORDER.log.clear()
    import tempfile
    import zlib
    if zlib.crc32(files['c.case'].encode()) % 3 == 0:
        # the directory for temporary files is reached through a symbolic link (as on some systems): the sandbox is
        # the physical directory all the same, and act/ - by that name - is the current directory
        link = os.path.join(cd.root, 'tmp-through-a-link')
        if not os.path.lexists(link):
            os.symlink(cd.tmp, link)
        tempfile.tempdir = link
        os.environ['TMPDIR'] = link
    try:
        r = inproc.run_main(argv, cd, main_program=stubmain.stub_main_program(), trace=True)
    finally:
        stubs.SNAPSHOT = None
    sandboxes = cd.sandboxes()
    kept = None
    if len(sandboxes) == 1:
        kept = inproc.tree_snapshot(os.path.join(cd.tmp, sandboxes[0]))
    return dict(exit=r['exit'], exception=r['exception'], stdout=r['stdout'][:300], stderr=r['stderr'][:300],
                snaps=snaps, sandboxes=sandboxes, kept=kept, cwd_ok=r['cwd_after'] == r['cwd_before'],
                env_changed=r['env_changed'], events=r.get('trace', []), argv=argv, text=files['c.case'])


def compare(c, o):
    if o.get('no_termination') or o.get('worker_died') or o.get('harness_exception') or o.get('exception'):
        return 'Terminates/NoEscapingException'
    exp = c['snaps']
    got = o['snaps']
    if len(exp) != len(got):
        return 'SnapshotCount: %d, specification %d' % (len(got), len(exp))
    for a, (e, g) in enumerate(zip(exp, got)):
        for key, clause in (('phase', 'SnapshotOrder'), ('idx', 'SnapshotOrder'), ('top', 'FreshLayout/LayoutStable'),
                            ('result', 'ResultAfterAct'), ('tmp', 'TmpUntouched'), ('cwd', 'CwdInSandbox/CdPersists'),
                            ('env', 'EnvPersistsForward'), ('penv', 'ProcessEnvUntouched')):
            ev = e[key]
            if isinstance(ev, list):
                ev = sorted(ev)
            if ev != g[key]:
                return '%s: snapshot %d (%s %d) %s=%s, specification %s' % (clause, a + 1, g['phase'], g['idx'], key,
                                                                           g[key], ev)
        if len(g['result']) == 3:
            want = {'stdout': 'atc-out\n', 'stderr': 'atc-err\n', 'exit-code': str(ATC_EXIT)}
            if g['contents'] != want:
                return 'ResultAfterAct: contents %s' % g['contents']
        if a == 0 and g['act']:
            return 'FreshLayout: act/ not empty: %s' % g['act']
    ident_line = (o['stderr'] if c['mode'] in ('keep', 'act') else o['stdout']).split('\n')
    complete_act = c['mode'] == 'act' and c['endK'] == 0 and c['cleanupO'] == 'ok'
    if not complete_act and not any(l in c['acc'] for l in ident_line[:3]):
        return 'Verdict: %s, specification %s' % (ident_line[:2], c['acc'])
    if not o['cwd_ok']:
        return 'ProcessStateRestored: cwd'
    if o['env_changed']:
        return 'ProcessStateRestored: environment %s' % o['env_changed']
    if c['sds'] in ('none', 'removed'):
        if o['sandboxes']:
            return 'RemovedAtEnd: %s left' % o['sandboxes']
    else:
        if len(o['sandboxes']) != 1:
            return 'KeptAtEnd: %s' % o['sandboxes']
        kept = o['kept']
        top = sorted(set(p.split('/')[0] for p in kept))
        if top != sorted(['act', 'tmp', 'result', 'internal']):
            return 'KeptIntact: top-level %s' % top
        if c['executed'] and c['mode'] != 'act':
            for f, v in (('stdout', 'atc-out\n'), ('stderr', 'atc-err\n'), ('exit-code', str(ATC_EXIT))):
                if kept.get('result/' + f) != 'f:' + v:
                    return 'KeptIntact: result/%s = %r' % (f, kept.get('result/' + f))
        if o['stdout'].strip().split('\n')[0] not in [os.path.join(os.path.dirname(p), p) for p in ['']] and \
                os.path.basename(o['stdout'].strip()) != o['sandboxes'][0]:
            return 'KeptPathReported: stdout %r, directory %s' % (o['stdout'], o['sandboxes'][0])
    return None


# ---------------------------------------------------------------- what a case may leave (unprivileged workers)
# kind -> (setup lines, entries whose kind and permission bits are compared in a kept sandbox)
LEFT = {
    'ro-dir-in-act': (['dir d', 'file d/f = x', '$ chmod a-w d'], ['act/d', 'act/d/f']),
    'ro-file-in-act': (['file f = x', '$ chmod a-w f'], ['act/f']),
    'ro-dir-in-tmp': (['dir -rel-tmp d', 'file -rel-tmp d/f = x', '$ chmod a-w ../tmp/d'], ['tmp/d', 'tmp/d/f']),
    'ro-nested': (['dir d/e', 'file d/e/f = x', '$ chmod a-w d/e', '$ chmod a-w d'], ['act/d', 'act/d/e', 'act/d/e/f']),
    'ro-act-itself': (['file f = x', '$ chmod a-w .'], ['act', 'act/f']),
    'no-access-dir': (['dir d', 'file d/f = x', '$ chmod 000 d'], ['act/d']),
    'link-to-dir': (['dir real', 'file real/f = x', '$ ln -s real link'], ['act/real', 'act/link', 'act/real/f']),
    'link-to-file': (['file real.txt = x', '$ ln -s real.txt link'], ['act/real.txt', 'act/link']),
    'dangling-link': (['$ ln -s nowhere link'], ['act/link']),
    'link-to-dir-outside': (['$ ln -s "$VERIF_OUTSIDE" link'], ['act/link']),
    'file-in-root': (['$ echo x > ../program.log'], ['program.log']),
    'dir-in-root': (['$ mkdir ../cache-dir', '$ echo x > ../cache-dir/f'], ['cache-dir', 'cache-dir/f']),
    'ro-dir-in-root': (['$ mkdir ../cache-dir', '$ echo x > ../cache-dir/f', '$ chmod a-w ../cache-dir'],
                       ['cache-dir', 'cache-dir/f']),
}


def _lstat_sig(p):
    import stat
    try:
        st = os.lstat(p)
    except OSError as ex:
        return 'missing:%s' % type(ex).__name__
    kind = 'link' if stat.S_ISLNK(st.st_mode) else 'dir' if stat.S_ISDIR(st.st_mode) else 'file'
    return '%s:%o%s' % (kind, stat.S_IMODE(st.st_mode) if kind != 'link' else 0,
                        (':' + os.readlink(p)) if kind == 'link' else '')


def exec_ro(task, cd):
    """The case is run twice: stopped right before the end ([cleanup] fails: --keep) to learn how it LEAVES its
    sandbox is not possible from outside - instead the entries are compared with what the same setup lines produce
    when run by a shell in a scratch directory (reference), which needs no knowledge of Exactly."""
    from harness import inproc
    import subprocess
    name, ending, keep = task
    lines, watch = LEFT[name]
    outside = os.path.join(cd.out, 'outside-dir')
    os.makedirs(outside, exist_ok=True)
    with open(os.path.join(outside, 'precious.txt'), 'w') as fh:
        fh.write('precious')
    text = '[setup]\n' + '\n'.join(lines) + '\n[act]\n$ echo hi\n'
    if ending == 'fail':
        text += '[assert]\nexit-code == 1\n'
    elif ending == 'hard':
        text += '[before-assert]\n$ exit 1\n'
    cd.write({'c.case': text})
    r = inproc.run_main((['--keep'] if keep else []) + ['c.case'], cd, env={'VERIF_OUTSIDE': outside})
    boxes = cd.sandboxes()
    res = dict(exit=r['exit'], exception=r['exception'], stdout=r['stdout'][:200], stderr=r['stderr'][:300],
               sandboxes=boxes, uid=os.getuid(), text=text,
               outside=sorted(os.listdir(outside)) if os.path.isdir(outside) else None)
    if keep and len(boxes) == 1:
        root = os.path.join(cd.tmp, boxes[0])
        res['kept'] = {w: _lstat_sig(os.path.join(root, w)) for w in watch}
        # reference: the same lines by a plain shell in a scratch "act" directory beside a "tmp" directory
        ref = os.path.join(cd.out, 'ref')
        os.makedirs(os.path.join(ref, 'act'))
        os.makedirs(os.path.join(ref, 'tmp'))
        sh = []
        for l in lines:
            if l.startswith('$ '):
                sh.append(l[2:])
            elif l.startswith('dir -rel-tmp '):
                sh.append('mkdir -p ../tmp/' + l.split()[-1])
            elif l.startswith('dir '):
                sh.append('mkdir -p ' + l.split()[-1])
            elif l.startswith('file -rel-tmp '):
                sh.append('printf x > ../tmp/' + l.split()[2])
            elif l.startswith('file '):
                sh.append('printf x > ' + l.split()[1])
        subprocess.run(['sh', '-c', '\n'.join(sh)], cwd=os.path.join(ref, 'act'), env=dict(os.environ, VERIF_OUTSIDE=outside))
        res['reference'] = {w: _lstat_sig(os.path.join(ref, w)) for w in watch}
    return res


def run(ctx):
    quick = ctx.tier == 'quick'
    res = ctx.tlc('Sandbox', cfg(), coverage=True, name='mc')
    ctx.require_coverage(res, ['SForward', 'SCreate', 'SCleanup', 'SOther'])
    exp = ctx.tlc('SandboxExport', cfg(invariants=['Export']), workers=1, name='export', count=False)
    cases = exp.printed_json('CASE')
    with ctx.pool() as pool:
        obs = pool.map('harness.props.c04:exec_case', cases, deadline=60, chunk=8)
    items = []
    bad = 0
    for c, o in zip(cases, obs):
        ctx.count()
        if c['endK'] != 0 or c['cleanupO'] != 'ok' or c['fCd'] or c['fEnv'] or c['fTmp'] or c['mode'] != 'normal':
            ctx.nontrivial(json.dumps([c[k] for k in ('mode', 'endK', 'endI', 'endO', 'cleanupO', 'fCd', 'fEnv', 'fTmp',
                                                      'fRm')]))
        clause = compare(c, o)
        if clause:
            bad += 1
            ctx.fail('%s mode=%s end=%s#%d/%s cleanup=%s cd=%s env=%s tmp=%s rmcwd=%s' % (
                clause.split(':')[0], c['mode'], '.'.join(c['endStep']), c['endI'], c['endO'], c['cleanupO'],
                c['fCd'], c['fEnv'], c['fTmp'], c['fRm']), dict(kind='case', case=c, observed=o, clause=clause))
        elif o.get('events'):
            items.append(dict(id='%s#%d/%s/%s' % ('.'.join(c['endStep']), c['endI'], c['endO'], c['mode']),
                              events=o['events'], argv=o['argv'], files={'c.case': o['text']}))
    ctx.cov['traces_validated_against_impl'] += len(cases)
    ctx.cov['replay'] = dict(cases=len(cases), disagreements=bad)
    if quick:
        rnd = random.Random(ctx.seed)
        items = rnd.sample(items, min(600, len(items)))
    trace_exec.validate(ctx, items, 'sandbox cases')
    # what a case may leave in its sandbox (table LeftRows of the specification), as an unprivileged user
    rows = exp.printed_json('LEFT')[0]
    ro_tasks = [(r['row']['kind'], r['row']['ending'], bool(r['row']['keep'])) for r in rows]
    ro_exp = [r['exp'] for r in rows]
    if len(ro_tasks) < 40 or set(t[0] for t in ro_tasks) != set(LEFT):
        raise core.MachineryFailure('table of left-behind entries: %d rows' % len(ro_tasks))
    with ctx.pool(workers=4, unprivileged=True) as pool:
        ro_obs = pool.map('harness.props.c04:exec_ro', ro_tasks, deadline=60, chunk=2)
    for t, e, o in zip(ro_tasks, ro_exp, ro_obs):
        ctx.count()
        ctx.nontrivial('left:' + json.dumps(t))
        name, ending, keep = t
        problem = None
        if o.get('exception') or o.get('no_termination') or o.get('harness_exception') or o.get('worker_died'):
            problem = 'Terminates/NoEscapingException'
        elif o['uid'] == 0:
            raise core.MachineryFailure('unprivileged worker runs as root')
        elif o['exit'] != e['exit']:
            problem = 'Verdict: exit %s, specification %s' % (o['exit'], e['exit'])
        elif o['outside'] != ['precious.txt']:
            problem = 'OutsideUntouched: %s' % o['outside']
        elif e['sandbox'] == 'removed' and o['sandboxes']:
            problem = 'RemovedAtEnd: %s left' % o['sandboxes']
        elif e['sandbox'] == 'kept-as-left' and len(o['sandboxes']) != 1:
            problem = 'KeptAtEnd'
        elif e['sandbox'] == 'kept-as-left' and o.get('kept') != o.get('reference'):
            problem = 'KeptAsLeft: %s, as the case left it %s' % (o.get('kept'), o.get('reference'))
        if problem:
            ctx.fail('%s %s ending=%s keep=%s' % (problem.split(':')[0], name, ending, keep),
                     dict(kind='ro', task=t, expected=e, observed=o, clause=problem),
                     explained_by=('D8' if problem.startswith('RemovedAtEnd') and name.startswith('ro-') else None))
    ctx.cov['traces_validated_against_impl'] += len(ro_tasks)
    ctx.cov['read_only_cases'] = len(ro_tasks)
    # negative controls
    rnd = random.Random(ctx.seed + 7)
    tried = rejected = 0
    idx = [j for j, c in enumerate(cases) if len(c['snaps']) >= 3 and compare(c, obs[j]) is None]
    for j in rnd.sample(idx, min(30, len(idx))):
        o = json.loads(json.dumps(obs[j]))
        m = tried % 4
        if m == 0:
            o['snaps'][1]['tmp'] = ['internal-file']
        elif m == 1:
            o['snaps'][0]['result'] = ['stdout']
        elif m == 2:
            o['sandboxes'] = o['sandboxes'] + ['exactly-left']
        else:
            o['env_changed'] = ['VERIF_X']
        tried += 1
        rejected += compare(cases[j], o) is not None
    if tried != rejected:
        raise core.MachineryFailure('negative controls: %d of %d rejected' % (rejected, tried))
    ctx.cov['negative_controls_rejected'] += rejected
    for j in (1, len(cases) // 2, len(cases) - 2):
        c, o = cases[j], obs[j]
        ctx.sample(dict(case={k: c[k] for k in ('mode', 'endStep', 'endI', 'endO', 'cleanupO', 'fCd', 'fEnv', 'fTmp', 'fRm')},
                        text=o.get('text'), snapshots=[{k: s[k] for k in ('phase', 'idx', 'top', 'result', 'tmp', 'cwd')}
                                                       for s in o.get('snaps', [])],
                        sandboxes_left=o.get('sandboxes'), exit=o.get('exit')))
    ctx.cov['exhaustive'] = True
    ctx.cov['rule'] = ('every case of Sandbox.tla: every failing executor step x outcome x cleanup fault x 3 modes x '
                       '{cd, env, file in tmp/} (TLC, exhaustive), plus %d read-only-contents cases run by unprivileged '
                       'workers; non-trivial = distinct case other than the plain passing one' % len(ro_tasks))
    ctx.assumptions += ['snapshots are taken by stub instructions inside the real sandbox (public base classes)',
                        'permission faults need a non-root user: produced by workers that drop privileges to uid 65534',
                        'contents of internal/ are not compared (Exactly\'s own business); tmp/ must hold only what the '
                        'case put there']


def replay(ctx, rec):
    r = rec['record']
    if r.get('kind') == 'case':
        with ctx.pool(workers=1) as pool:
            o = pool.map('harness.props.c04:exec_case', [r['case']], deadline=60)[0]
        clause = compare(r['case'], o)
        o.pop('events', None)
        print(json.dumps(dict(case=r['case'], observed=o, clause=clause), indent=1))
        if clause:
            print('VIOLATION property=C04 replay=(given)')
            return 1
        return 0
    if r.get('kind') == 'ro':
        with ctx.pool(workers=1, unprivileged=True) as pool:
            o = pool.map('harness.props.c04:exec_ro', [tuple(r['task'])], deadline=60)[0]
        print(json.dumps(o, indent=1))
        e = r.get('expected') or {}
        bad = (o.get('exception') or o.get('exit') != e.get('exit') or o.get('outside') != ['precious.txt']
               or (e.get('sandbox') == 'removed' and o.get('sandboxes'))
               or (e.get('sandbox') == 'kept-as-left' and (len(o.get('sandboxes', [])) != 1
                                                           or o.get('kept') != o.get('reference'))))
        if bad:
            print('VIOLATION property=C04 replay=(given)')
            return 1
        return 0
    return trace_exec.replay(ctx, r)
