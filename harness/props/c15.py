"""C15  Directory trees: populating from a FILE-LIST, matching directory contents.

spec/DirTree.tla specifies (a) `dir D (=|+=) FILES-SOURCE` as a step machine (validation of all names, one action per
FILE-SPEC, HardError) together with the denotation of a FILE-LIST as a fold, (b) the breadth-first generator of
`-recursive` with depth limits and pruning together with the set-level definition of the files of a model, (c) the
files-matchers / file-matchers, glob patterns and file name parts as recursive operators.  TLC checks the invariants
and (DirTreeExport) prints every finished scenario with what must be observed:

  populate / invalid   the FILE-LIST, the verdict, the tree that must be on disk (also after a HARD_ERROR), and the
                       description of that tree as `matches -full` condition (round trip)
  match / given        a prepared tree (regular files, directories, links to files / directories / nothing), the
                       options, pruning and selection, and ~25 matcher applications ("probes") with their verdicts
  exists               tree x path x file-matcher x negation for the `exists` instruction
  names                file name x name/stem/suffixes/suffix x (literal regex | glob pattern)

Every scenario is concretised (test-case text + files on disk) and run through the real CLI in process; verdicts and
trees are compared with TLC's.  Probes with verdict T / F of one scenario are first run as ONE test case in which
every instruction is written so that it must pass (`m` or `! m`); if that case does not pass, and for a seeded sample
of scenarios anyway, every probe is run on its own, un-negated.
"""
import json
import zlib
import os
import random
import time
from concurrent.futures import ThreadPoolExecutor

from harness import core

INVARIANTS = ['TypeOK', 'InvalidCreatesNothing', 'NothingOutside', 'PopulateDenotation', 'GeneratorIsReference',
              'GeneratorSound', 'BreadthFirst', 'PruneBeforeSelection', 'WrapsDefined', 'FullIsExact',
              'QuantifierDuality', 'PopulateThenMatchRoundTrip', 'NameParts']
ACTIONS = ['Validate', 'CreateFile', 'AppendToFile', 'CreateEmptyDir', 'CreateDirFromList', 'CreateDirFromCopy',
           'ExtendDirFromList', 'ExtendDirFromCopy', 'CopyClash', 'HardError', 'EndOfList', 'Populated',
           'ListDirect', 'StartWalk', 'ReadDir', 'VisitYieldDescend', 'VisitYield', 'VisitDescend', 'VisitSkip',
           'EndWalk', 'Judge']
ALWAYS = ('full', 'full/B', 'num', 'empty', 'repeat-split', 'repeat-split-wrong')     # probes replayed for every scenario also in the quick tier
ALL_FAMILIES = ['populate', 'invalid', 'match', 'exists', 'names']
GC = ['-XX:ParallelGCThreads=2']      # many single-worker TLC processes run side by side

# constants of the run that is model checked with coverage (vacuity control) ...
COVERAGE = dict(NN=2, MaxLevels=3, MaxNodes=2, ExtraNodes=0, ExtraMod=1, ExtraPick=0,
                LeafKinds=['f', 'd', 'lf', 'ld', 'lb'], MaxLinks=2, MaxEntries=2, ListMod=1, ListPick=0, MaxTail=1, MaxNameLen=2,
                WrapLevel=1)
# ... and of the runs that check the invariants and export the scenarios that are replayed
QUICK = dict(NN=2, MaxLevels=3, MaxNodes=3, ExtraNodes=0, ExtraMod=1, ExtraPick=0,
             LeafKinds=['f', 'd', 'ld', 'lb'], MaxLinks=2, MaxEntries=3, ListMod=2, ListPick=0, MaxTail=1, MaxNameLen=3,
             WrapLevel=1)
THOROUGH = dict(NN=2, MaxLevels=3, MaxNodes=3, ExtraNodes=4, ExtraMod=24, ExtraPick=0,
                LeafKinds=['f', 'g', 'd', 'lf', 'ld', 'lb'], MaxLinks=2, MaxEntries=3, ListMod=1, ListPick=0, MaxTail=2,
                MaxNameLen=4, WrapLevel=2)
N_GIVEN_TREES, N_GIVEN_LISTS = 16000, 20000


def tla(v):
    if isinstance(v, bool):
        return 'TRUE' if v else 'FALSE'
    if isinstance(v, (list, tuple, set)):
        return '{' + ', '.join(tla(x) for x in v) + '}'
    if isinstance(v, str):
        return '"%s"' % v
    return str(v)


def cfg(consts, families, invariants, nshards=1, shard=0, any_order=False, deviations=()):
    c = dict(consts, Families=list(families), NShards=nshards, Shard=shard, AnyOrder=any_order,
             Deviations=list(deviations))
    return ('SPECIFICATION Spec\nCONSTANTS\n' + ''.join('  %s = %s\n' % (k, tla(v)) for k, v in c.items())
            + ''.join('INVARIANT %s\n' % i for i in invariants) + 'CHECK_DEADLOCK FALSE\n')


def cases_of(res):
    """The records printed by DirTreeExport!Export (one PrintT line each)."""
    out = []
    head = '<<"CASE", "'
    for line in res.out.split('\n'):
        if line.startswith(head):
            out.append(json.loads(json.loads('"' + line[len(head):line.rindex('">>')] + '"')))
    return out


# ------------------------------------------------------------------------------------------------------------
# concretisation: abstract syntax -> test-case text, abstract tree -> files   (table driven; no semantics here)
# ------------------------------------------------------------------------------------------------------------
CHAR = {1: 'a', 2: 'b', 3: 'c', 4: '.', 5: 'z'}
GLOB = {**CHAR, 10: '*', 11: '?', 12: '[ab]', 13: '[!a]'}
D_NAME, SC_NAME, DOTDOT, ABS = 7, 6, 0, 9
VERDICT = {'T': 'PASS', 'F': 'FAIL', 'H': 'HARD_ERROR'}


def comp(n, sctext=None):
    if n == D_NAME:
        return 'D'
    if n == SC_NAME:
        return sctext
    return CHAR[n]


def rel_path(rel, sctext=None):
    return '/'.join(comp(n, sctext) for n in rel)


def text_of(ints):
    return ''.join(str(i) for i in ints)


def re_literal(chars):
    return '^' + ''.join('\\.' if c == 4 else CHAR[c] for c in chars) + '$'


def r_opt(o):
    if not o['rec']:
        return ''
    return ('-recursive' + (' -min-depth %d' % o['min'] if o['min'] != -1 else '')
            + (' -max-depth %d' % o['max'] if o['max'] != -1 else '') + ' ')


def r_tm(tm):
    if tm['op'] == 'is-empty':
        return 'is-empty'
    if tm['op'] == 'equals':
        return 'equals "%s"' % text_of(tm['t'])
    raise ValueError(tm)


def r_fm(fm, simple):
    """simple: the context takes no infix operators outside parentheses"""
    op = fm['op']
    if op == 'const':
        return 'constant %s' % ('true' if fm['b'] else 'false')
    if op == 'type':
        return 'type %s' % fm['t']
    if op == 'part':
        if fm['kind'] == 're':
            return "%s ~ '%s'" % (fm['part'], re_literal(fm['pat']))
        return "%s '%s'" % (fm['part'], ''.join(GLOB[e] for e in fm['pat']))
    if op == 'path':
        return "path '*/D/%s'" % rel_path(fm['rel'])
    if op == 'pathg':
        return "path 'D/%s'" % '/'.join(''.join(GLOB[e] for e in c) for c in fm['pat'])
    if op == 'contents':
        return 'contents ' + r_tm(fm['tm'])
    if op == 'dir-contents':
        return 'dir-contents ' + r_opt(fm['opt']) + r_fs(fm['m'])
    if op == 'not':
        return '! ' + r_fm(fm['a'], True)
    if op in ('and', 'or'):
        s = '%s %s %s' % (r_fm(fm['a'], True), '&&' if op == 'and' else '||', r_fm(fm['b'], True))
        return '( %s )' % s if simple else s
    raise ValueError(fm)


def r_fs(m, sctext=None):
    op = m['op']
    if op == 'is-empty':
        return 'is-empty'
    if op == 'num-files':
        return 'num-files %s %d' % (m['cmp'], m['n'])
    if op == 'every':
        return 'every file : ' + r_fm(m['fm'], True)
    if op == 'any':
        return 'any file : ' + r_fm(m['fm'], True)
    if op == 'selection':
        return '-selection %s %s' % (r_fm(m['fm'], True), r_fs(m['m']))
    if op == 'pruned':
        return '-with-pruned %s %s' % (r_fm(m['fm'], True), r_fs(m['m']))
    if op == 'not':
        return '! ' + r_fs(m['a'])
    if op in ('and', 'or'):
        return '( %s %s %s )' % (r_fs(m['a']), '&&' if op == 'and' else '||', r_fs(m['b']))
    if op == 'const':
        return 'constant %s' % ('true' if m['b'] else 'false')
    if op == 'matches':
        lines = []
        for c in seq(m['cond']):
            lines.append('  ' + rel_path(c['rel']) + ('' if c['fm']['op'] == 'none' else ' : ' + r_fm(c['fm'], False)))
        body = '{ }' if not lines else '{\n%s\n}' % '\n'.join(lines)
        return 'matches %s%s' % ('-full ' if m['full'] else '', body)
    raise ValueError(m)


def seq(x):
    """a TLA+ sequence that the Json module printed as an object {"1": ..} (it prints tuples as arrays)"""
    if isinstance(x, dict):
        return [x[k] for k in sorted(x, key=int)]
    return x


def probe_line(sc, pr, normalised):
    """The instruction that applies a probe; normalised: written so that it must PASS (T: m, F: ! m)."""
    sctext = text_of_name(sc)
    if sc['kind'] == 'exists':
        target = 'D/' + rel_path(sc['rel'], sctext) if sc['rel'] else 'D'
        s = 'exists %s-rel-act-home %s' % ('! ' if pr['neg'] else '', target)
        if pr['m']['op'] != 'none':
            s += ' : ' + r_fm(pr['m'], False)
        return s
    neg = normalised and pr['exp'] == 'F'
    return 'dir-contents -rel-act-home D : %s%s%s' % (r_opt(sc['opt']), '! ' if neg else '', r_fs(pr['m']))


def text_of_name(sc):
    return ''.join(CHAR[c] for c in sc['text']) if sc.get('text') else None


def make_tree(nodes, sctext, home, ext):
    """nodes [p, k, c] -> files below home/D; the targets of symbolic links live in ext (outside the tree)."""
    real = {}
    n_ext = [0]

    def fresh():
        n_ext[0] += 1
        return os.path.join(ext, 'x%d' % n_ext[0])

    os.makedirs(ext, exist_ok=True)
    for nd in sorted(nodes, key=lambda x: len(x['p'])):
        p, k = tuple(nd['p']), nd['k']
        if len(p) == 1:
            real[p] = os.path.join(home, 'D')
            os.mkdir(real[p])
            continue
        here = os.path.join(real[p[:-1]], comp(p[-1], sctext))
        if k == 'd':
            os.mkdir(here)
            real[p] = here
        elif k == 'f':
            with open(here, 'w') as fh:
                fh.write(text_of(nd['c']))
        elif k == 'lf':
            t = fresh()
            with open(t, 'w') as fh:
                fh.write(text_of(nd['c']))
            os.symlink(t, here)
        elif k == 'ld':
            t = fresh()
            os.mkdir(t)
            os.symlink(t, here)
            real[p] = t
        elif k == 'lb':
            os.symlink(fresh() + '-missing', here)
        else:
            raise ValueError(k)


def file_name(name):
    if not name:
        return '""'
    parts = list(name)
    lead = ''
    if parts[0] == ABS:
        # an absolute name: one slash, or the two slashes that POSIX lets a root of its own begin with
        lead, parts = ('//' if zlib.crc32(repr(name).encode()) % 2 else '/'), parts[1:]
    return lead + '/'.join('..' if c == DOTDOT else CHAR[c] for c in parts)


def r_list(entries, indent, counter):
    out = []
    pad = '  ' * indent
    for e in entries:
        counter[0] += 1
        n = counter[0]
        s = '%s%s %s' % (pad, e['t'], file_name(e['name']))
        if e['t'] == 'file':
            if e['mod'] != 'none':
                s += ' %s "%d"' % ('=' if e['mod'] == 'set' else '+=', n)
        elif e['mod'] != 'none':
            s += ' %s %s' % ('=' if e['mod'] == 'set' else '+=', r_source(e, indent, counter))
        out.append(s)
    return out


def r_source(e, indent, counter):
    if e['src'] == 'copy':
        return 'dir-contents-of -rel-home src'
    sub = r_list(e['sub'], indent + 1, counter)
    if not sub:
        return '{ }' if indent else '{\n}'
    return '{\n%s\n%s}' % ('\n'.join(sub), '  ' * indent)


OUT = '@OUT'      # stands for the directory (outside the sandbox, inside the task's scratch) that link targets name


def link_target(p, out=OUT):
    return '%s/t-%s' % (out, '-'.join(CHAR[n] for n in p[1:]))


def init_command(init, out):
    """The shell command that gives D its contents before the instruction under test (files, directories, links)."""
    cmds = ['mkdir D']
    for nd in sorted(init, key=lambda x: (len(x['p']), x['p'])):
        path = rel_path(nd['p'])
        if nd['k'] == 'd':
            cmds.append('mkdir ' + path)
        elif nd['k'] == 'f':
            cmds.append(': > ' + path)
        else:
            cmds.append('ln -s %s %s' % (link_target(nd['p'], out), path))
    return '$ ' + ' && '.join(cmds)


def populate_text(sc, out=OUT):
    top = sc['top'][0]
    counter = [0]
    lines = ['[setup]']
    if sc.get('init'):
        lines.append(init_command(sc['init'], out))
    elif sc['pre']:
        lines.append('dir D')
    s = 'dir D'
    if top['mod'] != 'none':
        s += ' %s %s' % ('=' if top['mod'] == 'set' else '+=', r_source(top, 0, counter))
    lines.append(s)
    if sc['res'] == 'PASS' and sc['probes']:
        pr = sc['probes'][0]
        lines += ['[assert]', 'dir-contents D : %s%s' % (r_opt(sc['opt']), r_fs(pr['m']))]
    return '\n'.join(lines) + '\n'


def expected_tree(sc):
    exp = {}
    for nd in sc['nodes']:
        p = rel_path(nd['p'])
        if nd['k'] in ('lf', 'ld', 'lb'):
            exp[p] = 'l:' + link_target(nd['p'])
        else:
            exp[p] = 'd' if nd['k'] == 'd' else 'f:' + text_of(nd['c'])
    return exp


# ------------------------------------------------------------------------------------------------------------
# workers
# ------------------------------------------------------------------------------------------------------------
def _ident(r, keep):
    if r.get('exception'):
        return 'EXCEPTION ' + r['exception']
    lines = (r['stderr'] if keep else r['stdout']).split('\n')
    return lines[0] if lines else ''


def exec_populate(task, cd):
    from harness import inproc
    c0 = time.process_time()
    sc = task['sc']
    text = (task.get('text') or populate_text(sc)).replace(OUT, cd.out)
    cd.write({'c.case': text, 'src/a': '8', 'src/b/a': '8'})
    for nd in sc.get('init') or []:           # what the links point to: a file, a directory, nothing
        if nd['k'] == 'lf':
            with open(link_target(nd['p'], cd.out), 'w') as fh:
                fh.write('7')
        elif nd['k'] == 'ld':
            os.mkdir(link_target(nd['p'], cd.out))
    before = inproc.tree_snapshot(cd.home), inproc.tree_snapshot(cd.out)
    r = inproc.run_main(['--keep', 'c.case'], cd)
    after = inproc.tree_snapshot(cd.home), inproc.tree_snapshot(cd.out)
    sds = r['stdout'].strip()
    act = user_tmp = None
    if sds and os.path.isdir(os.path.join(sds, 'act')):
        act = {k: v.replace(cd.out, OUT) for k, v in inproc.tree_snapshot(os.path.join(sds, 'act')).items()}
        user_tmp = sorted(os.listdir(os.path.join(sds, 'tmp')))
    return dict(verdict=_ident(r, True), exit=r['exit'], act=act, user_tmp=user_tmp, sandboxes=len(cd.sandboxes()),
                home_changed=before[0] != after[0], tmp_entries=len(os.listdir(cd.tmp)),
                out_changed=sorted(k for k in set(before[1]) | set(after[1]) if before[1].get(k) != after[1].get(k)),
                stderr=r['stderr'][:600].replace(cd.out, OUT), text=text.replace(cd.out, OUT),
                cpu=time.process_time() - c0)


def exec_tree(task, cd):
    """One tree scenario: build the tree, run the probes.  Result: {probe index: verdict}."""
    from harness import inproc
    c0 = time.process_time()
    sc = task['sc']
    sctext = text_of_name(sc)
    make_tree(sc['nodes'], sctext, cd.home, os.path.join(cd.root, 'ext'))
    probes = sc['probes']
    only = task.get('only')
    idx = [i for i in range(len(probes)) if probes[i]['exp'] != 'U' and (only is None or i in only)]
    obs, detail = {}, {}
    mp = inproc.default_main_program()

    def run(text, tag):
        cd.write({'c.case': text})
        r = inproc.run_main(['c.case'], cd, main_program=mp)
        v = _ident(r, False)
        return v, r

    batch = [i for i in idx if probes[i]['exp'] in 'TF'] if (sc['kind'] == 'dir-contents' and not task.get('direct')) else []
    batched_ok = False
    if len(batch) > 1:
        v, r = run('[assert]\n' + ''.join(probe_line(sc, probes[i], True) + '\n' for i in batch), 'b')
        batched_ok = v == 'PASS'
        if not batched_ok:
            detail['batch'] = dict(verdict=v, stderr=r['stderr'][:400])
    for i in idx:
        if batched_ok and i in batch:
            obs[i] = VERDICT[probes[i]['exp']]
            continue
        line = probe_line(sc, probes[i], False)
        v, r = run('[assert]\n' + line + '\n', 's')
        obs[i] = v
        if v != VERDICT[probes[i]['exp']]:
            detail[i] = dict(line=line, stderr=r['stderr'][:600])
    return dict(obs=obs, batched=batched_ok, detail=detail, sandboxes=len(cd.sandboxes()),
                cpu=time.process_time() - c0)


# ------------------------------------------------------------------------------------------------------------
# comparison (pure functions of TLC's record and the observation)
# ------------------------------------------------------------------------------------------------------------
def broken(o):
    return o is None or o.get('no_termination') or o.get('worker_died') or o.get('harness_exception')


def compare_populate(sc, o):
    if broken(o) or o['verdict'].startswith('EXCEPTION'):
        return 'Terminates/NoEscapingException'
    res = sc['res']
    if o.get('out_changed'):
        return 'NothingOutside: written through a symbolic link of the populated directory: %s' % o['out_changed']
    if o['verdict'] != res:
        if res == 'PASS' and o['verdict'] == 'FAIL':
            return 'PopulateThenMatchRoundTrip: the populated directory does not match the description of the tree'
        return 'PopulateVerdict: %s, specification %s' % (o['verdict'], res)
    if o['home_changed']:
        return 'NothingOutside: the home directory changed'
    if res == 'VALIDATION_ERROR':
        if o['sandboxes'] or o['act'] is not None or o['tmp_entries']:
            return 'InvalidCreatesNothing: something was created'
        return None
    if o['act'] is None:
        return 'NoSandboxKept'
    if o['user_tmp'] or o['tmp_entries'] != 1:
        return 'NothingOutside: tmp %s' % o['user_tmp']
    exp = expected_tree(sc)
    outside = sorted(k for k in o['act'] if k != 'D' and not k.startswith('D/'))
    if outside:
        return 'NothingOutside: %s' % outside
    if sc['exact']:
        if o['act'] != exp:
            return '%s: %s, specification %s' % ('PopulateDenotation' if res == 'PASS' else 'PartialTreeAtHardError',
                                                 sorted(o['act'].items()), sorted(exp.items()))
    else:
        # a clash while copying: what existed before is still there (the rest depends on the iteration order)
        for k, v in exp.items():
            if o['act'].get(k) != v:
                return 'PartialTreeAtHardError: %s lost' % k
    return None


def compare_tree(sc, o):
    """-> list of (probe index, clause)"""
    if broken(o):
        return [(-1, 'Terminates/NoEscapingException')]
    bad = []
    for i, pr in enumerate(sc['probes']):
        if pr['exp'] == 'U':
            continue
        v = o['obs'].get(i, o['obs'].get(str(i)))
        if v is None:
            continue
        if v != VERDICT[pr['exp']]:
            bad.append((i, '%s: %s, specification %s' % (pr['id'], v, VERDICT[pr['exp']])))
    if o.get('sandboxes'):
        bad.append((-1, 'SandboxLeft'))
    return bad


def wrap_name(sc):
    return 'w%d' % sc['wi'] if sc.get('wi') else '-'


def opt_name(o):
    return 'nonrec' if not o['rec'] else 'rec[%s,%s]' % ('' if o['min'] == -1 else o['min'],
                                                           '' if o['max'] == -1 else o['max'])


def tree_name(sc):
    return ' '.join('%s:%s' % (rel_path(n['p'][1:], text_of_name(sc)), n['k']) for n in sc['nodes'] if len(n['p']) > 1)


def register_tree(ctx, sc, o, bad):
    for i, clause in bad[:3]:
        pr = sc['probes'][i] if i >= 0 else None
        sig = 'Tree:%s fam=%s %s %s' % (clause.split(':')[0] if i < 0 else pr['id'] + ' ' + clause.split(': ', 1)[1],
                                        sc['fam'], opt_name(sc['opt']), wrap_name(sc))
        ctx.fail(sig, dict(kind='tree', sc=sc, probe=i, clause=clause, tree=tree_name(sc),
                           line=probe_line(sc, pr, False) if pr else None,
                           observed=dict(obs=o.get('obs') if o else None, detail=(o or {}).get('detail'))))


def register_populate(ctx, sc, o, clause):
    top = sc['top'][0]
    sig = 'Populate:%s fam=%s top=%s/%s/%s' % (clause.split(':')[0], sc['fam'], top['mod'], top['src'],
                                               'pre' if sc['pre'] else 'new')
    ctx.fail(sig, dict(kind='populate', sc=sc, clause=clause, text=populate_text(sc), observed=o))


# ------------------------------------------------------------------------------------------------------------
def tlc_parallel(ctx, jobs, threads):
    """jobs: list of kwargs for ctx.tlc (plus 'module', 'cfg'); run concurrently."""
    def one(j):
        j = dict(j)
        return ctx.tlc(j.pop('module'), j.pop('cfg'), **j)
    with ThreadPoolExecutor(threads) as ex:
        return list(ex.map(one, jobs))


def random_given(rnd, n, n_wraps):
    """Inputs only (trees x options x wrap index) beyond the exhaustive bounds; TLC computes the expectations."""
    kinds_leaf = ['f', 'g', 'd', 'lf', 'ld', 'lb']
    out = []
    for _ in range(n):
        budget = rnd.randint(4, 9)
        nodes = []

        def fill(prefix, depth):
            nonlocal budget
            names = [1, 2, 3]
            rnd.shuffle(names)
            for nm in names[:rnd.randint(1, 3)]:
                if budget <= 0:
                    return
                budget -= 1
                p = prefix + [nm]
                if depth < 4 and rnd.random() < 0.5:
                    nodes.append(dict(p=p, k=rnd.choice(['d', 'd', 'ld'])))
                    if rnd.random() < 0.85:
                        fill(p, depth + 1)
                else:
                    nodes.append(dict(p=p, k=rnd.choice(kinds_leaf)))
        fill([D_NAME], 1)
        if rnd.random() < 0.15:
            o = dict(rec=False, min=-1, max=-1)
        else:
            o = dict(rec=True, min=rnd.choice([-1, -1, 0, 1, 2, 3, 4]), max=rnd.choice([-1, -1, 0, 1, 2, 3, 4]))
        out.append(dict(nodes=nodes, opt=o, wi=rnd.randint(1, n_wraps)))
    return out


LIST_NAMES = [[1], [2], [3], [1, 2], [2, 3], [3, 1], [1, 2, 3]]
BAD_NAMES = [[], [0], [0, 1], [1, 0, 2], [9, 1], [2, 0]]


def random_lists(rnd, n):
    """FILE-LISTs beyond the exhaustive bound: 4..8 entries, three levels, more names.  The generator keeps a rough
    picture of what exists only to choose entries that have a chance to work; what they denote is TLC's business."""
    out = []
    for _ in range(n):
        budget = [rnd.randint(4, 8)]
        files, dirs = set(), {()}

        def pick(base, want, pool):
            cands = [nm for nm in LIST_NAMES if (tuple(base + nm) in pool) == want]
            return rnd.choice(cands) if cands and rnd.random() < 0.85 else rnd.choice(LIST_NAMES)

        def note_parents(p):
            for k in range(1, len(p)):
                dirs.add(tuple(p[:k]))

        def mk(base, level):
            es = []
            for _ in range(rnd.randint(1, 4)):
                if budget[0] <= 0:
                    break
                budget[0] -= 1
                r = rnd.random()
                if r < 0.4:
                    nm = pick(base, False, files | dirs)
                    es.append(dict(t='file', name=nm, mod=rnd.choice(['none', 'set', 'set']), sub=[]))
                    files.add(tuple(base + nm))
                    note_parents(base + nm)
                elif r < 0.55:
                    es.append(dict(t='file', name=pick(base, True, files), mod='app', sub=[]))
                elif r < 0.65:
                    nm = pick(base, False, files | dirs)
                    es.append(dict(t='dir', name=nm, mod='none', src='none', sub=[]))
                    dirs.add(tuple(base + nm))
                    note_parents(base + nm)
                elif r < 0.9:
                    create = rnd.random() < 0.6
                    nm = pick(base, False, files | dirs) if create else pick(base, True, dirs)
                    if create:
                        dirs.add(tuple(base + nm))
                        note_parents(base + nm)
                    sub = mk(base + nm, level + 1) if level < 3 else []
                    es.append(dict(t='dir', name=nm, mod='set' if create else 'app', src='list', sub=sub))
                else:
                    create = rnd.random() < 0.7
                    nm = pick(base, False, files | dirs) if create else pick(base, True, dirs)
                    es.append(dict(t='dir', name=nm, mod='set' if create else 'app', src='copy', sub=[]))
                    if create:
                        dirs.update({tuple(base + nm), tuple(base + nm + [2])})
                        files.update({tuple(base + nm + [1]), tuple(base + nm + [2, 1])})
                        note_parents(base + nm)
                e = es[-1]
                if e['t'] == 'file':
                    e['src'] = 'none' if e['mod'] == 'none' else 'text'
                if rnd.random() < 0.02:
                    e['name'] = rnd.choice(BAD_NAMES)
            return es
        sub = mk([], 1)
        pre = rnd.random() < 0.15
        out.append(dict(top=dict(t='dir', name=[D_NAME], mod='app' if pre else 'set', src='list', sub=sub), pre=pre))
    return out


def nontrivial_key(sc):
    if sc['fam'] in ('populate', 'invalid'):
        return 'P|' + populate_text(sc)
    return '%s|%s|%s|%s|%s' % (sc['fam'], tree_name(sc), opt_name(sc['opt']), wrap_name(sc),
                               rel_path(sc['rel'], text_of_name(sc)))


def is_nontrivial(sc):
    if sc['fam'] == 'populate':
        return sc['res'] != 'PASS' or len(sc['nodes']) > 2
    if sc['fam'] in ('match', 'given'):
        return len(sc['nodes']) > 1 and (sc['opt']['rec'] or sc['wi'] > 1)
    return True


def exec_loop(task, cd):
    """the tree of spec/LoopTree.tla (a link that leads back to the root) and the four counts of one (n, m)"""
    from harness import inproc
    d = os.path.join(cd.home, 'D')
    os.makedirs(os.path.join(d, 's'))
    with open(os.path.join(d, 'a'), 'w') as fh:
        fh.write('x\n')
    os.symlink('..', os.path.join(d, 's', 'up'))
    r = task['rec']
    opt = '-recursive -min-depth %d -max-depth %d' % (r['n'], r['m'])
    lines = ['[assert]',
             'dir-contents -rel-home D : %s num-files == %d' % (opt, r['all'] + (1 if task.get('wrong') else 0)),
             'dir-contents -rel-home D : %s -selection type file num-files == %d' % (opt, r['files']),
             'dir-contents -rel-home D : %s -selection type dir num-files == %d' % (opt, r['dirs']),
             'dir-contents -rel-home D : %s -selection type symlink num-files == %d' % (opt, r['links'])]
    cd.write({'c.case': '\n'.join(lines) + '\n'})
    o = inproc.run_main(['c.case'], cd)
    return dict(exit=o['exit'], exception=o['exception'], ident=(o['stdout'].splitlines() or [''])[0],
                stderr=o['stderr'][:600], text='\n'.join(lines))


def check_loop_tree(ctx):
    """a symbolic link back to a directory on the path from the root: the unfolding down to -max-depth"""
    depth = 4 if ctx.tier == 'quick' else 6
    res = ctx.tlc('LoopTree', 'SPECIFICATION Spec\nCONSTANT MaxDepth = %d\nINVARIANT BreadthFirst\nINVARIANT WithinLimit\n'
                              'INVARIANT Alternates\nINVARIANT Export\nCHECK_DEADLOCK FALSE\n' % depth,
                  workers=1, name='mc-loop-tree', coverage=True)
    ctx.require_coverage(res, ['Visit'])
    recs = res.printed_json('LOOP')
    if len(recs) != (depth + 1) * (depth + 2) // 2:
        raise core.MachineryFailure('LoopTree exported %d records' % len(recs))
    tasks = [dict(rec=r) for r in recs] + [dict(rec=recs[-1], wrong=True)]
    with ctx.pool(workers=8) as pool:
        obs = pool.map('harness.props.c15:exec_loop', tasks, deadline=60, chunk=2)
    bad = 0
    for t, o in zip(tasks, obs):
        ctx.count()
        ctx.nontrivial('loop:%d:%d' % (t['rec']['n'], t['rec']['m']))
        if t.get('wrong'):
            if o.get('ident') != 'FAIL':
                raise core.MachineryFailure('negative control (loop tree): a wrong count was not refuted: %s' % o)
            ctx.cov['negative_controls_rejected'] += 1
        elif o.get('exit') != 0 or o.get('ident') != 'PASS':
            bad += 1
            ctx.fail('Tree:loop-link -min-depth %d -max-depth %d' % (t['rec']['n'], t['rec']['m']),
                     dict(kind='loop', task=t, observed=o))
    ctx.cov['traces_validated_against_impl'] += len(tasks)
    ctx.cov.setdefault('replay', {})['a link back to the root, unfolded to -max-depth'] = dict(cases=len(tasks), disagreements=bad)


def run(ctx):
    quick = ctx.tier == 'quick'
    check_loop_tree(ctx)
    consts = dict(QUICK if quick else THOROUGH)
    consts['ListPick'] = ctx.seed % consts['ListMod']      # which slice of the longest lists
    consts['ExtraPick'] = ctx.seed % consts['ExtraMod']    # ... and of the biggest trees
    nshards = 12 if quick else 16
    t0 = time.time()
    jobs = [dict(module='DirTree', cfg=cfg(COVERAGE, ALL_FAMILIES, INVARIANTS), coverage=True, name='mc-coverage',
                 workers=4, count=False),
            # every order in which the entries of a directory can be visited (small trees)
            dict(module='DirTree', cfg=cfg(dict(COVERAGE, MaxNodes=3, LeafKinds=['f', 'd', 'ld'] if quick else
                                                ['f', 'd', 'ld', 'lb']),
                                           ['match'], ['GeneratorIsReference', 'GeneratorSound', 'BreadthFirst'],
                                           any_order=True), name='mc-anyorder', workers=2, count=False),
            # model-level negative control: without the validation of names the step machine escapes
            dict(module='DirTree', cfg=cfg(COVERAGE, ['invalid'], ['NothingOutside'],
                                           deviations=['NoNameValidation']), name='mc-deviation', workers=1,
                 count=False, must_hold=False),
            # ... and a clash check that follows symbolic links writes through a dangling link
            dict(module='DirTree', cfg=cfg(COVERAGE, ['populate'], ['NothingOutside'],
                                           deviations=['CopyClashFollowsLinks']), name='mc-deviation-links', workers=1,
                 count=False, must_hold=False)]
    for s in range(nshards):
        jobs.append(dict(module='DirTreeExport', cfg=cfg(consts, ALL_FAMILIES, INVARIANTS + ['Export'], nshards, s),
                         workers=1, name='export-%d' % s, heap='3g', timeout=3000, java_props=GC))
    results = tlc_parallel(ctx, jobs, threads=16)
    mc, anyorder, shards = results[0], results[1], results[4:]
    ctx.require_coverage(mc, ACTIONS)
    for dev, name in ((results[2], 'NoNameValidation'), (results[3], 'CopyClashFollowsLinks')):
        if dev.violated != 'NothingOutside':
            raise core.MachineryFailure('model-level negative control: with Deviations = {%s} TLC must report '
                                        'NothingOutside violated, it reports %s' % (name, dev.violated))
        ctx.cov['negative_controls_rejected'] += 1
    scs = []
    for r in shards:
        scs += cases_of(r)
    t_tlc = time.time() - t0
    by_fam = {}
    for sc in scs:
        by_fam.setdefault(sc['fam'], []).append(sc)
    for f in ALL_FAMILIES:
        if not by_fam.get(f):
            raise core.MachineryFailure('vacuity: TLC exported no scenario of family %s' % f)
    given, given_pop = [], []
    if not quick:
        given, given_pop = given_scenarios(ctx, consts, N_GIVEN_TREES, N_GIVEN_LISTS)
        by_fam['given'] = given
        by_fam['givenlist'] = given_pop

    # ---- replay -----------------------------------------------------------------------------------------------
    rnd = random.Random(ctx.seed)
    pop = by_fam['populate'] + by_fam['invalid'] + given_pop
    trees = by_fam['match'] + by_fam['exists'] + by_fam['names'] + given
    direct_rate = 0.04 if quick else 0.03
    tree_tasks = []
    for sc in trees:
        t = dict(sc=sc, direct=(sc['kind'] == 'dir-contents' and rnd.random() < direct_rate))
        if quick and sc['fam'] == 'match':
            # quick tier: the probes that pin down the set of files always, a seeded third of the others
            t['only'] = [i for i, p in enumerate(sc['probes']) if p['id'] in ALWAYS or rnd.random() < 1 / 3]
        tree_tasks.append(t)
    t1 = time.time()
    with ctx.pool() as pool:
        pop_obs = pool.map('harness.props.c15:exec_populate', [dict(sc=sc) for sc in pop], deadline=120, chunk=24)
        tree_obs = pool.map('harness.props.c15:exec_tree', tree_tasks, deadline=180, chunk=8)
        controls = end_to_end_controls(ctx, pool, by_fam, rnd)
    t_replay = time.time() - t1

    cpu = {}
    for sc, o in list(zip(pop, pop_obs)) + [(t['sc'], o) for t, o in zip(tree_tasks, tree_obs)]:
        if not broken(o):
            cpu[sc['fam']] = cpu.get(sc['fam'], 0) + o.get('cpu', 0)
    stats = dict(scenarios={f: len(v) for f, v in by_fam.items()}, worker_cpu_s={f: round(v, 1) for f, v in cpu.items()},
                 probes=0, probes_not_replayed=0, probes_unspecified=0, probes_single=0,
                 probes_batched=0, populate_by_result={}, probe_verdicts={}, disagreements=0)
    for sc, o in zip(pop, pop_obs):
        ctx.count()
        stats['populate_by_result'][sc['res']] = stats['populate_by_result'].get(sc['res'], 0) + 1
        if is_nontrivial(sc):
            ctx.nontrivial(nontrivial_key(sc))
        clause = compare_populate(sc, o)
        if clause:
            stats['disagreements'] += 1
            register_populate(ctx, sc, o, clause)
    for t, o in zip(tree_tasks, tree_obs):
        sc = t['sc']
        chosen = [p for i, p in enumerate(sc['probes']) if t.get('only') is None or i in t['only']]
        stats['probes_not_replayed'] += len(sc['probes']) - len(chosen)
        n_u = sum(1 for p in chosen if p['exp'] == 'U')
        stats['probes_unspecified'] += n_u
        n = len(chosen) - n_u
        stats['probes'] += n
        ctx.count(n)
        for p in chosen:
            stats['probe_verdicts'][p['exp']] = stats['probe_verdicts'].get(p['exp'], 0) + 1
        if not broken(o):
            nb = sum(1 for p in chosen if p['exp'] in 'TF') if o['batched'] else 0
            stats['probes_batched'] += nb
            stats['probes_single'] += n - nb
        if is_nontrivial(sc):
            ctx.nontrivial(nontrivial_key(sc))
        bad = compare_tree(sc, o)
        if bad:
            stats['disagreements'] += 1
            register_tree(ctx, sc, o, bad)
    ctx.cov['traces_validated_against_impl'] += len(pop) + len(trees)
    if stats['probes_single'] < 200 or stats['probes_batched'] < 200:
        raise core.MachineryFailure('vacuity: too few probes replayed: %s' % stats)
    for want in ('PASS', 'HARD_ERROR', 'VALIDATION_ERROR'):
        if not stats['populate_by_result'].get(want):
            raise core.MachineryFailure('vacuity: no FILE-LIST with result %s' % want)
    pre_kinds = {}
    for sc in pop:
        for nd in sc.get('init') or []:
            if tuple(nd['p']) != (D_NAME, 3) and sc['res'] == 'HARD_ERROR':
                k = '%s %s' % (nd['k'], 'clash while copying' if not sc['exact'] else 'entry fails')
                pre_kinds[k] = pre_kinds.get(k, 0) + 1
    stats['pre_existing_hard_errors'] = pre_kinds
    for kd in ('f', 'd', 'lf', 'ld', 'lb'):
        for how in ('clash while copying', 'entry fails'):
            if not pre_kinds.get('%s %s' % (kd, how)):
                raise core.MachineryFailure('vacuity: no scenario in which an existing %s entry makes the instruction fail '
                                            '(%s)' % (kd, how))
    for want in 'TFH':
        if not stats['probe_verdicts'].get(want):
            raise core.MachineryFailure('vacuity: no probe with verdict %s' % want)

    negative_controls(ctx, pop, pop_obs, tree_tasks, tree_obs, controls)

    stats['wall'] = dict(tlc=round(t_tlc, 1), replay=round(t_replay, 1))
    ctx.cov['replay'] = stats
    ctx.cov['constants'] = dict(coverage_run=COVERAGE, checked_and_exported=consts)
    samples(ctx, pop, pop_obs, tree_tasks, tree_obs)
    ctx.cov['exhaustive'] = True
    ctx.cov['rule'] = (
        'exhaustive within the constants (scenarios are enumerated and judged by TLC, all of them are replayed): '
        'every FILE-LIST with <= %d entries (nested entries counted; of those with exactly %d entries the slice '
        'hash %% %d = %d; of the failing ones those with <= %d entries after the failing entry) over the names a, b, a/b '
        'x {file, file =, file +=, dir, dir = {..}, dir += {..}, dir (=|+=) dir-contents-of}, the other forms of the '
        'instruction (+= on an existing / missing directory, = on an existing one), %d scenarios that populate a '
        'directory already holding a file, a directory, a link to a file / to a directory or a dangling link with the '
        'name of what is created (dir-contents-of, file n, dir n; directly and nested), 288 lists with an invalid name '
        '(empty, .., ../a, a/.., a/../b, /a; alone, before / after working and failing entries, nested); every tree '
        'with <= %d nodes over %d names, %d levels, kinds %s%s x (non-recursive + every (min, max) up to one more than '
        'the depth of the tree) on the plain model, and 3..8 option sets x %d pruning/selection combinations (nested '
        'both ways), 17..30 probes each%s; `exists` on 10 trees x 3 paths x 18 matchers x negation; file names over '
        '{a, b, .} up to length %d x 4 name parts x (2 literal regex + 11 glob patterns)%s.  Non-trivial = FILE-LIST that '
        'fails or builds more than one file; tree scenario with a non-empty tree and -recursive or pruning/selection; '
        'every exists / names scenario; distinct by text.'
        % (consts['MaxEntries'], consts['MaxEntries'], consts['ListMod'], consts['ListPick'], consts['MaxTail'],
           sum(1 for sc in by_fam['populate'] if sc.get('init')), consts['MaxNodes'], consts['NN'], consts['MaxLevels'], consts['LeafKinds'],
           (' + the slice index %% %d = %d of the trees with %d nodes' % (consts['ExtraMod'], consts['ExtraPick'],
                                                                        consts['ExtraNodes'])
            if consts['ExtraNodes'] else ''),
           len(set(sc['wi'] for sc in by_fam['match'])) - 1,
           ' (quick tier: the probes full, num, empty of every scenario and a seeded third of the others are replayed)'
           if quick else '', consts['MaxNameLen'],
           '' if quick else '; plus %d seeded random trees (3 names, <= 9 nodes, 4 levels, limits up to 4) and %d '
                            'seeded random FILE-LISTs (4..8 entries, 3 levels, 7 names) whose expectations are '
                            'computed by TLC (families "given", "givenlist")' % (len(given), len(given_pop))))
    ctx.assumptions += [
        'file names are the single characters a, b, c (trees) and texts over {a, b, .} (names family); file contents are '
        'short digit strings; FILE-LIST texts are the ordinal of the entry',
        'probes whose verdict depends on the order in which the entries of a directory are visited (value U: a '
        'HARD_ERROR matcher and a deciding file in the same set) are not compared: %d of %d'
        % (stats['probes_unspecified'], stats['probes'] + stats['probes_unspecified']),
        'T / F probes of one scenario are first run as one test case of instructions that must all pass (m or ! m); '
        'only if that case passes are they taken as observed = expected; %d probes were (also) run on their own, '
        'un-negated' % stats['probes_single'],
        'pruning and selection matchers are taken from families that never give HARD_ERROR where they are applied '
        '(invariant WrapsDefined); the tree left behind by a HARD_ERROR of a FILE-LIST is compared with the fold of the '
        'entries before the failing one, except after a clash inside dir-contents-of (iteration order of the source)',
        'a directory that is populated while it already has contents gets them from one shell command in [setup] '
        '(mkdir, : >, ln -s); link targets are absolute paths into a directory of the task outside the sandbox that is '
        'compared before / after; += through a link to an EXISTING file or directory is not explored',
        'symbolic links: to a regular file, to a directory outside the tree (with contents), broken; no link cycles; '
        'the model checking run with per-action coverage uses smaller constants (%s) than the runs that check the '
        'invariants and export (TLC\'s coverage mode is several times slower)' % json.dumps(COVERAGE),
    ]


def given_scenarios(ctx, consts, n_trees, n_lists):
    """Randomised tier: inputs from a seeded generator, expectations from TLC (families "given", "givenlist")."""
    rnd = random.Random(ctx.seed * 7919 + 15)
    n_wraps = 18 if consts['WrapLevel'] >= 2 else 8
    path = os.path.join(ctx.scratch, 'given.ndjson')
    with open(path, 'w') as fh:
        for g in random_given(rnd, n_trees, n_wraps):
            fh.write(json.dumps(g) + '\n')
    lpath = os.path.join(ctx.scratch, 'given-lists.ndjson')
    with open(lpath, 'w') as fh:
        for g in random_lists(rnd, n_lists):
            fh.write(json.dumps(g) + '\n')
    nsh = 16
    jobs = [dict(module='DirTreeExport', cfg=cfg(dict(consts, NN=3, MaxLevels=4), ['given', 'givenlist'],
                                                 INVARIANTS + ['Export'], nsh, s), workers=1,
                 name='given-%d' % s, heap='3g', env={'VERIF_GIVEN': path, 'VERIF_GIVEN_LISTS': lpath}, timeout=3000,
                 java_props=GC) for s in range(nsh)]
    out = []
    for r in tlc_parallel(ctx, jobs, threads=16):
        out += cases_of(r)
    trees = [sc for sc in out if sc['fam'] == 'given']
    lists = [sc for sc in out if sc['fam'] == 'populate']
    if len(trees) != n_trees or len(lists) != n_lists:
        raise core.MachineryFailure('randomised tier: %d + %d scenarios given to TLC, %d + %d judged'
                                    % (n_trees, n_lists, len(trees), len(lists)))
    return trees, lists


def end_to_end_controls(ctx, pool, by_fam, rnd):
    """Negative controls through the whole path: the expectation of one probe is inverted BEFORE the run (the batched
    case must then fail, the probes are run on their own and the comparison must name exactly that probe); and a
    FILE-LIST is run with one more entry in the text."""
    cands = [sc for sc in by_fam['match'] if sum(1 for p in sc['probes'] if p['exp'] in 'TF') > 3 and len(sc['nodes']) > 2]
    picks = rnd.sample(cands, min(24, len(cands)))
    tasks, flipped = [], []
    for sc in picks:
        sc2 = json.loads(json.dumps(sc))
        tf = [i for i, p in enumerate(sc2['probes']) if p['exp'] in 'TF']
        i = rnd.choice(tf)
        sc2['probes'][i]['exp'] = 'F' if sc2['probes'][i]['exp'] == 'T' else 'T'
        tasks.append(dict(sc=sc2, direct=False, orig=sc))
        flipped.append(i)
    obs = pool.map('harness.props.c15:exec_tree', [dict(sc=t['sc'], direct=False) for t in tasks], deadline=180, chunk=2)
    pops = [sc for sc in by_fam['populate'] if sc['res'] == 'PASS' and len(sc['top'][0]['sub']) >= 2
            and sc['top'][0]['src'] == 'list']
    ppicks = rnd.sample(pops, min(12, len(pops)))
    ptasks = []
    for sc in ppicks:
        # one more entry in the text than in the list TLC judged (a file that nothing else names)
        sc2 = json.loads(json.dumps(sc))
        sc2['top'][0]['sub'].append(dict(t='file', name=[5], mod='none', src='none', sub=[]))
        ptasks.append(dict(sc=sc, text=populate_text(sc2)))
    pobs = pool.map('harness.props.c15:exec_populate', ptasks, deadline=120, chunk=2)
    return dict(tree=(tasks, flipped, obs), populate=(ptasks, pobs))


def negative_controls(ctx, pop, pop_obs, tree_tasks, tree_obs, controls):
    rnd = random.Random(ctx.seed + 1)
    tried = rejected = 0
    # (1) corrupted observations / expectations of FILE-LISTs
    ok_idx = [j for j, (sc, o) in enumerate(zip(pop, pop_obs)) if not broken(o) and compare_populate(sc, o) is None
              and sc['exact']]
    for j in rnd.sample(ok_idx, min(60, len(ok_idx))):
        sc, o = pop[j], json.loads(json.dumps(pop_obs[j]))
        m = tried % 6
        if m == 5:
            o['out_changed'] = ['t-a']
        elif m == 0:
            o['verdict'] = 'PASS' if sc['res'] != 'PASS' else 'HARD_ERROR'
        elif m == 1:
            if not o['act'] or len(o['act']) < 2:
                continue
            del o['act'][sorted(o['act'])[-1]]
        elif m == 2:
            if o['act'] is None:
                o['sandboxes'] = 1
            else:
                o['act']['escaped'] = 'f:'
        elif m == 3:
            files = [k for k, v in (o['act'] or {}).items() if v.startswith('f:')]
            if not files:
                continue
            o['act'][files[0]] += '9'
        else:
            sc = json.loads(json.dumps(sc))          # corrupt the expectation instead
            if len(sc['nodes']) < 2:
                continue
            sc['nodes'] = sc['nodes'][:-1]
        tried += 1
        rejected += compare_populate(sc, o) is not None
    # (2) corrupted observations / expectations of probes
    ok_idx = [j for j, (t, o) in enumerate(zip(tree_tasks, tree_obs)) if not broken(o) and not compare_tree(t['sc'], o)
              and o['obs']]
    for j in rnd.sample(ok_idx, min(60, len(ok_idx))):
        sc, o = tree_tasks[j]['sc'], json.loads(json.dumps(tree_obs[j]))
        k = rnd.choice(sorted(o['obs'], key=int))
        if tried % 2:
            o['obs'][k] = 'FAIL' if o['obs'][k] != 'FAIL' else 'PASS'
        else:
            sc = json.loads(json.dumps(sc))
            e = sc['probes'][int(k)]['exp']
            sc['probes'][int(k)]['exp'] = 'F' if e != 'F' else 'T'
        tried += 1
        bad = compare_tree(sc, o)
        rejected += bool(bad) and bad[0][0] == int(k)
    # (3) end to end: inverted expectation before the run; one more entry in the text
    #     (only scenarios on which the program agreed with the specification in the main run can serve as controls)
    clean_trees = set(id(t['sc']) for t, o in zip(tree_tasks, tree_obs) if not broken(o) and not compare_tree(t['sc'], o))
    clean_pops = set(id(sc) for sc, o in zip(pop, pop_obs) if not broken(o) and compare_populate(sc, o) is None)
    tasks, flipped, obs = controls['tree']
    for t, i, o in zip(tasks, flipped, obs):
        if id(t['orig']) not in clean_trees or broken(o) or i in [b[0] for b in compare_tree(t['orig'], o)]:
            continue        # the program itself disagrees with the specification on this probe: not a control
        tried += 1
        rejected += i in [b[0] for b in compare_tree(t['sc'], o)] and not o['batched']
    ptasks, pobs = controls['populate']
    for t, o in zip(ptasks, pobs):
        if id(t['sc']) not in clean_pops:
            continue
        tried += 1
        rejected += compare_populate(t['sc'], o) is not None
    if tried != rejected or tried < 50:
        msg = 'negative controls: %d of %d corrupted cases rejected' % (rejected, tried)
        if not ctx.violations:
            raise core.MachineryFailure(msg)
        ctx.note(msg + ' (the program violates the property in this run; controls are taken from agreeing cases)')
    ctx.cov['negative_controls_rejected'] += rejected


def samples(ctx, pop, pop_obs, tree_tasks, tree_obs):
    def first(seqs, pred):
        for x in seqs:
            if pred(x):
                return x
        return None
    for pred in (lambda x: x[0]['res'] == 'PASS' and len(x[0]['nodes']) >= 4,
                 lambda x: x[0]['res'] == 'HARD_ERROR' and len(x[0]['nodes']) >= 3,
                 lambda x: x[0]['res'] == 'VALIDATION_ERROR'):
        x = first(zip(pop, pop_obs), pred)
        if x:
            sc, o = x
            ctx.sample(dict(family=sc['fam'], case=populate_text(sc), expected=dict(verdict=sc['res'],
                                                                                    tree=expected_tree(sc)),
                            observed=dict(verdict=o.get('verdict'), tree=o.get('act'))), limit=9)
    for pred in (lambda x: x[0]['sc']['fam'] == 'match' and x[0]['sc']['wi'] == 7 and len(x[0]['sc']['files']) >= 2
                 and x[0]['sc']['opt']['rec'] and len(x[0]['sc']['files']) < len(x[0]['sc']['nodes']) - 1,
                 lambda x: x[0]['sc']['fam'] == 'match' and x[0]['sc']['wi'] == 1 and x[0]['sc']['opt']['min'] == 1
                 and x[0]['sc']['opt']['max'] == 1 and len(x[0]['sc']['files']) >= 1 and len(x[0]['sc']['nodes']) >= 4,
                 lambda x: x[0]['sc']['fam'] == 'exists' and len(x[0]['sc']['nodes']) >= 3,
                 lambda x: x[0]['sc']['fam'] == 'names' and len(x[0]['sc']['text']) >= 3,
                 lambda x: x[0]['sc']['fam'] == 'given'):
        x = first(zip(tree_tasks, tree_obs), pred)
        if x and not broken(x[1]):
            sc, o = x[0]['sc'], x[1]
            ps = [dict(instruction=probe_line(sc, p, False), expected=VERDICT.get(p['exp'], 'unspecified'),
                       observed=o['obs'][i]) for i, p in enumerate(sc['probes']) if i in o['obs']]
            ctx.sample(dict(family=sc['fam'], tree=tree_name(sc), files_of_model=[rel_path(r) for r in sc['files']],
                            probes=ps[:5] + ps[-2:]), limit=9)


def replay(ctx, rec):
    r = rec['record']
    if r.get('kind') == 'loop':
        with ctx.pool(workers=1) as pool:
            o = pool.map('harness.props.c15:exec_loop', [r['task']], deadline=60)[0]
        print(json.dumps(dict(task=r['task'], observed=o), indent=1))
        if o.get('exit') != 0 or o.get('ident') != 'PASS':
            print('VIOLATION property=C15 replay=(given)')
            return 1
        return 0
    sc = r['sc']
    with ctx.pool(workers=1) as pool:
        if r['kind'] == 'populate':
            o = pool.map('harness.props.c15:exec_populate', [dict(sc=sc)], deadline=120)[0]
            clause = compare_populate(sc, o)
            print(json.dumps(dict(case=populate_text(sc), expected=dict(verdict=sc['res'], tree=expected_tree(sc)),
                                  observed=o, clause=clause), indent=1))
            bad = bool(clause)
        else:
            only = [r['probe']] if r.get('probe', -1) >= 0 else None
            o = pool.map('harness.props.c15:exec_tree', [dict(sc=sc, direct=True, only=only)], deadline=180)[0]
            res = compare_tree(sc, o)
            print(json.dumps(dict(tree=tree_name(sc), instruction=r.get('line'), observed=o,
                                  disagreements=[c for _, c in res]), indent=1))
            bad = bool(res)
    if bad:
        print('VIOLATION property=C15 replay=(given)')
        return 1
    return 0
