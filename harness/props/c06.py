"""C06  Expression grammar: precedence, associativity, parentheses, layout, laziness.

spec/ExprGrammar.tla is the documented grammar as recursive descent over token strings with line breaks, lazy
evaluation with a log, and renderings of trees in several layouts.  TLC (a) enumerates EVERY token string up to a
bound - well-formed or not - with its denotation under both readings of the unspecified line breaks, (b) builds
every tree up to a bound, renders it in six layouts and checks that each parses back (RoundTrip).  Every string
and rendering is executed in each host type that uses the grammar (integer, file, text, files, line matchers) and
the verdict compared; laziness is observed with `run` primitives that log their evaluation.
"""
import json
import os
import random

from harness import core

HOSTS = {
    # name: (template with %s, leaves)
    # ('P': the primitive without its argument - see ExportNear)
    'integer': ('[assert]\nexit-code %s\n', {'T': '== 0', 'F': '!= 0', 'P': '=='}, {}),
    'file': ('[setup]\nfile f\n[assert]\nexists f : %s\n', {'T': 'constant true', 'F': 'constant false', 'P': 'name'}, {}),
    'text': ('[assert]\ncontents -rel-home one.txt : %s\n', {'T': 'num-lines >= 0', 'F': 'num-lines < 0', 'P': 'num-lines'}, {}),
    'files': ('[setup]\ndir d\n[assert]\ndir-contents d : %s\n', {'T': 'num-files == 0', 'F': 'num-files != 0', 'P': 'num-files'}, {}),
    'line': ('[assert]\ncontents -rel-home one.txt : any line : ( %s )\n',
             {'T': 'line-num >= 1', 'F': 'line-num < 1', 'P': 'contents matches'}, {}),
    'line-num': ('[assert]\ncontents -rel-home one.txt : any line : line-num ( %s )\n',
                 {'T': '>= 1', 'F': '< 1', 'P': '>='}, {}),
    # primitives whose argument is a REGEX (a string: a reserved word is not one)
    'text+regex': ('[assert]\ncontents -rel-home one.txt : %s\n', {'T': "matches 'o'", 'F': "matches 'O'", 'P': 'matches'}, {}),
}
# a primitive whose argument is an expression itself (an INTEGER-MATCHER): the argument may begin on the next line
for _h, _name in (('text', 'num-lines'), ('files', 'num-files'), ('line', 'line-num')):
    HOSTS[_h + '+split'] = (HOSTS[_h][0], {k: v.replace(_name + ' ', _name + '\n    ') for k, v in HOSTS[_h][1].items()}, {})
SPLIT_HOSTS = [h for h in HOSTS if h.endswith('+split')]
# quantifier hosts: "Q" is a quantifier over a collection of exactly ONE element (one line / one file)
_CONST = {'T': 'constant true', 'F': 'constant false'}
for _n, _tmpl, _q in (('text/any line', '[assert]\ncontents -rel-home one.txt : %s\n', 'any line :'),
                      ('text/every line', '[assert]\ncontents -rel-home one.txt : %s\n', 'every line :'),
                      ('files/any file', '[setup]\ndir d\nfile d/f\n[assert]\ndir-contents d : %s\n', 'any file :'),
                      ('files/every file', '[setup]\ndir d\nfile d/f\n[assert]\ndir-contents d : %s\n', 'every file :')):
    HOSTS[_n] = (_tmpl, dict(_CONST, Q=_q), {})
QUANT_HOSTS = [h for h in HOSTS if '/' in h]
# `-transformed-by TRANSFORMER MATCHER`: the operand is a simple expression, applied to the transformed text; the text
# is "only line": T holds of the original only, F of the upper-case text only
HOSTS['text+transformed-by'] = ('[assert]\ncontents -rel-home one.txt : %s\n',
                                {'T': "matches 'o'", 'F': "matches 'O'", 'Q': '-transformed-by char-case -to-upper'}, {})
EXP = {'T': ('PASS', 0), 'F': ('FAIL', 32), 'ERR': ('SYNTAX_ERROR', 65)}


def cfg(mode, max_tokens, invariants, quant=False, deviations=(), qsem='one'):
    return ('SPECIFICATION Spec\nCONSTANTS MaxTokens = %d\n Mode = "%s"\n Quant = %s\n Deviations = {%s}\n QSem = "%s"\n'
            % (max_tokens, mode, 'TRUE' if quant else 'FALSE', ', '.join('"%s"' % d for d in deviations), qsem)
            + ''.join('INVARIANT %s\n' % i for i in invariants) + 'CHECK_DEADLOCK FALSE\n')


def render(ts, leaves):
    out = []
    line = []
    for t in ts:
        if t == 'NL':
            out.append(' '.join(line))
            line = []
        else:
            line.append(leaves.get(t, t))
    out.append(' '.join(line))
    return '\n'.join(out)


def exec_case(task, cd):
    from harness import inproc
    cd.write({'c.case': task['text'], 'one.txt': 'only line\n'})
    if task.get('probe'):
        log = os.path.join(cd.out, 'log')
        cd.write({'probe.sh': '#!/bin/sh\necho "$1" >> %s\nexit $2\n' % log}, mode={'probe.sh': 0o755})
    r = inproc.run_main(['c.case'], cd)
    res = dict(exit=r['exit'], exception=r['exception'], ident=(r['stdout'].splitlines() or [''])[0],
               stderr=r['stderr'][:300])
    if task.get('probe'):
        log = os.path.join(cd.out, 'log')
        res['log'] = [int(x) for x in open(log).read().split()] if os.path.exists(log) else []
    return res


def acceptable(c):
    if 'd' in c:
        return {c['d']['r']}
    return {c['strict']['r'], c['lenient']['r']}


def run_host(ctx, pool, host, cases, label):
    tmpl, leaves, _ = HOSTS[host]
    tasks = [dict(text=tmpl % render(c['ts'], leaves)) for c in cases]
    obs = pool.map('harness.props.c06:exec_case', tasks, deadline=60, chunk=16)
    bad = 0
    div = 0
    for c, t, o in zip(cases, tasks, obs):
        ctx.count()
        acc = acceptable(c)
        if acc != {'ERR'}:
            ctx.nontrivial(host + ':' + ' '.join(c['ts']))
        got = None
        for k, (ident, code) in EXP.items():
            if o.get('exit') == code and o.get('ident') == ident:
                got = k
        if len(acc) == 2:
            div += 1
        if got is None or got not in acc:
            bad += 1
            ctx.fail('%s host=%s tokens=%s' % ('Value' if 'ERR' not in acc else 'MalformedIsError' if acc == {'ERR'}
                                               else 'Value/unspecified-break', host, ' '.join(c['ts'])),
                     dict(kind='expr', host=host, tokens=c['ts'], text=t['text'], acceptable=sorted(acc),
                          observed=dict(exit=o.get('exit'), ident=o.get('ident'), stderr=o.get('stderr'),
                                        other={k: v for k, v in o.items() if k not in ('exit', 'ident', 'stderr')})))
    ctx.cov['traces_validated_against_impl'] += len(cases)
    ctx.cov.setdefault('replay', {})['%s / %s' % (label, host)] = dict(cases=len(cases), disagreements=bad,
                                                                      with_unspecified_break=div)


def lazy_cases(trees):
    """Renderings (minimal layout) whose primitives become logging `run` programs."""
    out = []
    for c in trees:
        if c['layout'] != ['min', 'none'] or c['d']['r'] == 'ERR':
            continue
        leaf_pos = [i + 1 for i, t in enumerate(c['ts']) if t in ('T', 'F')]
        if not (2 <= len(leaf_pos) <= 4):
            continue
        toks = []
        for i, t in enumerate(c['ts']):
            if t in ('T', 'F'):
                k = leaf_pos.index(i + 1) + 1
                toks.append('( run -rel-home probe.sh %d %d )' % (k, 0 if t == 'T' else 1))
            else:
                toks.append(t)
        exp_log = [leaf_pos.index(p) + 1 for p in c['d']['log']]
        out.append(dict(text='[assert]\ncontents -rel-home one.txt : %s\n' % ' '.join(toks), probe=True,
                        exp=c['d']['r'], exp_log=exp_log, ts=c['ts']))
    return out


def lazy_lines_cases(trees, rnd, limit):
    """ONE matcher applied to SEVERAL models, one after the other (the lines of a text under `filter`): pairs of
    trees of the same shape whose leaves have other values; line 1 of the text sees the values of the first tree,
    line 2 those of the second.  Every leaf is a program that logs (leaf number, line) and decides by the line it is
    given: for EVERY line the operands must be evaluated left to right, lazily - the log of each line is the one
    the specification gives for that tree."""
    by_shape = {}
    for c in trees:
        if c['layout'] != ['min', 'none'] or c['d']['r'] == 'ERR':
            continue
        n_leaves = sum(1 for t in c['ts'] if t in ('T', 'F'))
        if not (2 <= n_leaves <= 4):
            continue
        by_shape.setdefault(json.dumps(['L' if t in ('T', 'F') else t for t in c['ts']]), []).append(c)
    pairs = []
    for shape, cs in sorted(by_shape.items()):
        for a in cs:
            for b in cs:
                if a is not b:
                    pairs.append((a, b))
    if len(pairs) > limit:
        pairs = rnd.sample(pairs, limit)
    out = []
    for a, b in pairs:
        leaf_pos = [i + 1 for i, t in enumerate(a['ts']) if t in ('T', 'F')]
        toks = []
        for i, t in enumerate(a['ts']):
            if t in ('T', 'F'):
                k = leaf_pos.index(i + 1) + 1
                toks.append('contents ( run -rel-home lp.sh %d %d %d )' % (k, 0 if t == 'T' else 1,
                                                                         0 if b['ts'][i] == 'T' else 1))
            else:
                toks.append(t)
        exp_log = [[leaf_pos.index(p) + 1, 1] for p in a['d']['log']] + [[leaf_pos.index(p) + 1, 2] for p in b['d']['log']]
        kept = [n for n, c in ((1, a), (2, b)) if c['d']['r'] == 'T']
        out.append(dict(text='[setup]\nfile out.txt = -contents-of -rel-home two.txt -transformed-by filter ( %s )\n'
                             % ' '.join(toks), exp_log=exp_log, kept=kept, ts=[a['ts'], b['ts']]))
    return out


def exec_lines_case(task, cd):
    from harness import inproc
    log = os.path.join(cd.out, 'log')
    cd.write({'c.case': task['text'], 'two.txt': '1\n2\n',
              'lp.sh': '#!/bin/sh\nread line\necho "$1 $line" >> %s\nif [ "$line" = 1 ]; then exit $2; else exit $3; fi\n' % log},
             mode={'lp.sh': 0o755})
    r = inproc.run_main(['--keep', 'c.case'], cd)
    res = dict(exit=r['exit'], exception=r['exception'], ident=(r['stdout'].splitlines() or [''])[0], stderr=r['stderr'][:300],
               log=None, kept=None)
    if os.path.exists(log):
        res['log'] = [[int(x) for x in l.split()] for l in open(log).read().splitlines() if l.strip()]
    else:
        res['log'] = []
    sds = r['stdout'].strip()
    if r['exit'] == 0 and sds and os.path.isdir(sds):
        p = os.path.join(sds, 'act', 'out.txt')
        if os.path.exists(p):
            res['kept'] = [int(x) for x in open(p).read().split()]
    return res


def run(ctx):
    quick = ctx.tier == 'quick'
    ls, lt = (5, 6) if quick else (6, 9)
    mc1 = ctx.tlc('ExprGrammar', cfg('strings', ls + 1, ['LenientExtendsStrict', 'LeftToRight']), coverage=True,
                  name='mc-strings', timeout=3000)
    ctx.require_coverage(mc1, ['Read'])
    mc2 = ctx.tlc('ExprGrammar', cfg('trees', lt + 1, ['RoundTrip']), coverage=True, name='mc-trees', timeout=3000)
    ctx.require_coverage(mc2, ['PushLeaf', 'Negate', 'Combine', 'Finish'])
    e1 = ctx.tlc('ExprGrammarExport', cfg('strings', ls, ['ExportStrings']), workers=1, name='export-strings',
                 count=False, timeout=3000)
    strings = e1.printed_json('STR')
    e2 = ctx.tlc('ExprGrammarExport', cfg('trees', lt, ['ExportTrees']), workers=1, name='export-trees', count=False,
                 timeout=3000)
    trees = {json.dumps(c['ts']): c for c in e2.printed_json('TREE')}
    trees = list(trees.values())
    e3 = ctx.tlc('ExprGrammarExport', cfg('trees', 4 if quick else 7, ['ExportNear']), workers=1, name='export-near-misses',
                 count=False, timeout=3000)
    near = {json.dumps(c['ts']): c for c in e3.printed_json('NEAR') if c['ts'] and c['ts'][-1] != 'NL'}
    near = list(near.values())
    rnd = random.Random(ctx.seed)
    wellformed = [c for c in strings if acceptable(c) != {'ERR'}]
    malformed = [c for c in strings if acceptable(c) == {'ERR'}]
    with ctx.pool() as pool:
        for host in HOSTS:
            if host in QUANT_HOSTS or host == 'text+transformed-by':
                continue
            if host in SPLIT_HOSTS:
                run_host(ctx, pool, host, trees if not quick else rnd.sample(trees, min(len(trees), 1000)),
                         'trees <= %d postfix tokens x layouts, primitives over two lines' % lt)
                continue
            mal = (malformed if host == 'integer' and not quick else
                   rnd.sample(malformed, min(len(malformed), (8000 if host == 'integer' else 1500) if quick else 40000)))
            run_host(ctx, pool, host, wellformed + mal, 'token strings <= %d' % ls)
            tr = trees if not quick or host == 'integer' else rnd.sample(trees, min(len(trees), 1500))
            run_host(ctx, pool, host, tr, 'trees <= %d postfix tokens x layouts' % lt)
        # near misses of well-formed expressions (one token deleted / inserted), in the bare and in a wrapping host
        no_arg = [c for c in near if 'P' in c['ts']]
        rest = [c for c in near if 'P' not in c['ts']]
        if len(no_arg) < 50:
            raise core.MachineryFailure('only %d near misses with a primitive that has lost its argument' % len(no_arg))
        for host in ('integer', 'line-num', 'files'):
            nm = rest if not quick or host == 'integer' else rnd.sample(rest, min(len(rest), 2500))
            run_host(ctx, pool, host, nm, 'near misses')
        for host in ('integer', 'file', 'text', 'files', 'line', 'line-num', 'text+regex'):
            run_host(ctx, pool, host, no_arg if not quick else rnd.sample(no_arg, min(len(no_arg), 600)),
                     'near misses: a primitive without its argument')
        # quantifiers (`every line :` ...) bind like a prefix operator: their operand is a simple expression
        lq = 5 if quick else 6
        mcq = ctx.tlc('ExprGrammar', cfg('strings', lq + 1, ['QuantifierIsPrefixOperator', 'LeftToRight'], quant=True),
                      coverage=True, name='mc-quantifier', timeout=3000)
        ctx.require_coverage(mcq, ['Read'])
        # sharpness: with the operand of a quantifier read as a whole expression TLC must refute the invariant
        ctl = ctx.tlc('ExprGrammar', cfg('strings', lq + 1, ['QuantifierIsPrefixOperator'], quant=True,
                                         deviations=['QuantifierTakesFullExpression']),
                      name='mc-quantifier-deviation', timeout=3000, must_hold=False, count=False)
        if 'QuantifierIsPrefixOperator' not in (ctl.violated or ''):
            raise core.MachineryFailure('the deviation QuantifierTakesFullExpression is not refuted by TLC')
        ctx.cov['negative_controls_rejected'] += 1
        eq = ctx.tlc('ExprGrammarExport', cfg('strings', lq, ['ExportStrings'], quant=True), workers=1,
                     name='export-quantifier', count=False, timeout=3000)
        qs = [c for c in eq.printed_json('STR') if 'Q' in c['ts']]
        qwell = [c for c in qs if acceptable(c) != {'ERR'}]
        qmal = [c for c in qs if acceptable(c) == {'ERR'}]
        if not qwell or not qmal:
            raise core.MachineryFailure('no quantifier strings')
        for host in QUANT_HOSTS:
            w = qwell if not quick else rnd.sample(qwell, min(len(qwell), 1500))
            run_host(ctx, pool, host, w + rnd.sample(qmal, min(len(qmal), 500 if quick else 10000)),
                     'strings with quantifiers <= %d' % lq)
        # `-transformed-by T` is a prefix too: its operand is a simple expression, evaluated on the transformed text
        et = ctx.tlc('ExprGrammarExport', cfg('strings', lq, ['ExportStrings'], quant=True, qsem='ctx'), workers=1,
                     name='export-transformed-by', count=True, timeout=3000)
        tsx = [c for c in et.printed_json('STR') if 'Q' in c['ts']]
        twell = [c for c in tsx if acceptable(c) != {'ERR'}]
        tmal = [c for c in tsx if acceptable(c) == {'ERR'}]
        if len(twell) < 50:
            raise core.MachineryFailure('no -transformed-by strings')
        run_host(ctx, pool, 'text+transformed-by',
                 (twell if not quick else rnd.sample(twell, min(len(twell), 2500)))
                 + rnd.sample(tmal, min(len(tmal), 500 if quick else 10000)), 'strings with -transformed-by <= %d' % lq)
        # laziness
        lz = lazy_cases(trees)
        if quick:
            lz = rnd.sample(lz, min(len(lz), 600))
        obs = pool.map('harness.props.c06:exec_case', lz, deadline=60, chunk=8)
    bad = 0
    for c, o in zip(lz, obs):
        ctx.count()
        ctx.nontrivial('lazy:' + ' '.join(c['ts']))
        ident, code = EXP[c['exp']]
        if o.get('exit') != code or o.get('ident') != ident or o.get('log') != c['exp_log']:
            bad += 1
            ctx.fail('LazyLeftToRight tokens=%s' % ' '.join(c['ts']),
                     dict(kind='lazy', case=c, observed=o))
    ctx.cov['traces_validated_against_impl'] += len(lz)
    ctx.cov['replay']['laziness (run primitives that log)'] = dict(cases=len(lz), disagreements=bad)
    if not lz:
        raise core.MachineryFailure('no laziness cases')
    lz2 = lazy_lines_cases(trees, rnd, 600 if quick else 5000)
    if len(lz2) < 200:
        raise core.MachineryFailure('only %d laziness cases over several lines' % len(lz2))
    with ctx.pool() as pool:
        obs2 = pool.map('harness.props.c06:exec_lines_case', lz2, deadline=60, chunk=8)
    bad2 = 0
    for c, o in zip(lz2, obs2):
        ctx.count()
        ctx.nontrivial('lazy-lines:' + json.dumps(c['ts']))
        if o.get('exit') != 0 or o.get('log') != c['exp_log'] or o.get('kept') != c['kept']:
            bad2 += 1
            ctx.fail('LazyLeftToRight (one matcher, two lines) tokens=%s / %s' % (' '.join(c['ts'][0]), ' '.join(c['ts'][1])),
                     dict(kind='lazy-lines', case=c, observed=o))
    ctx.cov['traces_validated_against_impl'] += len(lz2)
    ctx.cov['replay']['laziness, one matcher applied to two lines'] = dict(cases=len(lz2), disagreements=bad2)
    # negative control: a wrong verdict must be rejected by the mapping
    tried = rejected = 0
    for c in rnd.sample(wellformed, min(30, len(wellformed))):
        acc = acceptable(c)
        wrong = [k for k in EXP if k not in acc]
        tried += 1
        rejected += bool(wrong) and wrong[0] not in acc
    if tried != rejected:
        raise core.MachineryFailure('negative controls')
    ctx.cov['negative_controls_rejected'] += rejected
    for c in (wellformed[len(wellformed) // 2], trees[len(trees) // 2]):
        ctx.sample(dict(tokens=c['ts'], acceptable=sorted(acceptable(c)),
                        rendered_for_integer_host=HOSTS['integer'][0] % render(c['ts'], HOSTS['integer'][1])))
    ctx.sample(dict(laziness=lz[0]['text'], expected_log=lz[0]['exp_log'], expected=lz[0]['exp']))
    ctx.cov['exhaustive'] = True
    ctx.cov['rule'] = ('every token string of <= %d tokens over {T, F, !, &&, ||, (, ), NL} (the well-formed ones in every '
                       'host, the malformed ones in the integer host - a sample of them in the quick tier and in the other hosts) and every tree '
                       'of <= %d postfix tokens in 6 layouts, in 6 host contexts (integer, file, text via num-lines, '
                       'files via num-files, line matcher inside parentheses, integer matcher inside line-num); '
                       'near misses (every rendering with one token deleted or one operator / parenthesis / line break '
                       'inserted); laziness with logging run-primitives; non-trivial = distinct (host, string) that is not '
                       'plainly malformed' % (ls, lt))
    ctx.assumptions += ['a line break directly BEFORE an infix operator is unspecified by the manual: the joined value or '
                        'SYNTAX_ERROR are both accepted, nothing else',
                        'text-transformer composition (|) is checked by C05 (order of application), not here']


def replay(ctx, rec):
    r = rec['record']
    with ctx.pool(workers=1) as pool:
        if r['kind'] == 'lazy':
            o = pool.map('harness.props.c06:exec_case', [r['case']], deadline=60)[0]
            ident, code = EXP[r['case']['exp']]
            ok = o.get('exit') == code and o.get('ident') == ident and o.get('log') == r['case']['exp_log']
        elif r['kind'] == 'lazy-lines':
            o = pool.map('harness.props.c06:exec_lines_case', [r['case']], deadline=60)[0]
            ok = o.get('exit') == 0 and o.get('log') == r['case']['exp_log'] and o.get('kept') == r['case']['kept']
        else:
            o = pool.map('harness.props.c06:exec_case', [dict(text=r['text'])], deadline=60)[0]
            ok = any(o.get('exit') == EXP[k][1] and o.get('ident') == EXP[k][0] for k in r['acceptable'])
    print(json.dumps(dict(record=r, observed=o), indent=1))
    if not ok:
        print('VIOLATION property=C06 replay=(given)')
        return 1
    return 0
