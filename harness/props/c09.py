"""C09  String syntax: quoting, concatenation, text-until-end-of-line, here-documents.

spec/Lexer.tla is the documented syntax as a character automaton; every state is a source string and TLC exports
what it denotes as a LIST, as a STRING argument and as `:>` text.  spec/HereDoc.tla is the line-level machine of
here-documents.  Every enumerated source is rendered into real instructions (`def list` + a probe process that
records its argv, `file f = STRING`, `file f = :> TEXT`, `file f = <<EOF`) and the denoted strings are compared
character by character.  A disagreement is a known finding only if the observation equals the prediction of the
specification with the recorded deviation D3 switched on.
"""
import json
import os
import random

from harness import core

CH = {1: 'a', 2: ' ', 3: '"', 4: "'", 5: '#', 6: '\\', 7: 'é', 8: '@[S]@', 9: '=', 10: ')', 11: 'VAL', 12: '-contents-of', 13: ':>'}
SEP = '--SEP--'
LINE_KINDS = {1: 'text line', 2: 'a @[S]@ b', 3: 'EOF ', 4: ' EOF', 5: '[setup]', 6: '# not a comment', 7: '',
              8: '"a\' b', 9: 'EOFX', 10: '   ', 11: '\t'}
LINE_VALUE = dict(LINE_KINDS)
LINE_VALUE[2] = 'a VAL b'


def s(codes):
    return ''.join(CH[c] for c in codes)


def lexer_cfg(alphabet, max_len, deviations=(), export=False):
    c = ('SPECIFICATION Spec\nCONSTANTS Alphabet = {%s}\n MaxLen = %d\n Deviations = {%s}\n'
         % (', '.join(map(str, alphabet)), max_len, ', '.join('"%s"' % d for d in deviations)))
    if export:
        c += 'INVARIANT Export\n'
    else:
        c += 'INVARIANT NoBlankInNakedToken\nINVARIANT QuoteRemovalOnly\nPROPERTY TokensMonotone\n'
    return c + 'CHECK_DEADLOCK FALSE\n'


RCH = {1: '@', 2: '[', 3: ']', 4: 'S', 5: '-'}


NAME_CHARS = ['S', '\u00e9']      # a name character: an ASCII letter; a letter that is not ASCII


def refs_probes(c):
    out = []
    for k, nm in enumerate(NAME_CHARS):
        if k and 4 not in c['src']:
            continue
        ch = dict(RCH)
        ch[4] = nm
        src = ''.join(ch[x] for x in c['src'])
        exp = ''.join(ch[x] if x < 100 else 'V%d%s' % (x - 100, 'u' * k) for x in c['value'])
        out.append(dict(ctx='text', src=src, exp=exp, nrefs=c['nrefs']))
        if src:
            out.append(dict(ctx='string', src='"%s"' % src, exp=exp, nrefs=c['nrefs']))
    return out


def heredoc_cfg(kinds, max_lines, export=False):
    c = 'SPECIFICATION Spec\nCONSTANTS Kinds = {%s}\n MaxLines = %d\n' % (', '.join(map(str, kinds)), max_lines)
    c += 'INVARIANT Export\n' if export else 'PROPERTY ContentsBeforeMarkerOnly\n'
    return c + 'CHECK_DEADLOCK FALSE\n'


# ---------------------------------------------------------------- probes
def probes_of(case, keep_opt=False):
    """One abstract source -> up to three probes (context, source text, expectation)."""
    src = s(case['src'])
    out = []
    if src.strip(' ') == '':
        return out
    # LIST
    exp = None if case['listErr'] else [s(t) for t in case['list']] + (['tail'] if case['cont'] else [])
    out.append(dict(ctx='list', src=src, exp=exp, cont=bool(case['cont']) and not case['listErr']))
    # STRING as last argument (no token at all would trigger known finding D11: not this property's subject)
    # an unquoted option of the probing instruction as first word: not this syntax element (opt; only kept to explain D3)
    if case['ntok'] >= 1 and (not case['strOpt'] or keep_opt):
        out.append(dict(ctx='string', src=src, exp=None if case['strErr'] else s(case['str']), opt=bool(case['strOpt'])))
    # :> TEXT
    out.append(dict(ctx='text', src=src, exp=s(case['text'])))
    return out


def build_case(probes):
    """probes -> (files, argv, layout): the line number of each probe's instruction."""
    lines = ['[setup]', 'def string S = VAL']
    if probes and 'nrefs' in probes[0]:
        lines = ['[setup]'] + ['def string %s = V%d%s' % (nm * n, n, 'u' * k) for n in range(1, 9)
                               for k, nm in enumerate(NAME_CHARS)]
    layout = []
    lists = []
    for j, p in enumerate(probes):
        if p['ctx'] == 'list':
            lines.append('def list L%d = %s' % (j, p['src']))
            layout.append(len(lines))
            if p.get('cont'):
                lines.append('tail')
            lists.append(j)
        elif p['ctx'] == 'string':
            lines.append('file s%d.txt = %s' % (j, p['src']))
            layout.append(len(lines))
        elif p['ctx'] == 'text':
            lines.append('file t%d.txt = :> %s' % (j, p['src']))
            layout.append(len(lines))
        elif p['ctx'] == 'here':
            lines.append('file h%d.txt = <<EOF' % j)
            layout.append(len(lines))
            lines.extend(p['lines'])
            if p['closed']:
                lines.append('EOF')
    if lists:
        lines.append('run -rel-home probe.sh ' + ' '.join('%s @[L%d]@' % (SEP, j) for j in lists) + ' ' + SEP)
    return '\n'.join(lines) + '\n', layout, lists


def exec_probes(task, cd):
    from harness import inproc
    probes = task['probes']
    text, layout, lists = build_case(probes)
    out_file = os.path.join(cd.out, 'args.bin')
    probe = "#!/bin/sh\nfor a in \"$@\"; do printf '%s\\0' \"$a\"; done > " + out_file + "\n"
    cd.write({'c.case': text, 'probe.sh': probe}, mode={'probe.sh': 0o755})
    r = inproc.run_main(['--keep', 'c.case'], cd)
    res = dict(exit=r['exit'], exception=r['exception'], stderr=r['stderr'][:500], layout=layout, text=text)
    sds = r['stdout'].strip()
    if r['exit'] == 0 and sds and os.path.isdir(sds):
        vals = {}
        if lists:
            raw = open(out_file, 'rb').read().decode('utf-8', 'replace') if os.path.exists(out_file) else None
            if raw is not None:
                args = raw.split('\0')[:-1]
                groups, cur = [], None
                for a in args:
                    if a == SEP:
                        if cur is not None:
                            groups.append(cur)
                        cur = []
                    elif cur is not None:
                        cur.append(a)
                for j, g in zip(lists, groups):
                    vals[j] = g
        for j, p in enumerate(probes):
            name = {'string': 's', 'text': 't', 'here': 'h'}.get(p['ctx'])
            if name:
                fp = os.path.join(sds, 'act', '%s%d.txt' % (name, j))
                if os.path.exists(fp):
                    with open(fp, encoding='utf-8', newline='') as fh:
                        vals[j] = fh.read()
        res['vals'] = {str(k): v for k, v in vals.items()}
    return res


def judge_single(p, o):
    """observation of a case holding the single probe p -> (value or 'ERR' or other marker)"""
    if o.get('exception') or o.get('no_termination') or o.get('harness_exception') or o.get('worker_died'):
        return ('CRASH', str(o)[:200])
    if o.get('vals') is not None:
        return ('VAL', o['vals'].get('0'))
    if o['exit'] == 65 and o['stderr'].startswith('SYNTAX_ERROR'):
        located = ('line %d' % o['layout'][0]) in o['stderr']
        return ('ERR', located)
    return ('OTHER', 'exit %s: %s' % (o['exit'], o['stderr'][:200]))


def run_probes(ctx, probes, label, pack=10):
    """Runs all probes: those expected to be valid packed several per test case, the others alone."""
    valid = [j for j, p in enumerate(probes) if p['exp'] is not None]
    alone = [j for j, p in enumerate(probes) if p['exp'] is None]
    tasks, members = [], []
    for a in range(0, len(valid), pack):
        idx = valid[a:a + pack]
        tasks.append(dict(probes=[probes[j] for j in idx]))
        members.append(idx)
    for j in alone:
        tasks.append(dict(probes=[probes[j]]))
        members.append([j])
    result = [None] * len(probes)
    with ctx.pool() as pool:
        obs = pool.map('harness.props.c09:exec_probes', tasks, deadline=120, chunk=4)
        redo = []
        for t, idx, o in zip(tasks, members, obs):
            if len(idx) == 1:
                result[idx[0]] = judge_single(probes[idx[0]], o)
            elif o.get('vals') is not None:
                for k, j in enumerate(idx):
                    result[j] = ('VAL', o['vals'].get(str(k)))
            else:
                redo.extend(idx)
        if redo:
            obs2 = pool.map('harness.props.c09:exec_probes', [dict(probes=[probes[j]]) for j in redo], deadline=60,
                            chunk=4)
            for j, o in zip(redo, obs2):
                result[j] = judge_single(probes[j], o)
    ctx.cov.setdefault('replay', {})[label] = dict(probes=len(probes), test_case_runs=len(tasks) + len(redo))
    return result


def agrees(exp, res):
    kind, v = res
    if exp is None:
        return kind == 'ERR' and v is True          # a syntax error, located at the instruction
    return kind == 'VAL' and v == exp


def here_probe(c):
    lines = [LINE_KINDS[k] for k in c['body']]
    exp = None if c['err'] else ''.join(LINE_VALUE[k] + '\n' for k in c['body'])
    return dict(ctx='here', lines=lines, closed=bool(c['closed']), exp=exp, src='<<EOF ' + '|'.join(lines))


def run(ctx):
    quick = ctx.tier == 'quick'
    full = list(range(1, 11))
    small = [1, 2, 3, 4, 8]
    max_full, max_small = (4, 5) if quick else (5, 7)
    mc = ctx.tlc('Lexer', lexer_cfg(full, max_full + 1), coverage=True, name='mc')
    ctx.require_coverage(mc, ['Read'])
    cases, dev = {}, {}
    for name, alpha, ml in (('full', full, max_full), ('quotes', small, max_small),
                            ('option words', [1, 2, 3, 4, 12], max_full), ('text marker', [1, 2, 3, 4, 13], max_full)):
        e = ctx.tlc('LexerExport', lexer_cfg(alpha, ml, export=True), workers=1, name='export-' + name, count=False,
                    timeout=3000)
        for c in e.printed_json('CASE'):
            cases[json.dumps(c['src'])] = c
        d = ctx.tlc('LexerExport', lexer_cfg(alpha, ml, deviations=['D3'], export=True), workers=1,
                    name='export-D3-' + name, count=False, timeout=3000)
        for c in d.printed_json('CASE'):
            dev[json.dumps(c['src'])] = c
    probes, dprobes = [], []
    for k, c in cases.items():
        ps = probes_of(c)
        ds = probes_of(dev[k], keep_opt=True)
        if len(ps) != len(ds):       # the deviation changes the number of tokens: compare context by context
            dmap = {p['ctx']: p for p in ds}
            ds = [dmap.get(p['ctx'], p) for p in ps]
        probes.extend(ps)
        dprobes.extend(ds)
    # probes whose layout under the deviation differs (continuation line) are run as the documented syntax says
    results = run_probes(ctx, probes, 'strings')
    bad = 0
    for p, dp, r in zip(probes, dprobes, results):
        ctx.count()
        if any(ch in p['src'] for ch in '"\'#\\@=)-:'):
            ctx.nontrivial(p['ctx'] + ':' + p['src'])
        if agrees(p['exp'], r):
            continue
        bad += 1
        explained = None
        # (a syntax error under the deviation is at the instruction's line whatever follows it: the layout is immaterial)
        if dp['exp'] != p['exp'] and agrees(dp['exp'], r) and (dp.get('cont') == p.get('cont') or dp['exp'] is None):
            explained = 'D3'
        if dp.get('opt') and not p.get('opt'):      # only with D3 is the first word the (unquoted) option
            explained = 'D3'
        ctx.fail('%s context: %r' % (p['ctx'], p['src']),
                 dict(kind='probe', probe=p, observed=r, with_deviation_D3=dp['exp']), explained_by=explained)
    ctx.cov['traces_validated_against_impl'] += len(probes)
    ctx.cov['replay']['strings']['disagreements'] = bad
    # where references are substituted (stray delimiters, adjacent references, partial references)
    rl = 6 if quick else 8

    def rcfg(ml, alpha, inv):
        return ('SPECIFICATION Spec\nCONSTANTS MaxLen = %d\n Alphabet = {%s}\nINVARIANT %s\nCHECK_DEADLOCK FALSE\n'
                % (ml, ', '.join(map(str, alpha)), inv))

    rmc = ctx.tlc('SymRefs', rcfg(rl + 1, [1, 2, 3, 4, 5], 'OnlyReferencesReplaced'), coverage=True, name='mc-symrefs')
    ctx.require_coverage(rmc, ['Read'])
    rcases = {}
    for nm, ml, alpha in (('all', rl, [1, 2, 3, 4, 5]), ('delimiters', rl + 1, [1, 2, 3, 4])):
        rexp = ctx.tlc('SymRefsExport', rcfg(ml, alpha, 'Export'), workers=1, name='export-symrefs-' + nm, count=False,
                       timeout=3000)
        for c in rexp.printed_json('REFS'):
            rcases[json.dumps(c['src'])] = c
    rprobes = []
    for c in rcases.values():
        rprobes.extend(refs_probes(c))
    rres = run_probes(ctx, rprobes, 'symbol references', pack=12)
    rbad = 0
    for p, r in zip(rprobes, rres):
        ctx.count()
        if '@' in p['src']:
            ctx.nontrivial('refs:' + p['ctx'] + p['src'])
        if not agrees(p['exp'], r):
            rbad += 1
            ctx.fail('reference substitution, %s context: %r' % (p['ctx'], p['src']),
                     dict(kind='probe', probe=p, observed=r))
    ctx.cov['traces_validated_against_impl'] += len(rprobes)
    ctx.cov['replay']['symbol references']['disagreements'] = rbad
    # here-documents
    kinds = list(range(1, 12))
    hl = 3 if quick else 4
    hmc = ctx.tlc('HereDoc', heredoc_cfg(kinds, hl), coverage=True, name='mc-heredoc')
    ctx.require_coverage(hmc, ['ReadLine', 'ReadMarker'])
    he = ctx.tlc('HereDocExport', heredoc_cfg(kinds, hl, export=True), workers=1, name='export-heredoc', count=False)
    hprobes = [here_probe(c) for c in he.printed_json('HERE')]
    hres = run_probes(ctx, hprobes, 'here-documents', pack=6)
    hbad = 0
    for p, r in zip(hprobes, hres):
        ctx.count()
        ctx.nontrivial('here:' + p['src'] + str(p['closed']))
        if not agrees(p['exp'], r):
            hbad += 1
            ctx.fail('here-document %r closed=%s' % (p['lines'], p['closed']), dict(kind='probe', probe=p, observed=r))
    ctx.cov['traces_validated_against_impl'] += len(hprobes)
    ctx.cov['replay']['here-documents']['disagreements'] = hbad
    # negative controls: the comparison must tell values apart
    rnd = random.Random(ctx.seed)
    tried = rejected = 0
    for j in rnd.sample(range(len(probes)), min(40, len(probes))):
        p, r = probes[j], results[j]
        if p['exp'] is None or r[0] != 'VAL':
            continue
        tried += 1
        forged = (r[1] + ['x']) if isinstance(r[1], list) else (r[1] + 'x')
        rejected += not agrees(p['exp'], ('VAL', forged))
    if tried == 0 or tried != rejected:
        raise core.MachineryFailure('negative controls: %d of %d rejected' % (rejected, tried))
    ctx.cov['negative_controls_rejected'] += rejected
    for j in (len(probes) // 5, len(probes) // 2, len(probes) - 3):
        ctx.sample(dict(context=probes[j]['ctx'], source=probes[j]['src'], denotes=probes[j]['exp'],
                        observed=results[j]))
    ctx.sample(dict(context='here', lines=hprobes[len(hprobes) // 2]['lines'], denotes=hprobes[len(hprobes) // 2]['exp']))
    ctx.cov['exhaustive'] = True
    ctx.cov['rule'] = ('every source of length <= %d over {a, blank, ", \', #, \\, e-acute, @[S]@, =, )} and of length '
                       '<= %d over {a, blank, ", \', @[S]@}, each as LIST (argv of a real process), STRING and :> text; '
                       'every here-document body of <= %d lines over 11 line kinds, with and without end marker; '
                       'every source of length <= %d over {@, [, ], S, -} (one longer over {@, [, ], S}) as :> text and soft-quoted string (8 symbols '
                       'S..SSSSSSSS defined); '
                       'non-trivial = distinct (context, source) containing a quote, #, \\, reference or reserved word'
                       % (max_full, max_small, hl, rl))
    ctx.assumptions += ['a quoted string spanning lines is not in the alphabet (the manual does not define it)',
                        'STRING context is probed with at least one token (no argument at all is finding D11)',
                        'D2 (# starts a comment) was found by this check and repaired (fix: 4902902)']


def replay(ctx, rec):
    r = rec['record']
    with ctx.pool(workers=1) as pool:
        o = pool.map('harness.props.c09:exec_probes', [dict(probes=[r['probe']])], deadline=60)[0]
    res = judge_single(r['probe'], o)
    print(json.dumps(dict(probe=r['probe'], observed=res, case=o.get('text')), indent=1))
    if not agrees(r['probe']['exp'], res):
        print('VIOLATION property=C09 replay=(given)')
        return 1
    return 0
