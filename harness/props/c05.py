"""C05  Text assertions and text transformers mean what the reference manual says.

spec/Text.tla: texts, lines, the transformers, the matchers and a regex family with Python's leftmost / greedy /
backtracking semantics as recursive operators; the machine builds EVERY text up to a length bound and TLC checks
algebraic laws as invariants.  spec/TextExport.tla exports, for every text, the output of every transformer and
the verdict of every matcher of the families; each text becomes ONE real test case holding all of them (one `file`
instruction per transformer, one assertion per matcher - negated when the specification says it does not hold), for
three kinds of text source (file, output of the action to check, string literal).
"""
import json
import os
import random
import re

from harness import core

CH = {0: '\n', 1: 'a', 2: 'b', 3: ' ', 4: 'A', 5: 'B'}
INVARIANTS = ['LinesPartition', 'LinesEndNL', 'StripIdempotent', 'FilterTrueIsIdentity', 'EveryAnyDuality',
              'GrepIsFilter', 'FullImpliesSearch', 'NumLinesIsLenLines']


def txt(codes):
    return ''.join(CH[c] for c in codes)


def cfg(chars, max_len, size, export=False):
    c = 'SPECIFICATION Spec\nCONSTANTS Chars = {%s}\n MaxLen = %d\n Size = "%s"\n' % (', '.join(map(str, chars)),
                                                                                     max_len, size)
    c += 'INVARIANT Export\n' if export else ''.join('INVARIANT %s\n' % i for i in INVARIANTS)
    return c + 'CHECK_DEADLOCK FALSE\n'


# ---------------------------------------------------------------- rendering
SETS = {'a': 'a', 'b': 'b', 'ab': '[ab]', 'dot': '.', 'sp': ' ', 'nl': '\\n', 'A': 'A'}
QUANT = {'1': '', '?': '?', '*': '*', '+': '+', '??': '??', '*?': '*?', '+?': '+?'}


def r_regex(re_):
    s = ('^' if re_['caret'] else '') + ''.join(SETS[a] + QUANT[q] for a, q in re_['atoms']) + ('$' if re_['dollar'] else '')
    return ('-ignore-case ' if re_['icase'] else '') + "'%s'" % s


def r_repl(codes):
    s = ''.join('\\n' if c == 0 else CH[c] for c in codes)
    return "'%s'" % s


def r_lm(lm):
    k = lm[0]
    if k == 'lnum':
        return 'line-num %s %d' % (lm[1], lm[2])
    if k == 'cmatch':
        return 'contents matches %s%s' % ('-full ' if lm[1] else '', r_regex(lm[2]))
    if k == 'cempty':
        return 'contents is-empty'
    if k == 'cnum':
        return 'contents num-lines %s %d' % (lm[1], lm[2])
    if k == 'lconst':
        return 'constant %s' % ('true' if lm[1] else 'false')
    if k == 'lnot':
        return '! ' + r_lm(lm[1])
    return '( %s %s %s )' % (r_lm(lm[1]), '&&' if k == 'land' else '||', r_lm(lm[2]))


def r_tr(tr, top=True):
    k = tr[0]
    if k == 'id':
        return 'identity'
    if k in ('upper', 'lower'):
        return 'char-case -to-%s' % k
    if k == 'strip':
        return 'strip'
    if k == 'stripts':
        return 'strip -trailing-space'
    if k == 'stripnl':
        return 'strip -trailing-new-lines'
    if k == 'filter':
        return 'filter ' + r_lm(tr[1])
    if k == 'grep':
        return 'grep %s%s' % ('-full ' if tr[1] else '', r_regex(tr[2]))
    if k == 'replace':
        return 'replace %s%s%s %s' % ('-at %s ' % r_lm(tr[2]) if tr[2] else '',
                                      '-preserve-new-lines ' if tr[1] else '', r_regex(tr[3]), r_repl(tr[4]))
    if k == 'seq':
        return '( %s | %s )' % (r_tr(tr[1], False), r_tr(tr[2], False))
    raise ValueError(tr)


def r_literal(codes):
    """a text as a soft-quoted string literal (new-lines through the builtin symbol NEW_LINE)"""
    return '"%s"' % ''.join('@[NEW_LINE]@' if c == 0 else CH[c] for c in codes)


def r_tm(m, idx=0):
    k = m[0]
    if k == 'empty':
        return 'is-empty'
    if k == 'equals':
        return 'equals ' + r_literal(m[1])
    if k == 'matches':
        return 'matches %s%s' % ('-full ' if m[1] else '', r_regex(m[2]))
    if k == 'numlines':
        return 'num-lines %s %d' % (m[1], m[2])
    if k in ('every', 'any'):
        return '%s line : %s' % (k, r_lm(m[1]))
    if k == 'on':
        return '-transformed-by %s %s' % (r_tr(m[1]), r_tm_simple(m[2]))
    if k == 'const':
        return 'constant %s' % ('true' if m[1] else 'false')
    if k == 'not':
        return '! ' + r_tm_simple(m[1])
    return '( %s %s %s )' % (r_tm(m[1]), '&&' if k == 'and' else '||', r_tm(m[2]))


def r_tm_simple(m):
    s = r_tm(m)
    return s if m[0] in ('empty', 'const', 'and', 'or', 'not') else '( %s )' % s


# ---------------------------------------------------------------- worker side
LOC = re.compile(r'c\.case, line (\d+)')


def exec_text(task, cd):
    """One text, one source kind: all transformers and matchers of the families in one test case (re-run without the
    offending line while some instruction does not behave)."""
    from harness import inproc
    text = task['text']
    kind = task['kind']
    trs, tms, holds = task['trs'], task['tms'], task['holds']
    cd.write({'in.txt': text})
    for j, e in task.get('expected_files', {}).items():
        cd.write({'exp%s.txt' % j: e})
    # `equals -contents-of FILE`: files written with ONE time stamp (a checkout, an archive): equal size and time
    # stamp does not make two files equal
    for j, e in task.get('eq_files', {}).items():
        cd.write({'eq%s.txt' % j: e})
    for n in os.listdir(cd.home):
        if n.endswith('.txt'):
            os.utime(os.path.join(cd.home, n), (1600000000, 1600000000))
    if kind == 'file':
        src = '-contents-of -rel-home in.txt'
        head = []
        subject = 'contents -rel-home in.txt :'
    elif kind == 'atc':
        src = None
        head = ['[act]', '% cat in.txt' if False else '$ cat %s' % os.path.join(cd.home, 'in.txt')]
        subject = 'stdout'
    else:
        src = task['literal']
        head = []
        subject = None
    items = []      # (label, line text)
    setup = []
    asserts = []
    for j, t in trs:
        if kind == 'atc':
            asserts.append(('T%d' % j, 'stdout -transformed-by %s equals -contents-of -rel-home exp%d.txt'
                            % (t if t.startswith('(') or ' | ' not in t else t, j)))
        else:
            setup.append(('T%d' % j, 'file o%d.txt = %s -transformed-by %s' % (j, src, t)))
    if subject:
        for j, m in tms:
            asserts.append(('M%d' % j, '%s %s' % (subject, m if holds[str(j)] else '! ( %s )' % m)))
        for j in task.get('eq_files', {}):
            m = 'equals -contents-of -rel-home eq%s.txt' % j
            asserts.append(('E%s' % j, '%s %s' % (subject, m if holds[str(j)] else '! ( %s )' % m)))
    bad = {}
    outs = {}
    dropped = set()
    for _ in range(40):
        lines = list(head)
        index = {}
        if setup:
            lines.append('[setup]')
            for lab, l in setup:
                if lab not in dropped:
                    lines.append(l)
                    index[len(lines)] = lab
        if asserts:
            lines.append('[assert]')
            for lab, l in asserts:
                if lab not in dropped:
                    lines.append(l)
                    index[len(lines)] = lab
        cd.write({'c.case': '\n'.join(lines) + '\n'})
        for d in cd.sandboxes():
            import shutil
            shutil.rmtree(os.path.join(cd.tmp, d), ignore_errors=True)
        r = inproc.run_main(['--keep', 'c.case'], cd)
        if r['exception']:
            return dict(exception=r['exception'], bad=bad)
        if r['exit'] == 0:
            sds = r['stdout'].strip()
            for lab, l in setup:
                if lab not in dropped:
                    p = os.path.join(sds, 'act', 'o%s.txt' % lab[1:])
                    with open(p, encoding='utf-8', newline='') as fh:
                        outs[lab[1:]] = fh.read()
            return dict(bad=bad, outs=outs, exception=None)
        m = LOC.search(r['stderr'])
        lab = index.get(int(m.group(1))) if m else None
        if lab is None:
            return dict(exception='unexpected outcome: exit %s %s' % (r['exit'], r['stderr'][:300]), bad=bad)
        ident = (r['stderr'].splitlines() or [''])[0]
        bad[lab] = '%s (exit %s): %s' % (ident, r['exit'], [l for l in lines if index.get(lines.index(l) + 1) == lab][:1])
        dropped.add(lab)
    return dict(exception='too many failing instructions', bad=bad)


# ---------------------------------------------------------------- check
def run(ctx):
    quick = ctx.tier == 'quick'
    rnd = random.Random(ctx.seed)
    chars = [0, 1, 2, 3]
    ml = 4 if quick else 5
    size = 'small' if quick else 'large'
    mc = ctx.tlc('Text', cfg(chars, ml + 1, size), coverage=True, name='mc', timeout=3000)
    ctx.require_coverage(mc, ['Read'])
    exps = []
    for name, ch, l, sz in (('abSPNL', chars, ml, size), ('case', [0, 1, 4, 5], 3 if quick else 4, 'small'),
                            ('lines', [0, 1], 6 if quick else 10, 'small')):
        ex = ctx.tlc('TextExport', cfg(ch, l, sz, export=True), name='export-' + name, count=False, timeout=3000)
        ops = ex.printed_json('OPS')[0]
        exps.append((ops, ex.printed_json('TEXT')))
    tasks, meta = [], []
    for ops, texts in exps:
        trs = [(j, r_tr(t)) for j, t in enumerate(ops['transformers'])]
        tms = [(j, r_tm(m)) for j, m in enumerate(ops['matchers'])]
        for c in texts:
            holds = {str(j): bool(v) for j, v in enumerate(c['holds'])}
            text = txt(c['t'])
            outs = {str(j): txt(o) for j, o in enumerate(c['outs'])}
            tasks.append(dict(kind='file', text=text, trs=trs, tms=tms, holds=holds,
                              eq_files={str(j): txt(m[1]) for j, m in enumerate(ops['matchers']) if m[0] == 'equals'}))
            meta.append(dict(outs=outs, ops=ops, c=c))
            # other kinds of source: a third of the operations each (rotating with the text)
            sel = len(tasks) % 3
            if quick and (len(c['t']) > ml or ((len(tasks) // 3) % 2 == 1 and len(c['t']) == ml)):
                continue
            tasks.append(dict(kind='atc', text=text, trs=[x for x in trs if x[0] % 3 == sel],
                              tms=[x for x in tms if x[0] % 3 == sel], holds=holds,
                              expected_files={str(j): outs[str(j)] for j, _ in trs if j % 3 == sel}))
            meta.append(dict(outs={}, ops=ops, c=c))
            tasks.append(dict(kind='literal', text=text, literal=r_literal(c['t']),
                              trs=[x for x in trs if x[0] % 3 == (sel + 1) % 3], tms=[], holds=holds))
            meta.append(dict(outs=outs, ops=ops, c=c))
    with ctx.pool() as pool:
        obs = pool.map('harness.props.c05:exec_text', tasks, deadline=300, chunk=1)
    n_ops = 0
    bad = 0
    for t, m, o in zip(tasks, meta, obs):
        text = t['text']
        if o.get('exception') or o.get('no_termination') or o.get('harness_exception') or o.get('worker_died'):
            ctx.fail('Evaluates kind=%s text=%r' % (t['kind'], text), dict(kind='text', task=_slim(t), observed=str(o)[:600]))
            continue
        for j, tr in t['trs']:
            n_ops += 1
            lab = 'T%d' % j
            if lab in o['bad']:
                bad += 1
                ctx.fail('Transformer kind=%s %s text=%r' % (t['kind'], tr, text),
                         dict(kind='op', source=t['kind'], text=text, op=tr, expected=m['outs'].get(str(j)),
                              observed=o['bad'][lab]))
            elif t['kind'] != 'atc' and o['outs'].get(str(j)) != m['outs'][str(j)]:
                bad += 1
                ctx.fail('Transformer kind=%s %s text=%r' % (t['kind'], tr, text),
                         dict(kind='op', source=t['kind'], text=text, op=tr, expected=m['outs'][str(j)],
                              observed=o['outs'].get(str(j))))
        for j in t.get('eq_files', {}):
            n_ops += 1
            if 'E%s' % j in o['bad']:
                bad += 1
                ctx.fail('Matcher kind=%s equals -contents-of FILE(%r) text=%r' % (t['kind'], t['eq_files'][j], text),
                         dict(kind='op', source=t['kind'], text=text, op='equals -contents-of', expected=t['holds'][j],
                              observed=o['bad']['E%s' % j]))
        for j, tm in t['tms']:
            n_ops += 1
            if 'M%d' % j in o['bad']:
                bad += 1
                ctx.fail('Matcher kind=%s %s text=%r' % (t['kind'], tm, text),
                         dict(kind='op', source=t['kind'], text=text, op=tm, expected=t['holds'][str(j)],
                              observed=o['bad']['M%d' % j]))
        ctx.nontrivial(t['kind'] + ':' + text)
    ctx.cov['evaluations'] += n_ops
    ctx.cov['traces_validated_against_impl'] += len(tasks)
    ctx.cov['replay'] = dict(test_cases=len(tasks), texts=sum(1 for t in tasks if t['kind'] == 'file'), operations_compared=n_ops, disagreements=bad)
    # negative control: the comparison notices a dropped final line
    tried = rejected = 0
    for t, m, o in list(zip(tasks, meta, obs))[::97]:
        if t['kind'] != 'file' or not o.get('outs'):
            continue
        for j, v in list(m['outs'].items())[:50]:
            if v:
                tried += 1
                rejected += (v[:-1] != v)
    if tried == 0 or tried != rejected:
        raise core.MachineryFailure('negative controls')
    ctx.cov['negative_controls_rejected'] += min(rejected, 50)
    ops0, texts0 = exps[0]
    c = texts0[len(texts0) // 2]
    for j in (7, len(ops0['transformers']) // 2, len(ops0['transformers']) - 3):
        ctx.sample(dict(text=txt(c['t']), transformer=r_tr(ops0['transformers'][j]), output=txt(c['outs'][j])))
    ctx.sample(dict(text=txt(c['t']), matcher=r_tm(ops0['matchers'][30]), holds=c['holds'][30]))
    ctx.cov['exhaustive'] = True
    ctx.cov['rule'] = ('every text of length <= %d over {a, b, blank, new-line} x %d transformers x %d matchers (regex '
                       'family: atoms a, [ab], ., blank, \\n with quantifiers 1 ? * +, anchors, -ignore-case; replace with '
                       'and without -preserve-new-lines and -at; filter, grep, strip variants, char-case, |; is-empty, '
                       'equals, matches [-full], num-lines, every/any line, -transformed-by, !, &&, ||) + texts over '
                       '{a, A, B, new-line} for char-case and longer texts over {a, new-line} (line structure); each from a file, and a third of the operations each from the '
                       'action\'s stdout and from a string literal; non-trivial = distinct (source kind, text)'
                       % (ml, len(ops0['transformers']), len(ops0['matchers'])))
    ctx.assumptions += ['regexes that can match the empty string are used with matches/grep but not with replace',
                        'characters that str.splitlines treats as line breaks are the subject of C14, not of this alphabet',
                        'for the action\'s stdout, transformer outputs are compared by Exactly\'s own `equals` against files '
                        'written from the specification\'s output']


def _slim(t):
    return dict(kind=t['kind'], text=t['text'], n_trs=len(t['trs']), n_tms=len(t['tms']))


def replay(ctx, rec):
    r = rec['record']
    print(json.dumps(r, indent=1))
    if r.get('kind') != 'op':
        return 0
    is_tr = not isinstance(r['expected'], bool)
    task = dict(kind=r['source'], text=r['text'], trs=[(0, r['op'])] if is_tr else [], tms=[] if is_tr else [(0, r['op'])],
                holds={'0': r['expected']} if not is_tr else {},
                expected_files={'0': r['expected']} if is_tr else {},
                literal='"%s"' % r['text'].replace('\n', '@[NEW_LINE]@'))
    with ctx.pool(workers=1) as pool:
        o = pool.map('harness.props.c05:exec_text', [task], deadline=60)[0]
    print(json.dumps(o, indent=1))
    ok = not o.get('exception') and not o.get('bad') and (not is_tr or r['source'] == 'atc' or o['outs'].get('0') == r['expected'])
    if not ok:
        print('VIOLATION property=C05 replay=(given)')
        return 1
    return 0
