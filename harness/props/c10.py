"""C10  The action to check - and every other program - gets the denoted argv / stdin / cwd; its outcome is captured.

spec/Program.tla is the model: program values (driver, arguments, stdin parts, transformations), accumulation
through chains of program symbols (`def program P2 = @ P1 ...`), and the execution of a small test case as a step
machine (def - cd - stdin - use: resolve, start the process, exit, transform the observed stream step by step, map
the exit code to the outcome of the phase - assertions).  TLC checks the clauses of the property on the model
(append in definition order, act stdin last, shell = one string, cwd, outcome table, what assertions see) and
exports, per case, the process that must have been started (argv, stdin, cwd, shell string), the verdict and what
the context sees of the process.

Every case is rendered as a real test case (18 contexts: the four actors, run / $ / % in four phases,
-stdout-from / -stderr-from text sources in `file`, stdout / stderr / exit-code -from, run text matcher, run text
transformer, run file matcher in its three argument-position forms) around a cheap POSIX sh probe that records its
argv (NUL separated), stdin, cwd and its parent's command line and exits with the scripted code after printing the
scripted stdout / stderr.  The case runs in process (--keep); compared are the probe's record, the verdict with the
source line blamed, the files of the result directory, the file written from a text source and the verdicts of
the assertions / matchers, which state what the specification predicts.

The repaired defect D12 (program-output part of a multi-part stdin written before the buffered text of earlier
parts) stays in the model as the named deviation "D12": TLC must refute AccumulationIsAppendInDefinitionOrder with it
in every run, and every multi-part stdin case stays in the enumerated domain.
"""
import json
import os
import random
import shlex
import zlib
from concurrent.futures import ThreadPoolExecutor

from harness import core

ACTIONS = ['ChooseShape', 'ChooseEnv', 'AddInterp', 'DefBase', 'DefLink', 'AddUse', 'ExecCd', 'ExecDef', 'ExecStdin',
           'Resolve', 'Start', 'Exit', 'TransformStep', 'Conclude', 'NullAct', 'ExecAssert']
INVARIANTS = ['TypeOK', 'AccumulationIsAppendInDefinitionOrder', 'ActStdinLast', 'ShellIsOneString', 'InterpreterArgv',
              'CwdIsCurrentDirectory', 'ExecutedOnce', 'NullActorStartsNothing', 'OutcomeTable',
              'AssertionsSeeTheProcess', 'TransformsContextStreamOnly']
PROPERTIES = ['ProcessFixedAtStart', 'SymbolsDefinedOnce']
ALL_CTX = ['atc', 'atcx', 'atcfile', 'atcsrc', 'atcnull', 'run', 'dollar', 'percent', 'fileout', 'fileerr', 'outfrom',
           'errfrom', 'exitfrom', 'tmrun', 'ttrun', 'fmdef', 'fmlast', 'fmmark']
ALL_PHASES = ['setup', 'act', 'ba', 'assert', 'cleanup']
RICH_ARGS = ['ww', 'e', 'ewe', 'qs', 'qd', 'qq', 'o', 'r', 'inl', 'S', 'Sc', 'L', 'L0', 'LQ', 'P', 'T', 'X', 'C', 'mix']
RICH_SHELL = ['ww', 'e', 'qs', 'qd', 'o', 'shS']
RICH_STDIN = ['empty', 'here', 'tail', 'sym', 'tsym', 'file', 'strT', 'out', 'outign', 'err', 'errign', 'outT', 'trun']
RICH_TRANS = ['abbc', 'bcab', 'id', 'da']
ACT_STDIN = ['str', 'empty', 'here', 'file', 'sym', 'strT', 'out', 'outign', 'err', 'errign', 'outT', 'trun']
FOCUSES = ['exit', 'accum', 'rich', 'driver', 'cd', 'actin', 'claim']
DEVIATION = 'D12'

CONSTANTS = {
    'quick': dict(Focuses=FOCUSES, Contexts=ALL_CTX, Phases=ALL_PHASES, MaxDepth=2, DeepCtx=['atc', 'fileout'],
                  RichCtx=['atc', 'run', 'fileerr', 'ttrun', 'dollar', 'atcfile'],
                  DriverCtx=['atc', 'run', 'atcfile', 'atcsrc'], ChainPhases=['setup'],
                  Drivers=['file', 'sys', 'shell', 'python'], ExitCodes=[0, 1, 2, 3, 127, 128, 255],
                  RichArgs=RICH_ARGS, RichShellArgs=RICH_SHELL, RichStdin=RICH_STDIN, RichTrans=RICH_TRANS,
                  ActStdinKinds=ACT_STDIN, CdKinds=['sub', 'tmp']),
    'thorough': dict(Focuses=FOCUSES, Contexts=ALL_CTX, Phases=ALL_PHASES, MaxDepth=3,
                     DeepCtx=['atc', 'fileout', 'run', 'ttrun'],
                     RichCtx=ALL_CTX, DriverCtx=['atc', 'run', 'atcfile', 'atcsrc', 'fileout', 'tmrun', 'fmdef'],
                     ChainPhases=['setup', 'assert'],
                     Drivers=['file', 'sys', 'shell', 'python'], ExitCodes=list(range(256)),
                     RichArgs=RICH_ARGS, RichShellArgs=RICH_SHELL, RichStdin=RICH_STDIN, RichTrans=RICH_TRANS,
                     ActStdinKinds=ACT_STDIN, CdKinds=['sub', 'tmp']),
    # random cases beyond the exhaustive bounds: everything combined, chains up to depth 5
    'simulate': dict(Focuses=['free'], Contexts=ALL_CTX, Phases=ALL_PHASES, MaxDepth=5, DeepCtx=ALL_CTX, RichCtx=ALL_CTX,
                     DriverCtx=ALL_CTX, ChainPhases=ALL_PHASES, Drivers=['file', 'sys', 'shell'],
                     ExitCodes=[0, 3],
                     RichArgs=RICH_ARGS, RichShellArgs=RICH_SHELL, RichStdin=RICH_STDIN, RichTrans=RICH_TRANS,
                     ActStdinKinds=ACT_STDIN, CdKinds=['sub', 'tmp']),
}


def _set(xs):
    return '{' + ', '.join(str(x) if isinstance(x, int) else '"%s"' % x for x in xs) + '}'


def cfg(consts, deviations=(), invariants=INVARIANTS, properties=()):
    lines = ['SPECIFICATION Spec']
    for k, v in consts.items():
        lines.append('CONSTANT %s = %s' % (k, v if isinstance(v, int) else _set(v)))
    lines.append('CONSTANT Deviations = %s' % _set(deviations))
    lines += ['INVARIANT %s' % i for i in invariants]
    lines += ['PROPERTY %s' % p for p in properties]
    lines.append('CHECK_DEADLOCK FALSE')
    return '\n'.join(lines) + '\n'


# ------------------------------------------------------------------------------------------------ concretisation
# characters of the texts (Program.tla: NL, ChA.., Letter(k), ChZ, ChM)
CH = {0: '\n', 1: 'a', 2: 'b', 3: 'c', 4: 'd', 5: 'O', 6: 'E', 11: 'p', 12: 'q', 13: 'r', 14: 's', 15: 't', 16: 'u',
      17: 'v', 18: 'w', 20: 'z', 21: 'm'}
STDOUT_TEXT = 'abcdO\n'
STDERR_TEXT = 'abcdE\n'
ACT_SOURCE = 'line one\n# not a comment\n\n  indented  line\n'
PHASE_HEADER = {'setup': 'setup', 'act': 'act', 'ba': 'before-assert', 'assert': 'assert', 'cleanup': 'cleanup'}


def text(codes):
    return ''.join(CH[c] for c in codes)


# token -> source text (k: the level the token is written at)
SRC = {
    'w': lambda k: 'w%d' % k, 'v': lambda k: 'v%d' % k, 'mk': lambda k: 'MK', 'e': lambda k: "''",
    'qs': lambda k: "'s%d  x'" % k, 'qd': lambda k: '"d%d \'y\'"' % k, 'qq': lambda k: '\'say "%d"\'' % k,
    'o': lambda k: '-o%d' % k, 'lo': lambda k: '--long=%d' % k,
    'r': lambda k: "'-stdin' ')' ':>' '<<EOF' '-existing-file' '@'",
    'is': lambda k: '-stdin', 'it': lambda k: '-transformed-by',
    'S': lambda k: '@[S]@', 'Sc': lambda k: 'pre@[S]@post', 'Sh': lambda k: "'@[S]@'",
    'L': lambda k: '@[L]@', 'L0': lambda k: '@[L0]@', 'LQ': lambda k: '"@[L]@"',
    'P': lambda k: '@[P]@', 'Pc': lambda k: '@[P]@/sub',
    'T': lambda k: ":> tail  text 'q' %d" % k,
    'X': lambda k: '-existing-file ef.txt', 'XD': lambda k: '-existing-dir ed', 'XP': lambda k: '-existing-path ef.txt',
    'C': lambda k: '\\\n         ',
    'sq': lambda k: '"@[S]@"', 'sl': lambda k: '@[L]@',
}
# the same tokens as they appear in the string handed to the shell (symbol references substituted)
SHELL_SUBST = {'sq': lambda k: '"sv  x"', 'sl': lambda k: 'l1 l 2'}
# value name -> the string the process must receive ({home}, {act}: directories of the run)
VAL = {
    'w': lambda k: 'w%d' % k, 'v': lambda k: 'v%d' % k, 'mk': lambda k: 'MK', 'e': lambda k: '',
    'qs': lambda k: 's%d  x' % k, 'qd': lambda k: "d%d 'y'" % k, 'qq': lambda k: 'say "%d"' % k,
    'o': lambda k: '-o%d' % k, 'lo': lambda k: '--long=%d' % k,
    'r1': lambda k: '-stdin', 'r2': lambda k: ')', 'r3': lambda k: ':>', 'r4': lambda k: '<<EOF',
    'r5': lambda k: '-existing-file', 'r6': lambda k: '@',
    'is': lambda k: '-stdin', 'it': lambda k: '-transformed-by',
    'S': lambda k: 'sv  x', 'Sc': lambda k: 'presv  xpost', 'Sh': lambda k: '@[S]@',
    'l1': lambda k: 'l1', 'l2': lambda k: 'l 2', 'LQ': lambda k: 'l1 l 2',
    'P': lambda k: '{act}/pf', 'Pc': lambda k: '{act}/pf/sub',
    'T': lambda k: "tail  text 'q' %d" % k,
    'X': lambda k: '{home}/ef.txt', 'XD': lambda k: '{home}/ed', 'XP': lambda k: '{home}/ef.txt',
    'MFILE': lambda k: '{home}/m.txt', 'PYPROBE': lambda k: '{home}/pyprobe.py', 'ACTFILE': lambda k: '{home}/src.txt',
    'SRCFILE': lambda k: '{srcfile}',
}
TRANS_SRC = {'ab': 'replace a b', 'bc': 'replace b c', 'cd': 'replace c d', 'da': 'replace d a',
             'abbc': '( replace a b | replace b c )', 'bcab': '( replace b c | replace a b )', 'id': 'identity'}
SYMBOL_DEFS = ["def string S = 'sv  x'", "def list L = l1 'l 2'", 'def list L0 =', 'def path P = -rel-act pf']


def stdin_source(kind, c, tag):
    """kind of text source, its letter, a tag for file / symbol names -> (source lines, symbol definitions, files)"""
    if kind == 'str':
        return ["'%s'" % c], [], {}
    if kind == 'empty':
        return ["''"], [], {}
    if kind == 'here':
        return ['<<EOF', c, 'EOF'], [], {}
    if kind == 'tail':
        return [':> %s' % c], [], {}
    if kind == 'sym':
        return ['@[SI%s]@' % tag], ["def string SI%s = '%s'" % (tag, c)], {}
    if kind == 'tsym':
        return ['@[TS%s]@' % tag], ["def text-source TS%s = '%s'" % (tag, c)], {}
    if kind == 'file':
        return ['-contents-of -rel-home sf%s.txt' % tag], [], {'sf%s.txt' % tag: c + '\n'}
    if kind == 'strT':
        return ["'%sa' -transformed-by replace a b" % c], [], {}
    if kind == 'out':
        return ['-stdout-from % emit {0} x 0'.format(c)], [], {}
    if kind == 'outign':
        return ['-stdout-from -ignore-exit-code % emit {0} x 3'.format(c)], [], {}
    if kind == 'err':
        return ['-stderr-from % emit x {0} 0'.format(c)], [], {}
    if kind == 'errign':
        return ['-stderr-from -ignore-exit-code % emit x {0} 3'.format(c)], [], {}
    if kind == 'outT':
        return ['-stdout-from ( % emit {0}a x 0'.format(c), '    -transformed-by replace a b )'], [], {}
    if kind == 'trun':
        return ["'%s' -transformed-by run %% cat" % c], [], {}
    raise ValueError(kind)


def args_source(lv):
    k = lv['k']
    return ' '.join(SRC[t](k) for t in lv['toks'])


def shell_line(lv, appended):
    """the shell command line as written, and the string the shell must be given"""
    k = lv['k']
    written = ' '.join(['probe'] + [SRC[t](k) for t in lv['toks']])
    given = ' '.join(['probe'] + [SHELL_SUBST.get(t, SRC[t])(k) for t in lv['toks']])
    if not appended:              # the shell stays the probe's parent: its command line shows the string it was given
        written += ' && :'
        given += ' && :'
    return written, given


def program_lines(case, sym_defs, files):
    """-> (definition instructions, the lines of the PROGRAM written at the use)"""
    fam, lvs = case['fam'], case['lvs']
    driver = fam['driver']
    depth = fam['depth']
    defs = []

    def extras(lv):
        out = []
        if lv['s'] != 'none':
            src, sd, fs = stdin_source(lv['s'], CH[10 + lv['k']], str(lv['k']))
            sym_defs.extend(sd)
            files.update(fs)
            if len(src) == 1 and lv['s'] != 'tail':
                out.append('    -stdin ( %s )' % src[0])
            else:
                out.append('    -stdin ( ' + src[0])
                out.extend(src[1:])
                out.append('    )')
        if lv['t'] != 'none':
            out.append('    -transformed-by ' + TRANS_SRC[lv['t']])
        return out

    def head(lv):
        if lv['k'] == 1:
            if driver == 'shell':
                return '$ ' + shell_line(lv, appended=depth >= 1)[0]
            pgm = {'file': 'probe', 'sys': '% probe', 'python': '-python -existing-file pyprobe.py'}[driver]
            return (pgm + ' ' + args_source(lv)).rstrip()
        return ('@ P%d %s' % (lv['k'] - 1, args_source(lv))).rstrip()

    for lv in lvs[:-1]:
        defs.append('def program P%d = %s' % (lv['k'], head(lv)))
        defs.extend(extras(lv))
    use = lvs[-1]
    return defs, [head(use)] + extras(use)


def here_doc(t):
    assert t.endswith('\n')
    return ['<<EOT'] + t[:-1].split('\n') + ['EOT']


def text_matcher(t):
    return ['is-empty'] if t == '' else ['equals ' + here_doc(t)[0]] + here_doc(t)[1:]


def _nlines(lines):
    return sum(l.count('\n') + 1 for l in lines)


def render(case):
    """abstract case -> dict(text, files, use_line, assert_lines, phase lines ...)"""
    fam = case['fam']
    ctx, phase = fam['ctx'], fam['phase']
    files = {'m.txt': 'm\n', 'ef.txt': 'x\n', 'src.txt': 'source file\n', 'ed/keep.txt': ''}
    sym_defs = list(SYMBOL_DEFS)
    seen = case['seen']
    claim = fam['claim']
    exp_exit = seen['exit'] if claim != 'exit' else (seen['exit'] + 1) % 256
    exp_out = text(seen['out']) if claim != 'out' else 'X' + text(seen['out']) + ('\n' if not seen['out'] else '')
    exp_err = text(seen['err']) if claim != 'err' else 'X' + text(seen['err']) + ('\n' if not seen['err'] else '')
    conf = []
    ign = ' -ignore-exit-code' if fam['ign'] else ''
    if ctx in ('atcfile', 'atcsrc'):
        lv0 = case['lv0']
        pgm = {'file': 'probe', 'sys': '% probe'}[fam['driver']]
        conf.append(('actor = %s %s %s' % ('file' if ctx == 'atcfile' else 'source', pgm, args_source(lv0))).rstrip())
        defs = []
        use = [('src.txt ' + args_source(case['lvs'][0])).rstrip()] if ctx == 'atcfile' else ACT_SOURCE[:-1].split('\n')
    elif ctx == 'atcnull':
        conf.append('actor = null')
        defs, use = [], ['probe ' + args_source(case['lvs'][0])]
    elif ctx == 'dollar':
        defs, use = [], ['$ ' + shell_line(case['lvs'][0], appended=False)[0]]
    elif ctx == 'percent':
        defs, use = [], [('% probe ' + args_source(case['lvs'][0])).rstrip()]
    else:
        defs, prog = program_lines(case, sym_defs, files)
        if ctx == 'atcx':
            conf.append('actor = command')
        if ctx in ('atc', 'atcx'):
            use = prog
        elif ctx == 'run':
            use = ['run%s %s' % (ign, prog[0])] + prog[1:]
        elif ctx in ('fileout', 'fileerr'):
            use = ['file -rel-tmp out.txt = -%s-from%s %s' % ('stdout' if ctx == 'fileout' else 'stderr', ign, prog[0])] \
                  + prog[1:]
        elif ctx == 'outfrom':
            use = ['stdout -from ' + prog[0]] + prog[1:] + ['  ' + l if j == 0 else l
                                                            for j, l in enumerate(text_matcher(exp_out))]
        elif ctx == 'errfrom':
            use = ['stderr -from ' + prog[0]] + prog[1:] + ['  ' + l if j == 0 else l
                                                            for j, l in enumerate(text_matcher(exp_err))]
        elif ctx == 'exitfrom':
            use = ['exit-code -from ' + prog[0]] + prog[1:] + ['  == %d' % exp_exit]
        elif ctx == 'tmrun':
            use = ['contents -rel-home m.txt : run ' + prog[0]] + prog[1:]
        elif ctx == 'ttrun':
            use = ['contents -rel-home m.txt : -transformed-by run%s %s' % (ign, prog[0])] + prog[1:] \
                  + ['  ' + l if j == 0 else l for j, l in enumerate(text_matcher(exp_out))]
        elif ctx in ('fmdef', 'fmlast', 'fmmark'):
            pos = {'fmdef': '', 'fmlast': ' -path-arg-last', 'fmmark': ' -path-arg-marker MK'}[ctx]
            use = ['exists -rel-home m.txt : run%s %s' % (pos, prog[0])] + prog[1:]
        else:
            raise ValueError(ctx)
    stdin_lines = []
    if fam['actStdin'] != 'none':
        src, sd, fs = stdin_source(fam['actStdin'], CH[20], 'Z')
        sym_defs.extend(sd)
        files.update(fs)
        stdin_lines = ['stdin = ( ' + src[0]] + src[1:] + [')'] if len(src) > 1 or fam['actStdin'] == 'tail' \
            else ['stdin = ' + src[0]]
        if fam['actStdin'] == 'file' and zlib.crc32(json.dumps(fam, sort_keys=True).encode()) % 2:
            # the file is one of the SANDBOX, made by an instruction of [setup] that comes AFTER `stdin =`: a text
            # source that depends on the sandbox is validated when [setup] has been executed
            files = {k: v for k, v in files.items() if k != 'sfZ.txt'}
            stdin_lines = ['stdin = -contents-of -rel-tmp sfZ.txt', 'file -rel-tmp sfZ.txt = <<EOF', CH[20], 'EOF']
    cd_lines = {'none': [], 'sub': ['dir sub', 'cd sub'], 'tmp': ['cd -rel-tmp .']}[fam['cd']]
    # assemble: [conf] [setup] symbols, cd(1), defs, stdin, cd(2) ... [phase] cd(2) use [assert] assertions
    lines = []
    if conf:
        lines += ['[conf]'] + conf
    lines += ['[setup]'] + sym_defs
    if fam['cdpos'] == 1:
        lines += cd_lines
    lines += defs + stdin_lines
    use_phase = PHASE_HEADER[phase]
    if phase != 'setup':
        if fam['cdpos'] == 2 and phase == 'act':
            lines += cd_lines
        lines.append('[%s]' % use_phase)
    if fam['cdpos'] == 2 and phase != 'act':
        lines += cd_lines
    use_line = _nlines(lines) + 1
    lines += use
    assert_lines = {}
    if ctx in ('atc', 'atcx', 'atcfile', 'atcsrc', 'atcnull'):
        lines.append('[assert]')
        assert_lines['exit'] = _nlines(lines) + 1
        lines.append('exit-code == %d' % exp_exit)
        assert_lines['out'] = _nlines(lines) + 1
        lines += ['stdout ' + text_matcher(exp_out)[0]] + text_matcher(exp_out)[1:]
        assert_lines['err'] = _nlines(lines) + 1
        lines += ['stderr ' + text_matcher(exp_err)[0]] + text_matcher(exp_err)[1:]
    return dict(text='\n'.join(lines) + '\n', files=files, use_line=use_line, assert_lines=assert_lines,
                use_phase=use_phase)


def probe_script(out_dir, code, silent=False):
    """silent: nothing on stderr (a program that fails without a word is a failing program all the same)"""
    return ('#!/bin/sh\n'
            'd=%s\n'
            'n=0\n'
            'while [ -e "$d/$n.argv" ]; do n=$((n+1)); done\n'
            'for a in "$@"; do printf \'%%s\\0\' "$a"; done > "$d/$n.argv"\n'
            'cat > "$d/$n.stdin"\n'
            'pwd -P > "$d/$n.cwd"\n'
            'cat /proc/$PPID/cmdline > "$d/$n.parent" 2>/dev/null\n'
            'printf \'%s\'\n'
            'printf \'%s\' >&2\n'
            'exit %d\n' % (shlex.quote(out_dir), STDOUT_TEXT.replace('\n', '\\n'),
                           '' if silent else STDERR_TEXT.replace('\n', '\\n'), code))


def pyprobe_script(out_dir, code):
    return ('import os, sys\n'
            'd = %r\n'
            'n = 0\n'
            'while os.path.exists("%%s/%%d.argv" %% (d, n)): n += 1\n'
            'open("%%s/%%d.argv" %% (d, n), "wb").write(b"".join(os.fsencode(a) + b"\\0" for a in sys.argv))\n'
            'open("%%s/%%d.stdin" %% (d, n), "wb").write(sys.stdin.buffer.read())\n'
            'open("%%s/%%d.cwd" %% (d, n), "w").write(os.path.realpath(os.getcwd()) + "\\n")\n'
            'open("%%s/%%d.parent" %% (d, n), "w").write("")\n'
            'sys.stdout.write(%r); sys.stderr.write(%r)\n'
            'sys.exit(%d)\n' % (out_dir, STDOUT_TEXT, STDERR_TEXT, code))


EMIT_SCRIPT = ('#!/bin/sh\n'
               'printf \'%s\\n\' "$1"\n'
               'printf \'%s\\n\' "$2" >&2\n'
               'exit "$3"\n')


# ------------------------------------------------------------------------------------------------ execution
def _read(path, binary=False):
    try:
        with open(path, 'rb') as fh:
            b = fh.read()
        return b if binary else b.decode('utf-8', 'replace')
    except OSError:
        return None


def exec_case(task, cd):
    """worker: run one rendered case on the real program, return the observation"""
    import re
    from harness import inproc
    case = task['case']
    r = render(case)
    files = dict(r['files'])
    files['c.case'] = r['text']
    # where the probe's stderr is not itself observed (the run instruction), every other failing probe fails silently
    silent = (case['fam']['ctx'] == 'run' and case['fam']['exit'] != 0
              and zlib.crc32(json.dumps(case['fam'], sort_keys=True).encode()) % 2 == 0)
    files['probe'] = probe_script(cd.out, case['fam']['exit'], silent)
    files['emit'] = EMIT_SCRIPT
    mode = {'probe': 0o755, 'emit': 0o755}
    if case['fam']['driver'] == 'python':
        files['pyprobe.py'] = pyprobe_script(cd.out, case['fam']['exit'])
    cd.write(files, mode=mode)
    # Exactly's own stdin is not the stdin of any process it starts (a process without stdin gets an empty one): the
    # stdin of this process holds a text that no process may ever see
    try:
        host_stdin = os.path.join(cd.out, 'stdin-of-exactly.txt')
        with open(host_stdin, 'w') as fh:
            fh.write('THE-STDIN-OF-EXACTLY-ITSELF\n')
        fd = os.open(host_stdin, os.O_RDONLY)
        os.dup2(fd, 0)
        os.close(fd)
    except OSError:
        pass
    env = {'PATH': cd.home + os.pathsep + os.environ.get('PATH', '/usr/bin:/bin')}
    res = inproc.run_main(['--keep', 'c.case'], cd, env=env)
    obs = dict(exit=res['exit'], exception=res['exception'], text=r['text'], use_line=r['use_line'],
               assert_lines=r['assert_lines'], use_phase=r['use_phase'], home=os.path.realpath(cd.home))
    err_lines = res['stderr'].split('\n')
    obs['verdict'] = err_lines[0] if err_lines else ''
    m = re.search(r'^In \[([a-z-]+)\]', res['stderr'], re.M)
    obs['err_phase'] = m.group(1) if m else None
    m = re.search(r'^c\.case, line (\d+)', res['stderr'], re.M)
    obs['err_line'] = int(m.group(1)) if m else None
    obs['message'] = res['stderr'][:1500]
    sds = res['stdout'].strip()
    obs['sds'] = os.path.realpath(sds) if sds and os.path.isdir(sds) else None
    procs = []
    n = 0
    while os.path.exists(os.path.join(cd.out, '%d.argv' % n)):
        raw = _read(os.path.join(cd.out, '%d.argv' % n))
        parent = _read(os.path.join(cd.out, '%d.parent' % n)) or ''
        procs.append(dict(argv=raw.split('\0')[:-1], stdin=_read(os.path.join(cd.out, '%d.stdin' % n)),
                          cwd=(_read(os.path.join(cd.out, '%d.cwd' % n)) or '').rstrip('\n'),
                          parent=parent.split('\0')[:-1]))
        n += 1
    obs['procs'] = procs
    if obs['sds']:
        obs['result'] = {k: _read(os.path.join(obs['sds'], 'result', f))
                         for k, f in (('exit', 'exit-code'), ('out', 'stdout'), ('err', 'stderr'))}
        if obs['result']['exit'] is not None:
            obs['result']['exit'] = obs['result']['exit'].strip()
        obs['outfile'] = _read(os.path.join(obs['sds'], 'tmp', 'out.txt'))
        if case['fam']['ctx'] == 'atcsrc' and procs and procs[0]['argv']:
            # the source interpreter's last argument: the file holding the act phase
            for a in procs[0]['argv']:
                if a.startswith(obs['sds']) or a.startswith(sds):
                    obs['srcfile'] = a
                    obs['srcfile_contents'] = _read(a)
    return obs


# ------------------------------------------------------------------------------------------------ comparison
def expectation(case, obs):
    """the prediction of the specification in concrete terms (directories of this run filled in)"""
    fam, proc = case['fam'], case['proc']
    sds = obs.get('sds') or '<no sandbox>'
    dirs = dict(home=obs['home'], act=sds + '/act', srcfile=obs.get('srcfile', '<source file>'))
    exp = dict(started=case['started'], outcome=case['outcome'])
    if case['started']:
        vals = [VAL[n](k).format(**dirs) for n, k in proc['argv']]
        if proc['shell']:
            lv1 = case['lvs'][0]
            given = shell_line(lv1, appended=fam['depth'] >= 1)[1]
            string = ' '.join([given] + vals)
            words = shlex.split(string)
            if words[-2:] == ['&&', ':']:
                words = words[:-2]
            exp['shell_string'] = string
            exp['argv'] = words[1:]
        else:
            exp['argv'] = vals
        exp['stdin'] = text(proc['stdin'])
        exp['cwd'] = '/'.join([sds] + proc['cwd'])
    return exp


def matches(case, obs, proc_rec=None):
    """None if the observation is what the specification predicts, else the name of the clause + detail.
    proc_rec: compare with this process record (the prediction of a deviation) instead of case['proc']"""
    for k in ('exception', 'no_termination', 'worker_died', 'harness_exception'):
        if obs.get(k):
            return 'Terminates: %s %s' % (k, str(obs.get(k))[:200])
    fam = case['fam']
    ctx = fam['ctx']
    c = dict(case, proc=proc_rec) if proc_rec is not None else case
    exp = expectation(c, obs)
    # the process
    procs = obs['procs']
    if len(procs) != exp['started']:
        return 'ExecutedOnce: %d processes started, specification %d (%s)' % (len(procs), exp['started'], obs['message'][:300])
    if exp['started']:
        p = procs[0]
        if p['argv'] != exp['argv']:
            return 'Argv: %r, specification %r' % (p['argv'], exp['argv'])
        if p['stdin'] != exp['stdin']:
            return 'Stdin: %r, specification %r' % (p['stdin'], exp['stdin'])
        if p['cwd'] != exp['cwd']:
            return 'Cwd: %r, specification %r' % (p['cwd'], exp['cwd'])
        if c['proc']['shell']:
            par = p['parent']
            if len(par) >= 3 and os.path.basename(par[0]) in ('sh', 'dash', 'bash') and par[1] == '-c':
                if par[2] != exp['shell_string'] or len(par) != 3:
                    return 'ShellIsOneString: %r, specification %r' % (par[1:], exp['shell_string'])
        if ctx == 'atcsrc' and obs.get('srcfile_contents') != ACT_SOURCE:
            return 'SourceFile: %r, specification %r' % (obs.get('srcfile_contents'), ACT_SOURCE)
    # the outcome
    if obs['verdict'] != exp['outcome']:
        return 'Outcome: %s, specification %s (%s)' % (obs['verdict'], exp['outcome'], obs['message'][:400])
    if exp['outcome'] != 'PASS':
        claim = fam['claim']
        if ctx in ('atc', 'atcx', 'atcfile', 'atcsrc', 'atcnull'):
            want = ('assert', obs['assert_lines'][claim])
        else:
            want = (obs['use_phase'], obs['use_line'])
        if (obs['err_phase'], obs['err_line']) != want:
            return 'Blamed: %s line %s, specification %s line %s' % (obs['err_phase'], obs['err_line'], want[0], want[1])
    # what the context sees
    seen = case['seen']
    if ctx in ('atc', 'atcx', 'atcfile', 'atcsrc', 'atcnull'):
        want = dict(exit=str(seen['exit']), out=text(seen['out']), err=text(seen['err']))
        if obs.get('result') != want:
            return 'ResultFiles: %r, specification %r' % (obs.get('result'), want)
    if ctx in ('fileout', 'fileerr'):
        # (after a HARD_ERROR the manual does not say whether the file exists: not compared)
        want = text(seen['out' if ctx == 'fileout' else 'err'])
        if exp['outcome'] == 'PASS' and obs.get('outfile') != want:
            return 'TextSource: file %r, specification %r' % (obs.get('outfile'), want)
    return None


def case_key(c):
    f = c['fam']
    return json.dumps([[f[k] for k in sorted(f) if k not in ('focus', 'richAt', 'richComp')], c['lv0']['a'],
                       [[l['a'], l['s'], l['t']] for l in c['lvs']]])


def build_tasks(ideal, dev):
    """one task per distinct test case; dev: the same cases as the specification with the deviation predicts them"""
    dmap = {}
    for c in dev or []:
        dmap[case_key(c)] = c
    tasks, seen = [], set()
    for c in ideal:
        k = case_key(c)
        if k in seen:
            continue
        seen.add(k)
        d = dmap.get(k)
        if dev is not None and d is None:
            raise core.MachineryFailure('a case of the specification run does not exist in the deviation run: ' + k)
        touched = d is not None and d['proc'] != c['proc']
        tasks.append(dict(case=c, key=k, dproc=d['proc'] if touched else None))
    return tasks


def judge(task, o):
    clause = matches(task['case'], o)
    if clause is None:
        return None, None
    if task.get('dproc') is not None and matches(task['case'], o, proc_rec=task['dproc']) is None:
        return clause, DEVIATION
    return clause, None


def nontrivial(c):
    f = c['fam']
    lv = c['lvs']
    return not (f['depth'] == 0 and f['exit'] == 0 and f['cd'] == 'none' and f['actStdin'] == 'none'
                and f['claim'] == 'true' and not f['ign'] and f['driver'] in ('file', 'none')
                and all(l['a'] in ('w', 'E', 'wm') and l['s'] == 'none' and l['t'] == 'none' for l in lv)
                and c['lv0']['a'] in ('-', 'E'))


def signature(t, clause):
    c = t['case']
    f = c['fam']
    chain = '>'.join('%s/%s/%s' % (l['a'], l['s'], l['t']) for l in c['lvs'])
    extra = ''.join([' ign' if f['ign'] else '', ' cd=%s@%d' % (f['cd'], f['cdpos']) if f['cd'] != 'none' else '',
                     ' actstdin=' + f['actStdin'] if f['actStdin'] != 'none' else '',
                     ' claim=' + f['claim'] if f['claim'] != 'true' else '',
                     ' interp=' + c['lv0']['a'] if c['lv0']['a'] != '-' else ''])
    return '%s ctx=%s phase=%s driver=%s exit=%d%s chain=%s' % (clause.split(':')[0], f['ctx'], f['phase'], f['driver'],
                                                              f['exit'], extra, chain)


def check_tasks(ctx, tasks, label, deadline=60):
    with ctx.pool() as pool:
        obs = pool.map('harness.props.c10:exec_case', tasks, deadline=deadline, chunk=8)
    bad = known = shells = 0
    for t, o in zip(tasks, obs):
        ctx.count()
        if nontrivial(t['case']):
            ctx.nontrivial(t['key'])
        clause, explained = judge(t, o)
        if t['case']['proc']['shell'] and o.get('procs') and len(o['procs'][0]['parent']) >= 3 \
                and o['procs'][0]['parent'][1] == '-c':
            shells += 1
        if clause:
            bad += 1
            known += explained is not None
            ctx.fail(signature(t, clause), dict(kind='case', task=t, observed=o, clause=clause,
                                                matches_deviation=explained), explained_by=explained)
    ctx.cov['traces_validated_against_impl'] += len(tasks)
    ctx.cov.setdefault('replay', {})[label] = dict(
        cases=len(tasks), disagreements=bad, equal_to_prediction_of_deviation_D12=known,
        multi_part_stdin_cases_D12_would_change=sum(1 for t in tasks if t.get('dproc') is not None),
        shell_cases_with_observed_sh_command_line=shells)
    return obs


def negative_controls(ctx, tasks, obs):
    """corrupt observations and expectations: the comparison must reject every one of them"""
    rnd = random.Random(ctx.seed + 11)
    idx = [j for j, (t, o) in enumerate(zip(tasks, obs)) if judge(t, o)[0] is None]
    tried = rejected = 0
    per_kind, accepted = {}, []
    for j in rnd.sample(idx, min(600, len(idx))):
        t, o = tasks[j], json.loads(json.dumps(obs[j]))
        c = t['case']
        m = tried % 8
        p = o['procs'][0] if o['procs'] else None
        if m == 0:          # two arguments swapped / one dropped
            if p is None or len(p['argv']) < 1:
                continue
            if len(set(p['argv'])) >= 2:
                a = p['argv']
                i = next(i for i in range(len(a) - 1) if a[i] != a[i + 1])
                a[i], a[i + 1] = a[i + 1], a[i]
            else:
                p['argv'].pop()
        elif m == 1:        # stdin parts in another order / act stdin dropped
            if p is None or len(p['stdin']) < 2 or p['stdin'] == p['stdin'][::-1]:
                continue
            p['stdin'] = p['stdin'][1:] + p['stdin'][:1] if tried % 16 < 8 else p['stdin'][:-1]
        elif m == 2:        # another directory
            if p is None:
                continue
            p['cwd'] = os.path.dirname(p['cwd']) if tried % 16 < 8 else p['cwd'] + '/sub'
        elif m == 3:        # another verdict
            o['verdict'] = {'PASS': 'HARD_ERROR', 'FAIL': 'HARD_ERROR', 'HARD_ERROR': 'FAIL'}[o['verdict']]
        elif m == 4:        # the streams mixed up / the other stream transformed
            if c['fam']['ctx'] in ('fileout', 'fileerr') and o['verdict'] != 'PASS':
                continue
            if c['fam']['ctx'] in ('fileout', 'fileerr') and o.get('outfile'):
                o['outfile'] = o['outfile'].replace('O', 'E') if 'O' in o['outfile'] else o['outfile'].replace('E', 'O')
            elif o.get('result') and o['result']['out'] != o['result']['err']:
                o['result']['out'], o['result']['err'] = o['result']['err'], o['result']['out']
            else:
                continue
        elif m == 5:        # exit code off by one / process started twice
            if o.get('result') and c['fam']['ctx'] != 'atcnull' and c['fam']['ctx'].startswith('atc'):
                o['result']['exit'] = str((int(o['result']['exit']) + 1) % 256)
            elif p is not None:
                o['procs'].append(p)
            else:
                continue
        elif m == 6:        # the blame on another line
            if o['verdict'] == 'PASS':
                continue
            o['err_line'] = (o['err_line'] or 0) + 1
        else:               # corrupt the expectation: the specification's argv loses its first element / stdin grows
            t = json.loads(json.dumps(t))
            pr = t['case']['proc']
            if not t['case']['started']:
                continue
            if pr['argv'] and not pr['shell']:
                pr['argv'] = pr['argv'][1:]
            else:
                pr['stdin'] = pr['stdin'] + [1]
        tried += 1
        per_kind[m] = per_kind.get(m, 0) + 1
        if judge(t, o)[0] is not None:
            rejected += 1
        else:
            accepted.append('kind %d: %s' % (m, signature(t, 'accepted')))
    if tried < 40 or tried != rejected or len(per_kind) < 8:
        raise core.MachineryFailure('negative controls: %d of %d corrupted records rejected (kinds %s) %s'
                                    % (rejected, tried, per_kind, accepted[:5]))
    ctx.cov['negative_controls_rejected'] += rejected


def run(ctx):
    quick = ctx.tier == 'quick'
    consts = CONSTANTS[ctx.tier]
    n_sim = 600 if quick else 8000
    # TLC, side by side:
    #  mc                the clauses of the property hold on every case of the model
    #  mc-with-deviation the model is sharp: with the repaired defect D12 switched on TLC refutes the stdin clause
    #  export[-D12]      spec -> code: every case with the prediction of the specification (and of the deviation)
    #  simulate          random cases beyond the exhaustive bounds (deeper chains, everything combined)
    with ThreadPoolExecutor(5) as ex:
        f_sim = ex.submit(ctx.tlc, 'ProgramExport', cfg(CONSTANTS['simulate'], invariants=INVARIANTS + ['Export']),
                          workers=1, simulate='num=%d' % n_sim, depth=40, seed=ctx.seed + 1, name='simulate',
                          timeout=3000, heap='3g')
        f_mc = ex.submit(ctx.tlc, 'Program', cfg(consts, properties=PROPERTIES), coverage=True, name='mc', workers=6,
                         heap='4g')
        f_dv = ex.submit(ctx.tlc, 'Program', cfg(consts, [DEVIATION], ['AccumulationIsAppendInDefinitionOrder']),
                         workers=2, name='mc-with-deviation-D12', count=False, must_hold=False, heap='3g')
        f_id = ex.submit(ctx.tlc, 'ProgramExport', cfg(consts, invariants=['Export']), workers=1, name='export',
                         count=False, timeout=3000, heap='3g')
        f_de = ex.submit(ctx.tlc, 'ProgramExport', cfg(consts, [DEVIATION], invariants=['Export']), workers=1,
                         name='export-with-deviation-D12', count=False, timeout=3000, heap='3g')
        res, dv, ideal, dev, sim = f_mc.result(), f_dv.result(), f_id.result(), f_de.result(), f_sim.result()
    ctx.cov['checker_cmd'] = res.cmd.replace(res.run_dir, '<scratch>')
    ctx.require_coverage(res, ACTIONS)
    if dv.violated != 'AccumulationIsAppendInDefinitionOrder':
        raise core.MachineryFailure('the model with deviation %s should violate AccumulationIsAppendInDefinitionOrder, '
                                    'got %s' % (DEVIATION, dv.violated))
    ctx.cov['negative_controls_rejected'] += 1
    tasks = build_tasks(ideal.printed_json('CASE'), dev.printed_json('CASE'))
    if len(tasks) < 2000 or sum(1 for t in tasks if t['dproc'] is not None) < 10:
        raise core.MachineryFailure('export too small: %d cases' % len(tasks))
    obs = check_tasks(ctx, tasks, 'every case of the model')
    negative_controls(ctx, tasks, obs)
    if not any(t['case']['proc']['shell'] and o.get('procs') and len(o['procs'][0]['parent']) >= 3
               for t, o in zip(tasks, obs)):
        ctx.note('no shell case showed `sh -c STRING` as the parent of the probe: the string was observed only through '
                 'the words the shell made of it')
    # random deeper cases
    seen = {t['key'] for t in tasks}
    deep = [t for t in build_tasks(sim.printed_json('CASE'), None) if t['key'] not in seen]
    check_tasks(ctx, deep, 'random cases beyond the bounds (TLC -simulate)')
    # evidence
    rnd = random.Random(ctx.seed)
    picks = [j for j, t in enumerate(tasks) if t['case']['fam']['depth'] == 2 and t['case']['fam']['ctx'] == 'atc'
             and all(l['a'] != 'E' and l['s'] != 'none' for l in t['case']['lvs'])]
    picks = rnd.sample(picks, min(2, len(picks)))
    picks += [j for j, t in enumerate(tasks) if t['dproc'] is not None][:1]
    picks += [j for j, t in enumerate(tasks) if t['case']['fam']['ctx'] == 'run' and t['case']['fam']['exit'] == 3][:1]
    picks += [j for j, t in enumerate(tasks) if t['case']['proc']['shell']][:1]
    for j in picks:
        t, o = tasks[j], obs[j]
        e = expectation(t['case'], o) if not o.get('harness_exception') and 'procs' in o else {}
        ctx.sample(dict(family=t['case']['fam'], text=o.get('text'),
                        specification=dict(argv=e.get('argv'), stdin=e.get('stdin'),
                                           cwd=(e.get('cwd') or '').replace(o.get('sds') or '-', '<sds>'),
                                           shell_string=e.get('shell_string'), outcome=t['case']['outcome'],
                                           seen=dict(exit=t['case']['seen']['exit'], out=text(t['case']['seen']['out']),
                                                     err=text(t['case']['seen']['err']))),
                        observed=dict(procs=[dict(argv=p['argv'], stdin=p['stdin'],
                                                  cwd=p['cwd'].replace(o.get('sds') or '-', '<sds>'),
                                                  parent=p['parent'][1:]) for p in o.get('procs', [])],
                                      verdict=o.get('verdict'), result=o.get('result'), outfile=o.get('outfile'))),
                   limit=6)
    ctx.cov['exhaustive'] = True
    ctx.cov['constants'] = {k: v for k, v in consts.items() if k != 'ExitCodes'}
    ctx.cov['constants']['ExitCodes'] = consts['ExitCodes'] if len(consts['ExitCodes']) < 20 else '0..255'
    ctx.cov['rule'] = (
        'every terminal state of Program.tla for the constants of the tier: 18 contexts (command-line actor default / '
        'set explicitly, file interpreter, source interpreter, null actor; run, $, %% in setup / before-assert / assert '
        '/ cleanup; file = -stdout-from / -stderr-from PROGRAM in the four phases; stdout / stderr / exit-code -from; '
        'run text matcher, run text transformer, run file matcher with default / -path-arg-last / -path-arg-marker) x '
        'families: exit (every exit code of the tier x -ignore-exit-code x transformation or not), accum (chains of '
        'program symbols up to depth %d, every level with / without arguments, -stdin, -transformed-by; with and '
        'without [setup] stdin for the actor), rich (one component of one level from 19 argument-list shapes, 13 '
        'kinds of text source, 4 transformers, all other components present), driver (executable file, %% program, '
        '$ shell line, -python x arguments x stdin), cd (dir/cd sub, cd -rel-tmp at the start of [setup] / directly '
        'before the use), actin (12 kinds of [setup] stdin x program stdin none / string / here document / program '
        'output), claim (one assertion contradicts the specification: FAIL at that line); plus %d random cases '
        'combining everything (chains up to depth 5) from TLC -simulate; non-trivial = anything but the one-word '
        'program with exit code 0; distinct by test-case text' % (consts['MaxDepth'], len(deep)))
    ctx.assumptions += [
        'argv[0] is not compared (the probe is the program started); for the shell driver the model gives the ONE '
        'string (command line as written with symbol references substituted, appended arguments separated by one '
        'blank); it is compared with `sh -c STRING` read from /proc/PPID/cmdline when the shell is still the '
        'probe\'s parent (always, on this image) and the words the probe receives are compared with '
        'shlex.split(STRING); arguments appended to a shell command line are plain words only (the manual does not '
        'define their quoting)',
        'stdout / stderr -from PROGRAM: the manual does not say what a non-zero exit code means there; explored with '
        'exit code 0 only; exit-code -from, run matchers and the action to check with every exit code',
        'program-output text sources used as stdin parts (emit helper) exit 0, or 3 under -ignore-exit-code; their own '
        'process records are not compared',
        '-stdin TEXT-SOURCE is always written in parentheses (without them a following -transformed-by line belongs to '
        'the text source, as the repository\'s own examples explain)',
        'the -python driver is run with `-python -existing-file pyprobe.py ARG...`: compared are python\'s arguments '
        '(script path first)',
        'D12 was confirmed by this check on the tree before fix 0d09e39 and repaired in /repo; the model keeps the '
        'old behaviour as the named deviation D12 (refuted by TLC in every run)',
    ]


def replay(ctx, rec):
    r = rec['record']
    with ctx.pool(workers=1) as pool:
        o = pool.map('harness.props.c10:exec_case', [r['task']], deadline=60)[0]
    clause, explained = judge(r['task'], o)
    e = expectation(r['task']['case'], o) if 'procs' in o else None
    print(json.dumps(dict(text=o.get('text'), specification=e, outcome=r['task']['case']['outcome'],
                          seen=r['task']['case']['seen'], observed={k: v for k, v in o.items() if k != 'text'},
                          clause=clause, matches_deviation=explained), indent=1))
    if clause and not (explained and ctx.findings.get(explained, {}).get('state') == 'open'):
        print('VIOLATION property=C10 replay=(given)')
        return 1
    return 0
