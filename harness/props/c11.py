"""C11  Settings persist forward: cd, env (act set / non-act set, ${name} expansion), timeout, def.

spec/Settings.tla is a machine that executes HISTORIES: sequences of setting instructions (env set / unset with
-of act, -of !act or neither and VALUE templates with ${name} references - also produced by a program -, cd,
timeout, def, a child that changes its own directory) distributed over setup / before-assert / assert / cleanup as
a plan says, with a probe process before every setting, at the start of every phase, at the end of cleanup and as
the action to check.  TLC checks the clauses of the property on the model (against the reference semantics of
DESIGN C.7, read off the history) and exports, per history, what every process of the case must have seen.

Every exported history is rendered as a real test case (real env / cd / timeout / def instructions; the probes are
started by run, $, %, file = -stdout-from, stdout -from, exit-code -from, run @ PROGRAM-SYMBOL, env = -stdout-from
and as the action to check) and run on the real program, started with the model's start environment.  The probe is
a POSIX sh script that appends its id, `pwd -P`, the tracked variables (set? value) and the symbol values it was
given to one file.  Compared: the sequence of processes that ran and every record; the verdict; that os.environ
is unchanged; and (trace hook of /repo, `proc` events) the timeout every process was started with.

Timeouts are observed for real in family "timed": exactly one probe of the case is a sleeper (records, sleeps 3 s,
records again).  With `timeout = 1` in force it must be killed (HARD_ERROR, nothing but [cleanup] follows), with
60 (default) / 30 / none it must finish.  These cases run in a pool of their own, in parallel with the others.
In the other families no process sleeps and the short limit of the model is written `timeout = 7` (an overloaded
machine must not end an ordinary probe); a case that disagrees is run a second time before it is reported.
"""
import itertools
import json
import os
import random
import re
import threading
import time
from concurrent.futures import ThreadPoolExecutor

from harness import core

ACTIONS = ['Probe', 'TimedProbe', 'Act', 'TimedAct', 'EnvSet', 'EnvUnset', 'Cd', 'Timeout', 'Def', 'ChildCd',
           'NextPhase']
INVARIANTS = ['TypeOK', 'ActSeesActSet', 'OthersSeeNonActSet', 'BothStartAsOsEnv', 'OsEnvUntouched',
              'LiteralSeenLater', 'SetsIndependent', 'ActSetFinalAfterSetup', 'CwdForward', 'TimeoutForward',
              'DefForward', 'KilledIffLimit']
PROPERTIES = ['ForwardOnly', 'ChildCdInvisible', 'SettingsOnlyByInstructions']
DEVIATION = 'ActSetReinitialised'
TRACKED = ['A', 'B', 'C', 'U']
TIMEOUT_SECONDS = {'default': 60, 't30': 30, 'none': None}


def short_limit(case):
    """what `timeout = <the short limit>` ("t1") is written as: 1 s where the sleeper must be ended by it (family
    timed); where no process sleeps the value is only read back from the trace, and 7 s keeps an overloaded
    machine from ending an ordinary probe"""
    return 1 if case['fam'] == 'timed' else 7


def seconds(case, to):
    return short_limit(case) if to == 't1' else TIMEOUT_SECONDS[to]


SLEEP = 3
RETRY_AT_MOST = 48
ALL_TPLS = ['E', 'x', 'y', 'Ay', 'xB', 'U', 'BA', 'qUA', 'AxA', 'D', 'DB']
CONST_KEYS = ['EnvPlans', 'MiscPlans', 'AllPlans', 'TimedPlans', 'Names', 'OsSet', 'SetupTpls', 'LaterTpls',
              'AllTpls', 'ProgTpls', 'LaterTargets', 'CdForms', 'TimeoutVals', 'DefKinds', 'WithChildCd']


def plans(maxlen, minlen=0, phases=(0, 1, 2, 3)):
    """every distribution of minlen..maxlen setting instructions over the four phases, as decimal numbers"""
    out = []
    for p in itertools.product(range(maxlen + 1), repeat=4):
        if minlen <= sum(p) <= maxlen and all(p[j] == 0 for j in range(4) if j not in phases):
            out.append(p[0] * 1000 + p[1] * 100 + p[2] * 10 + p[3])
    return sorted(out)


BASE = dict(EnvPlans=[0], MiscPlans=[0], AllPlans=[0], TimedPlans=[0], Names=['A', 'B'], OsSet=['A'],
            SetupTpls=['x', 'Ay', 'U', 'qUA'], LaterTpls=['x', 'Ay', 'qUA'], AllTpls=ALL_TPLS, ProgTpls=[],
            LaterTargets=['both'], CdForms=['act', 'tmp', 'sub', 'up'], TimeoutVals=['t1', 't30', 'none'],
            DefKinds=['str', 'path', 'pgm'], WithChildCd=True)

WIDE = dict(SetupTpls=['E', 'y', 'xB', 'BA', 'qUA', 'AxA', 'D', 'DB', 'Ay'], LaterTpls=['E', 'xB', 'AxA', 'Ay'],
            ProgTpls=['Ay', 'DB'], LaterTargets=['both', 'act', 'nonact'])

# the exhaustive configurations of a tier: name -> (families, constants)
CONFIGS = {
    'quick': {
        # every history of <= 2 env instructions / <= 2 other settings, every distribution over the phases;
        # sleeper: every history of <= 1 timeout instruction, and of two of them with the first one in [setup] and
        # the second in [setup] / [before-assert] / [cleanup], the sleeper at every place
        'core': (['env', 'misc', 'timed'],
                 dict(BASE, EnvPlans=plans(2), MiscPlans=plans(2), TimedPlans=plans(1) + [2000, 1100, 1001])),
        # one env instruction of every other form: the other VALUE templates, VALUE from a program, PHASE-SPEC
        # after [setup]
        'wide': (['env'], dict(BASE, EnvPlans=plans(1, 1), **WIDE)),
    },
    'thorough': {
        'core': (['env', 'misc', 'timed'],
                 dict(BASE, EnvPlans=plans(2), MiscPlans=plans(2) + [3000, 1110, 1011, 111, 2001, 1101, 120, 30],
                      TimedPlans=plans(2))),
        # three env instructions (two templates)
        'env3': (['env'], dict(BASE, EnvPlans=plans(3, 3), SetupTpls=['x', 'Ay'], LaterTpls=['x', 'Ay'])),
        # the other VALUE templates, VALUE from a program, PHASE-SPEC after [setup]
        'wide': (['env'],
                 dict(BASE, EnvPlans=plans(1) + [2000, 1100, 1010, 1001], **WIDE)),
    },
}
# random histories beyond the exhaustive bound (TLC -simulate; number of behaviours, number of TLC runs they are
# split over, constants): every kind of instruction, three names, every template, VALUE from a program,
# PHASE-SPEC after [setup]
SIMULATE = {
    'quick': (600, 3, dict(BASE, AllPlans=plans(5, 2), Names=['A', 'B', 'C'], ProgTpls=['Ay', 'xB', 'U', 'DB'],
                        LaterTargets=['both', 'act', 'nonact'])),
    'thorough': (10000, 10, dict(BASE, AllPlans=plans(8, 3), Names=['A', 'B', 'C'], ProgTpls=['Ay', 'xB', 'U', 'DB'],
                             LaterTargets=['both', 'act', 'nonact'])),
}


def _val(v):
    if isinstance(v, bool):
        return 'TRUE' if v else 'FALSE'
    if isinstance(v, int):
        return str(v)
    return '{' + ', '.join(str(x) if isinstance(x, int) else '"%s"' % x for x in v) + '}'


def cfg(consts, families, deviations=(), invariants=INVARIANTS, properties=PROPERTIES):
    lines = ['SPECIFICATION Spec', 'CONSTANT Families = ' + _val(families)]
    lines += ['CONSTANT %s = %s' % (k, _val(consts[k])) for k in CONST_KEYS]
    lines.append('CONSTANT Deviations = ' + _val(deviations))
    lines += ['INVARIANT ' + i for i in invariants]
    lines += ['PROPERTY ' + p for p in properties]
    lines.append('CHECK_DEADLOCK FALSE')
    return '\n'.join(lines) + '\n'


# ------------------------------------------------------------------------------------------------ concretisation
PHASE_HEADER = {'setup': 'setup', 'act': 'act', 'ba': 'before-assert', 'assert': 'assert', 'cleanup': 'cleanup'}
PHASES = ['setup', 'act', 'ba', 'assert', 'cleanup']
SPEC = {'act': '-of act ', 'nonact': '-of !act ', 'both': ''}
CD = {'act': 'cd -rel-act a', 'tmp': 'cd -rel-tmp a', 'sub': 'cd a', 'up': 'cd ..'}
TIMEOUT = {'t30': 'timeout = 30', 'none': 'timeout = none'}
DEF = {'str': 'def string S = sv', 'path': 'def path P = -rel-cd a', 'pgm': 'def program G = -rel-home probe.sh'}
FIXTURE = ['dir -rel-act a/a/a/a/a', 'dir -rel-tmp a/a/a/a/a']      # (the deepest `cd`, and one more for the child)


def probe_script(out):
    """POSIX sh: one record per run  `ID d=<pwd -P> e.NAME=<S if set>:<value> .. [a.S=..] [a.P=..]`; then
    sleep=N: sleep, record `end ID`;  print=TEXT: TEXT on stdout;  at last the process changes ITS directory"""
    return ('#!/bin/sh\n'
            'o=%s/rec.txt\n'
            'id=$1; shift\n'
            'r="$id d=`pwd -P`"\n'
            'for n in %s; do eval "s=\\${VERIF_$n+S} v=\\${VERIF_$n}"; r="$r e.$n=$s:$v"; done\n'
            'sl=; pr=\n'
            'for a in "$@"; do case $a in sleep=*) sl=${a#sleep=};; print=*) pr=${a#print=};; *) r="$r $a";; esac; done\n'
            'echo "$r" >> $o\n'
            'if [ -n "$sl" ]; then sleep $sl; echo "end $id" >> $o; fi\n'
            'if [ -n "$pr" ]; then printf %%s "$pr"; fi\n'
            'cd a 2>/dev/null\n'
            'exit 0\n') % (out, ' '.join(TRACKED))


def pid(p):
    return p['id'][0] if p['id'][0] == 'act' else '%s%d' % (p['id'][0], p['id'][1])


def tpl_text(parts):
    return ''.join(t if k == 'lit' else '${VERIF_%s}' % t for k, t in parts)


ACTORS = ['command-line', 'shell', 'file']


def actor_of(case):
    import zlib
    return ACTORS[zlib.crc32(json.dumps(case['hist'], sort_keys=True).encode()) % 3]


def probe_lines(p, extra='', actor='command-line'):
    args = pid(p)
    if 'str' in p['syms']:
        args += ' a.S=@[S]@'
    if 'path' in p['syms']:
        args += ' a.P=@[P]@'
    if p['timed']:
        args += ' sleep=%d' % SLEEP
    args += extra
    kind = p['kind']
    if kind == 'run':
        return ['run -rel-home probe.sh ' + args]
    if kind == 'shell':
        return ['$ sh @[EXACTLY_HOME]@/probe.sh ' + args]
    if kind == 'sys':
        return ['% sh @[EXACTLY_HOME]@/probe.sh ' + args]
    if kind == 'src':
        return ['file -rel-tmp out-%s.txt = -stdout-from -rel-home probe.sh %s' % (pid(p), args)]
    if kind == 'stdout':
        return ['stdout -from -rel-home probe.sh ' + args, '    is-empty']
    if kind == 'exitcode':
        return ['exit-code -from -rel-home probe.sh ' + args, '    == 0']
    if kind == 'pgmsym':
        return ['run @ G ' + args]
    if kind == 'stdinsrc':
        return ['stdin = -stdout-from -rel-home probe.sh ' + args]
    if kind == 'atc':
        # the action to check sees the act set WHATEVER the actor: command line (file / shell), file interpreter
        if actor == 'shell':
            return ['$ sh @[EXACTLY_HOME]@/probe.sh ' + args]
        if actor == 'file':
            return ['probe.sh ' + args]
        return ['@[EXACTLY_HOME]@/probe.sh ' + args]
    raise ValueError(kind)


def instr_lines(i, k, short=1):
    op = i['op']
    if op == 'set':
        if i['d'] == 'lit':
            return ['env %sVERIF_%s = "%s"' % (SPEC[i['a']], i['b'], tpl_text(i['parts']))]
        return ["env %sVERIF_%s = -stdout-from -rel-home probe.sh e%d print='%s'"
                % (SPEC[i['a']], i['b'], k, tpl_text(i['parts']))]
    if op == 'unset':
        return ['env %sunset VERIF_%s' % (SPEC[i['a']], i['b'])]
    if op == 'cd':
        return [CD[i['a']]]
    if op == 'timeout':
        return ['timeout = %d' % short if i['a'] == 't1' else TIMEOUT[i['a']]]
    if op == 'def':
        return [DEF[i['a']]]
    if op == 'childcd':
        return ['$ cd a'] if k % 2 else ["run % sh -c 'cd a'"]
    raise ValueError(op)


def concretize(case):
    """the test case: instructions and probes in the order of execution the specification gives them
    (a probe with at = k comes after setting k and before setting k + 1)"""
    actor = actor_of(case)
    items = []
    for j, p in enumerate(case['probes']):
        if p['kind'] == 'stdinsrc':        # named at the very end of [setup], started for the act phase
            items.append(((10 ** 6, 0, j), 'setup', probe_lines(p)))
        elif p['kind'] != 'envsrc':
            items.append(((p['at'], 0, j), p['ph'], probe_lines(p, actor=actor)
                          + (['run -rel-home probe.sh canary-after-%s' % pid(p)] if p['killed'] and p['ph'] != 'act'
                             else [])))
    for k, i in enumerate(case['hist'], 1):
        items.append(((k - 1, 1, k), i['ph'], instr_lines(i, k, short_limit(case))))
    items.sort(key=lambda it: it[0])
    body = {ph: [] for ph in PHASES}
    for _, ph, lines in items:
        body[ph] += lines
    for ph in PHASES:                                   # phases the specification skips: they must not run
        if not body[ph]:
            body[ph] = (['@[EXACTLY_HOME]@/probe.sh canary-act'] if ph == 'act'
                        else ['run -rel-home probe.sh canary-%s' % ph])
    body['setup'] = FIXTURE + body['setup']
    if actor == 'file' and body['act'] and body['act'][0].startswith('probe.sh '):
        return '[conf]\nactor = file % sh\n' + ''.join('[%s]\n%s\n' % (PHASE_HEADER[ph], '\n'.join(body[ph])) for ph in PHASES)
    return ''.join('[%s]\n%s\n' % (PHASE_HEADER[ph], '\n'.join(body[ph])) for ph in PHASES)


# ------------------------------------------------------------------------------------------------ execution
def parse_record(line, sds):
    f = line.split(' ')
    rec = dict(id=f[0], env={}, cwd=None, S=None, P=None, raw=line)
    if f[0] == 'end':
        return dict(id=f[1] if len(f) > 1 else '?', end=True, raw=line)
    for x in f[1:]:
        if x.startswith('d='):
            rec['cwd'] = below(x[2:], sds)
        elif x.startswith('e.'):
            name, rest = x[2:].split('=', 1)
            flag, val = rest.split(':', 1)
            rec['env'][name] = dict(s=flag == 'S', v=val)
        elif x.startswith('a.S='):
            rec['S'] = x[4:]
        elif x.startswith('a.P='):
            rec['P'] = below(x[4:], sds)
        else:
            rec.setdefault('other', []).append(x)
    return rec


def below(path, sds):
    """absolute path -> components below the sandbox root (['?', path] if it is not below it)"""
    if sds:
        root = os.path.realpath(sds)
        p = os.path.realpath(path) if os.path.isabs(path) else path
        if p == root:
            return []
        if p.startswith(root + '/'):
            return p[len(root) + 1:].split('/')
    return ['?', path]


def exec_case(task, cd):
    from harness import inproc
    text = concretize(task)
    cd.write({'c.case': text, 'probe.sh': probe_script(cd.out)}, mode={'probe.sh': 0o755})
    for k in list(os.environ):
        if k.startswith('VERIF_'):
            del os.environ[k]
    env = {'VERIF_' + n: v['v'] for n, v in task['osEnv'].items() if v['s']}    # the start environment of the model
    t0 = time.time()
    # bare: the process environment consists of the model's start environment and NOTHING else (no tracing either:
    # the guard variable of the hooks would be one more variable), so that un-setting every variable of the model
    # leaves a set of environment variables that is empty
    bare = bool(task.get('bare'))
    r = inproc.run_main(['--keep', 'c.case'], cd, trace=not bare, env=env, bare=bare)
    wall = time.time() - t0
    boxes = cd.sandboxes()
    sds = os.path.join(cd.tmp, boxes[0]) if len(boxes) == 1 else None
    try:
        with open(os.path.join(cd.out, 'rec.txt')) as fh:
            lines = fh.read().splitlines()
    except OSError:
        lines = []
    recs = [parse_record(l, sds) for l in lines]
    started = {}
    for ev in r.get('trace') or []:
        if ev.get('ev') == 'proc':
            cmd = ev.get('cmd')
            m = re.search(r'probe\.sh (\S+)', cmd if isinstance(cmd, str) else ' '.join(map(str, cmd)))
            if m:
                started.setdefault(m.group(1), []).append(ev.get('timeout'))
    return dict(exit=r['exit'], exception=r['exception'], verdict=(r['stderr'].splitlines() or [''])[0],
                stderr=r['stderr'][:600], records=recs, started=started, traced=bool(r.get('trace')),
                env_changed=r['env_changed'], sandboxes=len(boxes), wall=round(wall, 2), text=text,
                events=r.get('trace') or [])


# ------------------------------------------------------------------------------------------------ comparison
def expected_runs(case):
    """the processes of the case in order; the two runs of one `env NAME = -stdout-from PROGRAM` (act set, then
    non-act set) are one group: the manual does not say in which order the two sets are handled"""
    groups = []
    for p in case['probes']:
        if groups and groups[-1][0]['id'] == p['id']:
            groups[-1].append(p)
        else:
            groups.append([p])
    return groups


def record_clause(p, r):
    """None if record r is what process p of the specification must have seen, else the violated clause"""
    want_env = {n: p['env'].get(n, dict(s=False, v='')) for n in TRACKED}
    if r['env'] != want_env:
        diff = {n: (r['env'].get(n), want_env[n]) for n in TRACKED if r['env'].get(n) != want_env[n]}
        return '%s: process %s sees %s (observed, specification)' % (
            'ActSeesActSet' if p['sees'] == 'act' else 'OthersSeeNonActSet', pid(p), diff)
    if r['cwd'] != p['cwd']:
        return 'CwdForward: process %s runs in %s, specification %s' % (pid(p), r['cwd'], p['cwd'])
    if p['kind'] != 'envsrc':
        want_s = 'sv' if 'str' in p['syms'] else None
        want_p = p['pval'] if 'path' in p['syms'] else None
        if r['S'] != want_s or r['P'] != want_p:
            return 'DefForward: process %s is given S=%s P=%s, specification S=%s P=%s' % (
                pid(p), r['S'], r['P'], want_s, want_p)
    if r.get('other'):
        return 'Machinery: unexpected fields in the record of %s: %s' % (pid(p), r['other'])
    return None


def compare(case, o):
    """None if the observation is what the specification says about the case, else the violated clause"""
    if o.get('no_termination') or o.get('worker_died') or o.get('harness_exception') or o.get('exception'):
        return 'Terminates/NoEscapingException: %s' % (o.get('exception') or sorted(o)[:3])
    if case['mayRefuse'] and o['verdict'] == 'SYNTAX_ERROR' and o['exit'] != 0 and not o['records'] \
            and not o['sandboxes']:
        return None           # PHASE-SPEC after [setup] is not in the manual: refusing the case is acceptable
    if o['verdict'] != case['verdict'] or (o['exit'] == 0) != (case['verdict'] == 'PASS'):
        return 'Verdict: %r exit %s, specification %s' % (o['verdict'], o['exit'], case['verdict'])
    if o['sandboxes'] != 1:
        return 'Machinery: %d sandbox directories with --keep' % o['sandboxes']
    recs = [r for r in o['records'] if not r.get('end')]
    ends = [r['id'] for r in o['records'] if r.get('end')]
    want_ids = [pid(p) for p in case['probes']]
    pos = 0
    for g in expected_runs(case):
        n = 0
        while n < len(g) and pos + n < len(recs) and recs[pos + n]['id'] == pid(g[0]):
            n += 1
        if n == 0 or (n < len(g) and len(g) != 2):
            return 'ProcessesRun: %s ran, specification %s' % ([r['id'] for r in recs], want_ids)
        rs = recs[pos:pos + n]
        pos += n
        if n == len(g):
            clauses = [record_clause(p, r) for p, r in zip(g, rs)]
            if any(clauses) and n == 2:           # (the two sets of `env NAME = -stdout-from PROGRAM`: either order)
                clauses = [record_clause(p, r) for p, r in zip(g, reversed(rs))]
        else:                                     # (... or one run of the program, in the environment of either set)
            clauses = [record_clause(g[0], rs[0])]
            if clauses[0]:
                clauses = [record_clause(g[1], rs[0])]
        for c in clauses:
            if c:
                return c
    if pos != len(recs):
        return 'ProcessesRun: %s ran, specification %s' % ([r['id'] for r in recs], want_ids)
    want_ends = [pid(p) for p in case['probes'] if p['timed'] and not p['killed']]
    if ends != want_ends:
        return 'KilledIffLimit: sleepers that finished %s, specification %s' % (ends, want_ends)
    if o['env_changed']:
        return 'OsEnvUntouched: os.environ changed: %s' % o['env_changed']
    if o['traced']:
        want = {}
        for p in case['probes']:
            want.setdefault(pid(p), []).append(seconds(case, p['to']))
        same = lambda got, w: got == w or (len(w) == 2 and len(got) == 1 and got[0] in w)   # (see above)
        if set(o['started']) != set(want) or not all(same(o['started'][k], want[k]) for k in want):
            diff = {k: (o['started'].get(k), want.get(k)) for k in set(want) | set(o['started'])
                    if o['started'].get(k) != want.get(k)}
            return 'TimeoutForward: processes started with timeout %s (observed, specification)' % diff
    return None


def hist_text(case):
    return ','.join('%s:%s' % (i['ph'], '/'.join(x for x in (i['op'], i['a'], i['b'], i['c'],
                                                             i['d'] if i['d'] == 'prog' else '-') if x != '-'))
                    for i in case['hist'])


def case_key(case):
    return json.dumps([case['fam'] == 'timed' and [pid(p) for p in case['probes'] if p['timed']], case['plan'],
                       [[i[f] for f in ('ph', 'op', 'a', 'b', 'c', 'd')] for i in case['hist']]])


def nontrivial(case):
    return len(case['hist']) >= 1


def signature(case, clause):
    timed = [pid(p) for p in case['probes'] if p['timed']]
    return '%s [%s]%s' % (clause.split(':')[0], hist_text(case), ' sleeper=%s' % timed[0] if timed else '')


# ------------------------------------------------------------------------------------------------ replay of cases
def run_cases(pool, cases, deadline, chunk):
    return pool.map('harness.props.c11:exec_case', cases, deadline=deadline, chunk=chunk)


def check_cases(ctx, label, cases, obs, retry_pool):
    """compare; a case that disagrees is run once more (wall-clock effects of a loaded machine must not decide):
    it is reported if it disagrees again.  (With more than RETRY_AT_MOST disagreements the first ones get their
    second run; if most of those are reproduced the rest is reported as observed.)"""
    bad = [j for j, (c, o) in enumerate(zip(cases, obs)) if compare(c, o)]
    retry = bad[:RETRY_AT_MOST]
    again = dict(zip(retry, run_cases(retry_pool, [cases[j] for j in retry], 90, 1))) if retry else {}
    if len(bad) > len(retry) and 2 * sum(1 for j in retry if compare(cases[j], again[j])) < len(retry):
        rest = bad[len(retry):]         # (mostly not reproduced: then every one of them gets its second run)
        again.update(zip(rest, run_cases(retry_pool, [cases[j] for j in rest], 90, 1)))
    reported = 0
    for j in bad:
        o2 = again.get(j, obs[j])
        first = compare(cases[j], obs[j])
        clause = compare(cases[j], o2)
        if clause is None:
            ctx.note('%s: a disagreement was not reproduced when the case was run again: %s [%s]'
                     % (label, first[:200], hist_text(cases[j])))
            obs[j] = o2
            continue
        reported += 1
        c = cases[j]
        ctx.fail(signature(c, clause), dict(kind='case', case=c, observed=o2, observed_first=obs[j], clause=clause))
    for c in cases:
        ctx.count()
        if nontrivial(c):
            ctx.nontrivial(case_key(c))
    # code -> spec: the executions themselves (run with --keep) are behaviours of PhaseExec
    from harness import trace_exec
    items = [dict(id=hist_text(c), events=o['events'], argv=['--keep', 'c.case'], files={'c.case': o.get('text')})
             for c, o in zip(cases, obs) if o.get('events')]
    if len(items) > 2500:
        items = random.Random(ctx.seed + 3).sample(items, 2500)
    if items:
        trace_exec.validate(ctx, items, 'settings cases (%s)' % label)
    for o in obs:
        o.pop('events', None)
    ctx.cov['traces_validated_against_impl'] += len(cases)
    ctx.cov.setdefault('replay', {})[label] = dict(cases=len(cases), disagreements=reported,
                                                   not_reproduced=len(bad) - reported)


def negative_controls(ctx, cases, obs):
    """corrupt observations (and expectations): the comparison must reject every one of them"""
    rnd = random.Random(ctx.seed + 11)
    idx = [j for j, (c, o) in enumerate(zip(cases, obs)) if len(c['hist']) >= 1 and compare(c, o) is None
           and o.get('records')]
    tried = rejected = 0
    per_kind, accepted = {}, []
    traced = any(obs[j].get('traced') for j in idx)
    for turn, j in enumerate(rnd.sample(idx, min(300, len(idx)))):
        c, o = cases[j], json.loads(json.dumps(obs[j]))
        m = turn % 9
        recs = [r for r in o['records'] if not r.get('end')]
        if m == 0:            # a variable leaks into / is missing from one process
            r = rnd.choice(recs)
            n = rnd.choice(['A', 'B'])
            r['env'][n] = dict(s=not r['env'][n]['s'], v='' if r['env'][n]['s'] else 'x')
        elif m == 1:          # a value is expanded differently
            r = rnd.choice(recs)
            r['env']['A'] = dict(s=True, v=r['env']['A']['v'] + 'y')
        elif m == 2:          # the action to check sees what the others see (needs a case where they differ)
            a = [r for r in recs if r['id'] == 'act']
            n = [r for r in recs if r['id'] != 'act' and r['env'] != a[0]['env']] if a else []
            if not n:
                continue
            a[0]['env'] = n[0]['env']
        elif m == 3:          # one process in another directory
            r = rnd.choice(recs)
            r['cwd'] = r['cwd'] + ['a']
        elif m == 4:          # one process did not run / ran twice
            k = rnd.randrange(len(o['records']))
            if turn % 2:
                del o['records'][k]
            else:
                o['records'].insert(k, o['records'][k])
        elif m == 5:          # the verdict
            o['verdict'], o['exit'] = ('HARD_ERROR', 128) if o['verdict'] == 'PASS' else ('PASS', 0)
        elif m == 6:          # a process started with another timeout
            if not o['traced'] or not o['started']:
                continue
            k = rnd.choice(sorted(o['started']))
            o['started'][k] = [1 if o['started'][k][0] != 1 else 60]
        elif m == 7:          # the start environment modified
            o['env_changed'] = ['VERIF_A']
        else:                 # corrupt the expectation: a setting takes effect one process too early
            c = json.loads(json.dumps(c))
            ps = c['probes']
            vis = lambda q: (q['env'], q['cwd'], q['to'] if o['traced'] else None,
                             sorted(set(q['syms']) - {'pgm'}))                                # (what is compared)
            ks = [k for k in range(len(ps) - 1) if vis(ps[k]) != vis(ps[k + 1])]
            if not ks:
                continue
            k = rnd.choice(ks)
            for f in ('env', 'cwd', 'to', 'syms', 'pval'):
                ps[k][f] = ps[k + 1][f]
        tried += 1
        per_kind[m] = per_kind.get(m, 0) + 1
        if compare(c, o) is not None:
            rejected += 1
        else:
            accepted.append((m, hist_text(c)))
    if tried < 50 or tried != rejected or len(per_kind) < (9 if traced else 8):
        raise core.MachineryFailure('negative controls: %d of %d corrupted records rejected (kinds %s; accepted: %s)'
                                    % (rejected, tried, per_kind, accepted[:5]))
    ctx.cov['negative_controls_rejected'] += rejected


def negative_controls_timed(ctx, cases, obs):
    tried = rejected = 0
    for c, o in zip(cases, obs):
        if compare(c, o) is not None or tried >= 40:
            continue
        o = json.loads(json.dumps(o))
        timed = [p for p in c['probes'] if p['timed']][0]
        if timed['killed']:   # "the limit was not applied": the sleeper finished and the case went on
            o['records'].append(dict(id=pid(timed), end=True, raw=''))
            o['verdict'], o['exit'] = 'PASS', 0
        else:                 # "a limit was applied that is not in force": the sleeper was ended
            o['records'] = [r for r in o['records'] if not r.get('end')]
            o['verdict'], o['exit'] = 'HARD_ERROR', 128
        tried += 1
        rejected += compare(c, o) is not None
    if tried < 10 or tried != rejected:
        raise core.MachineryFailure('negative controls (sleepers): %d of %d rejected' % (rejected, tried))
    ctx.cov['negative_controls_rejected'] += rejected


def dedup(cases):
    seen, out = set(), []
    for c in cases:
        k = case_key(c)
        if k not in seen:
            seen.add(k)
            out.append(c)
    return out


SCOPE = {'act': '-of act ', 'nonact': '-of !act ', 'both': ''}


def exec_path_case(task, cd):
    """spec/PathLookup.tla: two directories with a program of one name; PATH changed by `env`; who ran?"""
    from harness import inproc
    log = os.path.join(cd.out, 'ran.txt')
    files, mode = {}, {}
    for d in ('orig', 'dbl'):
        files['%s/vprog' % d] = '#!/bin/sh\necho "$1 %s" >> %s\n' % (d, log)
        mode['%s/vprog' % d] = 0o755
    lines = ['[setup]']
    for t, d in task['hist']:
        lines += ['env %sPATH = "%s:${PATH}"' % (SCOPE[t], os.path.join(cd.home, d)), '% vprog setup']
    lines += ['[act]', '% vprog act', '[assert]', '% vprog assert']
    files['c.case'] = '\n'.join(lines) + '\n'
    cd.write(files, mode=mode)
    path0 = os.environ.get('PATH', '/usr/bin:/bin')
    r = inproc.run_main(['c.case'], cd, env={'PATH': os.path.join(cd.home, 'orig') + os.pathsep + path0})
    os.environ['PATH'] = path0
    ran = []
    if os.path.exists(log):
        ran = [l.split() for l in open(log).read().splitlines() if l.strip()]
    return dict(exit=r['exit'], exception=r['exception'], ident=(r['stdout'].splitlines() or [''])[0],
                stderr=r['stderr'][:400], ran=ran, text=files['c.case'])


def check_path_lookup(ctx):
    res = ctx.tlc('PathLookup', 'SPECIFICATION Spec\nCONSTANT MaxSets = %d\nINVARIANT LookupThroughOwnSet\n'
                                'INVARIANT AssertSeesNonAct\nINVARIANT Export\nCHECK_DEADLOCK FALSE\n'
                  % (2 if ctx.tier == 'quick' else 3), workers=1, name='mc-path-lookup', coverage=True, count=False)
    ctx.require_coverage(res, ['SetPath', 'EndSetup', 'Act', 'AssertProc'])
    recs = res.printed_json('PATHCASE')
    if len(recs) < 40:
        raise core.MachineryFailure('PathLookup exported %d cases' % len(recs))
    with ctx.pool(workers=8) as pool:
        obs = pool.map('harness.props.c11:exec_path_case', [dict(hist=r['hist']) for r in recs], deadline=60, chunk=4)
    bad = 0
    for r, o in zip(recs, obs):
        ctx.count()
        ctx.nontrivial('path:' + json.dumps(r['hist']))
        want = [list(x) for x in r['ran']]
        if o.get('exit') != 0 or o.get('ident') != 'PASS' or o.get('ran') != want:
            bad += 1
            ctx.fail('ProgramFoundThroughThePathOfItsSet hist=%s' % json.dumps(r['hist']),
                     dict(kind='path', rec=r, observed=o))
    # negative control: the comparison tells the two programs apart
    if recs and obs and obs[0].get('ran') == [['act', 'dbl'], ['assert', 'dbl']]:
        raise core.MachineryFailure('path lookup: the original program was not the one that ran without any env instruction')
    ctx.cov['negative_controls_rejected'] += 1
    ctx.cov['traces_validated_against_impl'] += len(recs)
    ctx.cov.setdefault('replay', {})['PATH: a program named without a directory'] = dict(cases=len(recs), disagreements=bad)


def run(ctx):
    quick = ctx.tier == 'quick'
    check_path_lookup(ctx)
    configs = CONFIGS[ctx.tier]
    sim_n, sim_runs, sim_consts = SIMULATE[ctx.tier]
    # the worker pools are forked first (while this process has one thread); the sleeper cases wait most of the
    # time: a pool of their own, in parallel with the others
    timed_pool = ctx.pool(workers=56 if quick else 64)
    time.sleep(0.01)
    main_pool = ctx.pool()
    ex = ThreadPoolExecutor(16)
    try:
        # TLC, side by side:
        #  mc-<config>       the model: every clause of the property on every history of the configuration
        #  export-<config>-<family>  spec -> code: the same histories with what every process must see
        #  simulate-<k>      beyond the exhaustive bound: random longer histories of the same machine (checked and
        #                    exported)
        #  mc-with-deviation sharpness: with the act set rebuilt from the start environment on every change, TLC
        #                    must find ActSeesActSet violated
        f_mc, f_ex = {}, {}
        for name, (fams, consts) in configs.items():
            f_mc[name] = ex.submit(ctx.tlc, 'Settings', cfg(consts, fams), coverage=True, name='mc-' + name,
                                   workers=6, heap='4g')
            for fam in fams:
                f_ex[(name, fam)] = ex.submit(ctx.tlc, 'SettingsExport',
                                              cfg(consts, [fam], invariants=['Export'], properties=[]), workers=1,
                                              name='export-%s-%s' % (name, fam), count=False, timeout=3000, heap='3g')
        first = next(iter(configs.values()))
        f_dv = ex.submit(ctx.tlc, 'Settings', cfg(dict(first[1], EnvPlans=[2000]), ['env'], [DEVIATION],
                                                  ['ActSeesActSet'], []),
                         workers=2, name='mc-with-deviation', count=False, must_hold=False, heap='2g')
        f_sim = [ex.submit(ctx.tlc, 'SettingsExport', cfg(sim_consts, ['all'], invariants=INVARIANTS + ['Export']),
                           workers=1, simulate='num=%d' % (sim_n // sim_runs), depth=100, seed=ctx.seed + 1 + k,
                           name='simulate-%d' % k, count=False, timeout=3000, heap='2g') for k in range(sim_runs)]
        exported = {k: f.result().printed_json('CASE') for k, f in f_ex.items()}
        timed = dedup([c for (n, fam), cs in exported.items() if fam == 'timed' for c in cs])
        plain = dedup([c for (n, fam), cs in exported.items() if fam != 'timed' for c in cs])
        if len(plain) < 2000 or len(timed) < 60:
            raise core.MachineryFailure('export too small: %d + %d sleeper cases' % (len(plain), len(timed)))
        t_tlc = time.time() - ctx.t0
        timed_obs, t_timed = [], []

        def sleepers():
            timed_obs.extend(run_cases(timed_pool, timed, 90, 1))
            t_timed.append(time.time() - t1)
        t1 = time.time()
        th = threading.Thread(target=sleepers)
        th.start()
        try:
            plain_obs = run_cases(main_pool, plain, 60, 10)
            # (meanwhile the model checking and the simulation runs have come to their end)
            mc = {k: f.result() for k, f in f_mc.items()}
            main_mc = mc['core']
            ctx.cov['checker_cmd'] = main_mc.cmd.replace(main_mc.run_dir, '<scratch>')
            ctx.require_coverage(main_mc, ACTIONS)
            dv = f_dv.result()
            if dv.violated != 'ActSeesActSet':
                raise core.MachineryFailure('the model with deviation %s should violate ActSeesActSet, got %s'
                                            % (DEVIATION, dv.violated))
            ctx.cov['negative_controls_rejected'] += 1
            sims = [f.result() for f in f_sim]
            checked = sum(int(m.group(1)) for r in sims
                          for m in [re.search(r'The number of states generated: (\d+)', r.out)] if m)
            ctx.cov['states_checked_by_simulation'] = checked
            seen = {case_key(c) for c in plain}
            deep = [c for c in dedup([c for r in sims for c in r.printed_json('CASE')]) if case_key(c) not in seen]
            if len(deep) < sim_n // 3:
                raise core.MachineryFailure('simulation exported %d cases only' % len(deep))
            deep_obs = run_cases(main_pool, deep, 60, 10)
            t_plain = time.time() - t1
        finally:
            th.join()
        if len(timed_obs) != len(timed):
            raise core.MachineryFailure('the sleeper cases were not all run')
        ctx.cov['timing_s'] = dict(tlc_until_export=round(t_tlc, 1), replay=round(t_plain, 1),
                                   sleepers_in_parallel=round(t_timed[0], 1))
        check_cases(ctx, 'every history of the exhaustive configurations', plain, plain_obs, main_pool)
        check_cases(ctx, 'random longer histories (TLC -simulate)', deep, deep_obs, main_pool)
        check_cases(ctx, 'sleeper cases (timeout observed for real)', timed, timed_obs, timed_pool)
        # the same histories once more where they can EMPTY a set of environment variables: Exactly is started
        # with the tracked variables of the model's start environment and nothing else
        unsetting = [dict(c, bare=True) for c in plain + deep if any(i['op'] == 'unset' for i in c['hist'])]
        if len(unsetting) > (700 if quick else 6000):
            unsetting = random.Random(ctx.seed + 5).sample(unsetting, 700 if quick else 6000)
        if len(unsetting) < 100:
            raise core.MachineryFailure('only %d histories with an unset' % len(unsetting))
        bare_obs = run_cases(main_pool, unsetting, 60, 10)
        check_cases(ctx, 'histories with an unset, started with the tracked variables as the whole environment',
                    unsetting, bare_obs, main_pool)
    finally:
        ex.shutdown(wait=True)
        timed_pool.close()
        main_pool.close()
    negative_controls(ctx, plain + deep, plain_obs + deep_obs)
    negative_controls_timed(ctx, timed, timed_obs)
    if not all(o.get('traced') for o in plain_obs[:50]):
        ctx.note('no trace events: the timeout of a process is observed by the sleeper cases only')
    # evidence
    rnd = random.Random(ctx.seed)
    picks = ([j for j, c in enumerate(plain) if c['fam'] == 'env' and len(c['hist']) >= 2
              and any(i['a'] == 'act' for i in c['hist'])],
             [j for j, c in enumerate(plain) if c['fam'] == 'misc' and len(c['hist']) >= 2])
    for js in picks:
        for j in rnd.sample(js, min(2, len(js))):
            ctx.sample(sample_of(plain[j], plain_obs[j]), limit=6)
    js = [j for j, c in enumerate(timed) if c['killedIn'] != '-']
    for j in rnd.sample(js, min(1, len(js))):
        ctx.sample(sample_of(timed[j], timed_obs[j]), limit=6)
    for j in rnd.sample(range(len(deep)), min(1, len(deep))):
        ctx.sample(sample_of(deep[j], deep_obs[j]), limit=6)
    walls = sorted(o.get('wall', 0) for o in timed_obs if isinstance(o, dict))
    ctx.cov['sleeper_case_wall_s'] = dict(min=walls[0], median=walls[len(walls) // 2], max=walls[-1]) if walls else {}
    ctx.cov['exhaustive'] = True
    ctx.cov['constants'] = {name: dict(families=fams, **consts) for name, (fams, consts) in configs.items()}
    ctx.cov['constants']['simulate'] = dict(num=sim_n, runs=sim_runs, **sim_consts)
    ctx.cov['rule'] = (
        'every terminal state of Settings.tla for the configurations of the tier (constants): family env = every '
        'sequence of env set/unset instructions (PHASE-SPEC x name x VALUE template) of the plans, family misc = '
        'every sequence of cd / timeout / def / child-cd instructions, every distribution over the four phases; '
        'family timed = every sequence of timeout instructions x every place of the one sleeper; plus %d random '
        'longer histories over all instruction kinds from TLC -simulate; each case observed by a process before '
        'every setting, at every phase start, as the action to check and at the end; non-trivial = at least one '
        'setting instruction; distinct by (plan, instruction sequence, place of the sleeper)' % len(deep))
    ctx.assumptions += [
        'the probe is a POSIX sh script started by run / $ / % / file = -stdout-from / stdout -from / exit-code '
        '-from / run @ SYMBOL / env = -stdout-from and as the action to check; which kind is used where is fixed '
        'by the position in the case (Settings!KindAt)',
        'PHASE-SPEC (-of act, -of !act) after [setup] is not listed by the manual: such a history may be refused as '
        'a whole (SYNTAX_ERROR before anything runs); if accepted it must behave as DESIGN C.7 says',
        'the program of `env NAME = -stdout-from PROGRAM` without PHASE-SPEC in [setup] (both sets are changed): '
        'the specification runs it once per set, in the environment of that set; accepted are the two runs in '
        'either order, or a single run in the environment of either set',
        'timeouts: one sleeper (3 s) per case of family timed; killed iff `timeout = 1` is in force (margin 2 s), '
        'must finish under 60 / 30 / none; everywhere else the timeout a process is started with is read from the '
        'proc events of the trace hooks of /repo (if the tree under test has no hooks that comparison is skipped), '
        'and the short limit of the model is written `timeout = 7` there (no process sleeps in those cases)',
        'a case that disagrees is run a second time and reported only if it disagrees again (machine load)',
    ]


def sample_of(c, o):
    return dict(family=c['fam'], history=hist_text(c), text=o.get('text'), verdict=o.get('verdict'),
                specification=[dict(id=pid(p), sees=p['sees'], env={n: (v['v'] if v['s'] else None)
                                                                     for n, v in p['env'].items()},
                                    cwd='/'.join(p['cwd']), timeout=p['to'], killed=p['killed'])
                               for p in c['probes']],
                observed=[r.get('raw') for r in o.get('records', [])])


def replay(ctx, rec):
    r = rec['record']
    if r.get('kind') == 'trace':
        from harness import trace_exec
        return trace_exec.replay(ctx, r)
    if r.get('kind') == 'path':
        with ctx.pool(workers=1) as pool:
            o = pool.map('harness.props.c11:exec_path_case', [dict(hist=r['rec']['hist'])], deadline=60)[0]
        print(json.dumps(dict(rec=r['rec'], observed=o), indent=1))
        if o.get('exit') != 0 or o.get('ran') != [list(x) for x in r['rec']['ran']]:
            print('VIOLATION property=C11 replay=(given)')
            return 1
        return 0
    with ctx.pool(workers=1) as pool:
        o = run_cases(pool, [r['case']], 90, 1)[0]
    clause = compare(r['case'], o)
    print(json.dumps(dict(history=hist_text(r['case']), specification=r['case']['probes'],
                          verdict=r['case']['verdict'], observed=o, clause=clause), indent=1))
    if clause:
        print('VIOLATION property=C11 replay=(given)')
        return 1
    return 0
