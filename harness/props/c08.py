"""C08  Symbols: defined before use, defined once, type-checked transitively, substituted faithfully.

spec/Symbols.tla enumerates small programs of `def` instructions and of instructions that refer to symbols, placed
in the phases in any file order, and processes them as Exactly does: ONE validation walk in execution order over
setup, act, before-assert, assert, cleanup with one growing table (builtins pre-loaded), then execution in the same
order with the execution-time table; values are resolved by substitution.  Families of programs:
  order2/3/4  every sequence of <= 2/3/4 instructions out of {def N = literal, def N = @[M]@, use N} over two names,
              each in any phase (the line of [act] included), in any file order: visibility, duplicates
  dupb        a definition of a builtin name, of every type
  direct, bdirect, link1, blink   (defined type, required type) matrix: a literal of each of the 13 types / a
              builtin / every one-reference shape (31) on top of them, used in each of 19 contexts
  link2       two-reference shapes (@[X]@-@[Y]@, X || Y, -rel X @[Y]@ ...) over pairs of base types
  chain2/3    chains of two / three one-reference definitions, used in every context that accepts the last type
  rand        (TLC -simulate) four definitions of any shape over everything defined so far, two uses
TLC checks the clauses of the property on the model (VisibleIffDefinedBefore, DefinedOnce, TypeCheckedTransitively,
RejectedIffViolation, RejectedBeforeExecution, ValidationTableCoversExecutionTable, AcceptedImpliesResolvable, ...)
and exports per program what must be observed: VALIDATION_ERROR with the violating instructions, kinds and symbols,
or PASS with what every executed use makes observable.

Every program is rendered as a real test case with real instructions and run (--keep): references in string / list /
argument position are observed through the argv of a probe process, path positions through the directory `dir`
creates, file names through `dir = { file .. }`, environment variable names through `env` + printenv, program names
through an executable of that name on PATH, INTEGER / line-number ranges and the matcher / transformer types
through the lines `-transformed-by` keeps of a four-line file, program symbols through `run @ SYM`, files-sources
through `dir = SYM`, text-sources through `file = @[SYM]@` (files-conditions, file- and files-matchers: accepted or
not).  The complete contents of the sandbox's act/ and tmp/ and of the probe directory are compared with the
prediction, so is the verdict, and for a VALIDATION_ERROR the reported place / rule / symbol and that nothing was
executed.
"""
import json
import os
import random
import re
import zlib
from concurrent.futures import ThreadPoolExecutor

from harness import core

ACTIONS = ['AddBase', 'AddLink1', 'AddBuiltinLink', 'AddLink2', 'AddDupBuiltin', 'AddUse', 'AddBuiltinUse', 'AddAny',
           'Finish', 'ValidateDefOk', 'ValidateDefDuplicate', 'ValidateDefBadRef', 'ValidateUseOk',
           'ValidateUseBadRef', 'ValidateActOk', 'ValidateActBadRef', 'ExecDef', 'ExecUse', 'ExecAct']
INVARIANTS = ['ReportMatchesWalk', 'TypeOK', 'VisibleIffDefinedBefore', 'DefinedOnce', 'TypeCheckedTransitively', 'RejectedIffViolation',
              'RejectedBeforeExecution', 'ValidationTableCoversExecutionTable', 'AcceptedImpliesResolvable',
              'EveryUseObserved', 'SubstitutionShape']
ALL_PHASES = ['setup', 'act', 'before-assert', 'assert', 'cleanup']
INSTR_PHASES = ['setup', 'before-assert', 'assert', 'cleanup']
BASES = ['s.lit', 'l.lit', 'l.empty', 'p.lit', 'm.lit', 't.lit', 'g.lit', 'n.lit', 'i.lit', 'c.lit', 'f.lit', 'k.lit',
         'o.lit', 'x.lit']
LINK1 = ['s.ref', 's.pre', 'l.ref', 'l.litref', 'l.instr', 'l.quoted', 'p.comp', 'p.rel', 'p.pre', 'm.ref', 'm.neg', 'm.eq',
         't.ref', 't.filt', 't.lm', 'g.ref', 'g.arg', 'n.ref', 'n.tm', 'n.im', 'i.ref', 'i.int',
         'c.name', 'c.ref', 'f.ref', 'f.tm', 'k.ref', 'k.sel', 'o.name', 'o.ref', 'x.ref', 'x.str']
LINK2 = ['s.two', 'l.two', 'p.relcomp', 'm.or', 't.seq', 'g.tt', 'g.in']
DATA_BASES = ['s.lit', 'l.lit', 'l.empty', 'p.lit']
DATA_LINK1 = ['s.ref', 's.pre', 'l.ref', 'l.litref', 'l.instr', 'l.quoted', 'l.quoted', 'p.comp', 'p.rel', 'p.pre']
# quick: chains of two links - the data types and every shape with a "made up of just strings" slot
QUICK_CHAIN = DATA_LINK1 + ['i.int', 'c.name', 'o.name', 'x.ref', 'x.str']
CTXS = ['data', 'comp', 'compn', 'compp', 'relsym', 'pre', 'int', 'range', 'env', 'pname', 'fname', 'tm', 'tt', 'pgm', 'lm', 'im',
        'fc', 'fm', 'fsm', 'fs', 'ts']

CONSTANTS = {
    'quick': dict(Fams=['dupb', 'direct', 'bdirect', 'link1', 'blink', 'link2', 'chain2', 'chain3', 'order2', 'order3'],
                  TypePhases=['setup'], DeepPhases=['setup'], ExtraUsePhases=['act'],
                  OrderPhases2=ALL_PHASES, OrderPhases3=['setup', 'act', 'assert'], OrderPhases4=[],
                  BaseShapes=BASES, Link1Shapes=LINK1, Link2Shapes=LINK2,
                  Link2Bases=DATA_BASES + ['m.lit', 't.lit', 'x.lit', 'g.lit'],
                  ChainBases=DATA_BASES, ChainShapes=QUICK_CHAIN,
                  Chain3Bases=['s.lit', 'l.lit', 'p.lit'], Chain3Shapes=['s.ref', 's.pre'],   # (strings 3 links deep)
                  Ctxs=CTXS),
    'thorough': dict(Fams=['dupb', 'direct', 'bdirect', 'link1', 'blink', 'link2', 'chain2', 'chain3', 'order2',
                           'order3', 'order4'],
                     TypePhases=INSTR_PHASES, DeepPhases=['setup', 'assert'], ExtraUsePhases=['act', 'cleanup'],
                     OrderPhases2=ALL_PHASES, OrderPhases3=ALL_PHASES, OrderPhases4=['setup', 'act', 'assert'],
                     BaseShapes=BASES, Link1Shapes=LINK1, Link2Shapes=LINK2, Link2Bases=BASES,
                     ChainBases=BASES, ChainShapes=LINK1, Chain3Bases=DATA_BASES, Chain3Shapes=QUICK_CHAIN, Ctxs=CTXS),
    # random behaviours beyond the exhaustive bound: TLC -simulate on the family "rand"
    'simulate': dict(Fams=['rand'], TypePhases=['setup'], DeepPhases=['setup'], ExtraUsePhases=[],
                     OrderPhases2=[], OrderPhases3=[], OrderPhases4=[], BaseShapes=BASES, Link1Shapes=LINK1,
                     Link2Shapes=LINK2, Link2Bases=[], ChainBases=[], ChainShapes=[], Chain3Bases=[],
                     Chain3Shapes=[], Ctxs=CTXS),
}
# the model's own negative controls: with a named deviation switched on TLC must refute the named clause
DEVIATIONS = [('FirstRefOnly', 'TypeCheckedTransitively', ['link2']),
              ('ActLast', 'VisibleIffDefinedBefore', ['order2']),
              ('NoBuiltinsInTable', 'DefinedOnce', ['dupb'])]


def _set(xs):
    return '{' + ', '.join('"%s"' % x for x in xs) + '}'


def cfg(consts, deviations=(), invariants=INVARIANTS, fams=None):
    lines = ['SPECIFICATION Spec']
    for k, v in consts.items():
        lines.append('CONSTANT %s = %s' % (k, _set(fams if (k == 'Fams' and fams is not None) else v)))
    lines.append('CONSTANT Deviations = %s' % _set(deviations))
    lines += ['INVARIANT %s' % i for i in invariants]
    lines.append('CHECK_DEADLOCK FALSE')
    return '\n'.join(lines) + '\n'


# ------------------------------------------------------------------------------------------------ concretisation
CONCRETE = {'A': 'A', 'B': 'B', 'C': 'C', 'D': 'D', 'SB': 'TAB', 'PB': 'EXACTLY_TMP'}
# every fourth program writes its symbols with names that are not ASCII (letters are letters)
CONCRETE_U = dict(CONCRETE, A='Ä', B='größe', C='Cé', D='ñD')
ABSTRACT = {v: k for k, v in list(CONCRETE.items()) + list(CONCRETE_U.items())}


def names_of(task):
    return CONCRETE_U if zlib.crc32(task['key'].encode()) % 4 == 0 else CONCRETE
LIT = {'A': 'a', 'B': 'b', 'C': 'c', 'D': 'd'}
LITROOT = {'B': '-rel-act ', 'C': ''}
U = 'abcd'
VALUE = {
    's.lit': '{l}', 's.ref': '@[{X}]@', 's.pre': 'p@[{X}]@', 's.two': '@[{X}]@-@[{Y}]@',
    'l.lit': "{l} '{l} x'", 'l.empty': '', 'l.ref': '@[{X}]@', 'l.litref': 'e @[{X}]@', 'l.instr': '"<@[{X}]@>"',
    'l.quoted': '"@[{X}]@" x',
    'l.two': '@[{X}]@ @[{Y}]@',
    'p.lit': '{relopt}{l}', 'p.comp': '-rel-tmp @[{X}]@', 'p.rel': '-rel {X} {l}', 'p.pre': '@[{X}]@/{l}',
    'p.relcomp': '-rel {X} @[{Y}]@',
    'm.lit': 'matches {l}', 'm.ref': '{X}', 'm.neg': '! {X}', 'm.or': '{X} || {Y}', 'm.eq': 'equals "@[{X}]@"',
    'n.lit': 'contents matches {l}', 'n.ref': '{X}', 'n.tm': 'contents {X}', 'n.im': 'line-num {X}',
    'i.lit': '== {pos}', 'i.ref': '{X}', 'i.int': '== "len(\'@[{X}]@\')"',
    't.lit': 'replace {l} {nxt}', 't.ref': '{X}', 't.filt': 'filter contents {X}', 't.lm': 'filter {X}',
    't.seq': '{X} | {Y}',
    'g.lit': '% {PROBE} {l}', 'g.ref': '@ {X} {l}', 'g.arg': '% {PROBE} @[{X}]@',
    'g.tt': '@ {X} {l}\n    -transformed-by {Y}', 'g.in': '@ {X} {l}\n    -stdin @[{Y}]@',
    'c.lit': '{{ {l} }}', 'c.name': '{{ @[{X}]@ }}', 'c.ref': '{X}',
    'f.lit': 'type file', 'f.ref': '{X}', 'f.tm': 'contents {X}',
    'k.lit': 'is-empty', 'k.ref': '{X}', 'k.sel': '-selection {X} is-empty',
    'o.lit': '{{ file {l} }}', 'o.name': '{{ file @[{X}]@ }}', 'o.ref': '{X}',
    'x.lit': '{l}', 'x.ref': '@[{X}]@', 'x.str': '"<@[{X}]@>"',
}
LINES_FROM = 'file {K}.txt = -contents-of lines.txt -transformed-by '
USE = {
    'data': ['run % {PROBE} "<@[{X}]@>" @[{X}]@ {K}'],
    'comp': ['dir -rel-tmp @[{X}]@/{K}'],
    'compn': ['dir q/@[{X}]@/{K}'],
    'compp': ['dir @[EXACTLY_ACT]@/@[{X}]@/{K}'],
    'relsym': ['dir -rel {X} {K}'],
    'pre': ['dir @[{X}]@/{K}'],
    'int': [LINES_FROM + 'filter line-num == "len(\'@[{X}]@\')"'],
    'range': [LINES_FROM + 'filter -line-nums "len(\'@[{X}]@\')"'],
    'env': ['env @[{X}]@ = {K}', "file {K}.txt = -stdout-from % printenv '{NAME}'"],
    'pname': ['run % @[{X}]@ {K}'],
    'fname': ['dir {K} = {{ file @[{X}]@ }}'],
    'tm': [LINES_FROM + 'filter contents {X}'],
    'lm': [LINES_FROM + 'filter {X}'],
    'im': [LINES_FROM + 'filter line-num {X}'],
    'tt': [LINES_FROM + '{X}'],
    'pgm': ['run @ {X} {K}'],
    'fc': ['def files-condition {KU} = {X}'],
    'fm': ['def file-matcher {KU} = {X}'],
    'fsm': ['def files-matcher {KU} = {X}'],
    'fs': ['dir {K} = {X}'],
    'ts': ['file {K}.txt = @[{X}]@'],
}
ACT_USE = {'data': '% {PROBE} "<@[{X}]@>" @[{X}]@ {K}', 'pname': '% @[{X}]@ {K}', 'pgm': '@ {X} {K}'}
PROBE_TEXT = '#!/bin/sh\nfor a; do k=$a; done\nfor a; do printf \'%s\\0\' "$a"; done > "{OUT}/$k"\n'


def key_of(i):
    return 'u%d' % i


def text_of(atoms, roots=None):
    """a string value (sequence of atoms) as text; roots: {'<tmp>': dir, '<act>': dir} (None: keep the markers)"""
    return ''.join('\t' if a == '<TAB>' else (roots or {}).get(a, a) for a in atoms)


def concretize(task, probe):
    """-> (text of the test case, {line number in the file: instruction (1-based index in the program)})
    The name `printenv` is asked for is the one the specification predicts (a literal, not a second reference)."""
    exp_name = {o['i']: text_of(o['name']) for o in task['obs'] if o['k'] == 'env'}
    names = names_of(task)
    lines, where = [], {}
    phase = None
    for i, ins in enumerate(task['prog'], 1):
        if ins['ph'] != phase:
            phase = ins['ph']
            lines.append('[%s]' % phase)
        refs = [names[r] for r in ins['refs']]
        f = dict(X=refs[0] if refs else '', Y=refs[1] if len(refs) > 1 else '', K=key_of(i), KU=key_of(i).upper(),
                 PROBE=probe, NAME=exp_name.get(i, 'NONE'))
        if ins['op'] == 'def':
            l = LIT.get(ins['name'], 'z')
            pos = U.find(l) + 1
            f.update(l=l, pos=pos, nxt=U[pos % 4], relopt=LITROOT.get(ins['name'], '-rel-tmp '))
            src = [('def %s %s = %s' % (ins['type'], names[ins['name']], VALUE[ins['shape']].format(**f))).rstrip()]
        elif ins['ph'] == 'act':
            src = [ACT_USE[ins['shape']].format(**f)]
        else:
            src = [t.format(**f) for t in USE[ins['shape']]]
        for s in src:
            for part in s.split('\n'):
                lines.append(part)
                where[len(lines)] = i
    return '\n'.join(lines) + '\n', where


RE_PHASE = re.compile(r'^In \[([a-z-]+)\]', re.M)
RE_LINE = re.compile(r', line (\d+)\s*$', re.M)
RE_UNDEF = re.compile(r"Symbol `(\w+)' is undefined")
RE_DUP = re.compile(r"Symbol `(\w+)' has already been defined")
RE_TYPE = re.compile(r'(?:Illegal|Invalid) type, of symbol "(\w+)"')


def project_error(stderr):
    """what a VALIDATION_ERROR report says: phase, line of the instruction, rule, symbol"""
    m = RE_PHASE.search(stderr)
    phase = m.group(1) if m else None
    m = RE_LINE.search(stderr)
    line = int(m.group(1)) if m else None
    kind = sym = None
    for k, rx in (('undefined', RE_UNDEF), ('duplicate', RE_DUP), ('type', RE_TYPE)):
        m = rx.search(stderr)
        if m:
            kind, sym = k, ABSTRACT.get(m.group(1), m.group(1))
            break
    return dict(phase=phase, line=line, kind=kind, sym=sym)


def exec_case(task, cd):
    from harness import inproc
    probe = os.path.join(cd.home, 'probe.sh')
    text, where = concretize(task, probe)
    cd.write({'c.case': text, 'probe.sh': PROBE_TEXT.replace('{OUT}', cd.out),
              'lines.txt': ''.join(c + '\n' for c in U)}, mode={'probe.sh': 0o755})
    bin_dir = os.path.join(cd.home, 'bin')
    os.makedirs(bin_dir)
    for o in task['obs']:
        if o['k'] == 'pname':
            name = text_of(o['name'])
            if name and '/' not in name and not os.path.lexists(os.path.join(bin_dir, name)):
                os.symlink(probe, os.path.join(bin_dir, name))
    r = inproc.run_main(['--keep', 'c.case'], cd, env={'PATH': bin_dir + os.pathsep + os.environ.get('PATH', '')})
    boxes = cd.sandboxes()
    sds = r['stdout'].strip()
    sds_ok = bool(sds) and len(boxes) == 1 and os.path.realpath(sds) == os.path.realpath(os.path.join(cd.tmp, boxes[0]))
    tree = {}
    if sds_ok:
        for root in ('act', 'tmp'):
            for rel, v in inproc.tree_snapshot(os.path.join(sds, root), with_contents=True, max_bytes=600).items():
                tree[root + '/' + rel] = v
    out = {}
    for n in sorted(os.listdir(cd.out)):
        with open(os.path.join(cd.out, n), 'rb') as fh:
            out[n] = fh.read().decode('utf-8', 'replace').split('\0')
    first = (r['stderr'].splitlines() or [''])[0]
    err = project_error(r['stderr']) if first != 'PASS' else None
    if err and err['line'] is not None:
        err['instr'] = where.get(err['line'])
    return dict(exit=r['exit'], exception=r['exception'], verdict=first, stderr=r['stderr'][:900],
                stdout=r['stdout'][:300], sandboxes=len(boxes), sds=sds if sds_ok else None, tree=tree, out=out,
                err=err, text=text)


# ------------------------------------------------------------------------------------------------ comparison
def expected_world(task, sds):
    """the complete contents of act/ + tmp/ and of the probe directory that the specification predicts"""
    roots = {'<tmp>': os.path.join(sds, 'tmp'), '<act>': os.path.join(sds, 'act')}
    tree, out = {}, {}

    def mkdirs(parts):
        for j in range(2, len(parts) + 1):
            tree['/'.join(parts[:j])] = 'd'

    for o in task['obs']:
        k, key = o['k'], key_of(o['i'])
        if k == 'argv':
            out[key] = [text_of(a, roots) for a in o['argv']] + [key, '']
        elif k == 'pname':
            out[key] = [key, '']
        elif k == 'dir':
            mkdirs([o['root']] + [text_of(c, roots) for c in o['comps']] + [key])
        elif k == 'lines':
            tree['act/%s.txt' % key] = 'f:' + ''.join(l + '\n' for l in o['lines'])
        elif k == 'env':
            tree['act/%s.txt' % key] = 'f:' + key + '\n'
        elif k == 'fname':
            tree['act/' + key] = 'd'
            tree['act/%s/%s' % (key, text_of(o['name'], roots))] = 'f:'
        elif k == 'files':
            tree['act/' + key] = 'd'
            for c in o['comps']:
                tree['act/%s/%s' % (key, text_of(c, roots))] = 'f:'
        elif k == 'text':
            tree['act/%s.txt' % key] = 'f:' + text_of(o['name'], roots)
        elif k != 'none':
            raise core.MachineryFailure('unknown kind of observation in the export: %r' % k)
    return tree, out


def act_instr(task):
    for i, ins in enumerate(task['prog'], 1):
        if ins['ph'] == 'act':
            return i
    return None


def error_clause(task, e):
    """the reported violation must be ONE of the violations the specification lists for the program"""
    i = act_instr(task) if e.get('phase') == 'act' else e.get('instr')
    hit = [v for v in task['viol'] if v['i'] == i]
    if not hit or e.get('phase') != task['prog'][i - 1]['ph']:
        return 'ReportedPlace: reported [%s] line %s, violations at %s' % (
            e.get('phase'), e.get('line'), sorted(v['i'] for v in task['viol']))
    if e.get('kind') is None:
        # the wording of the message is not recognised: the property fixes the verdict and the place, not the words
        return None
    if e.get('kind') not in hit[0]['kinds'] or e.get('sym') not in hit[0]['syms']:
        return 'ReportedRule: reported %s of %s, specification %s of %s' % (
            e.get('kind'), e.get('sym'), sorted(hit[0]['kinds']), sorted(hit[0]['syms']))
    return None


# ------------------------------------------------------------------------------------------------ symbol report
RE_REPORT = re.compile(r'^(\S+)\s+\((\d+)\) (\S+)$')
RE_LOC = re.compile(r'^In \[([a-z-]+)\]\n(?:\n*c\.case, line (\d+)\n)?', re.M)


def exec_symbol(task, cd):
    """`exactly symbol c.case`, and for every symbol it lists `symbol c.case NAME` and `symbol c.case NAME --ref`"""
    from harness import inproc
    probe = os.path.join(cd.home, 'probe.sh')
    text, where = concretize(task, probe)
    cd.write({'c.case': text, 'probe.sh': PROBE_TEXT.replace('{OUT}', cd.out),
              'lines.txt': ''.join(c + '\n' for c in U)}, mode={'probe.sh': 0o755})
    act = act_instr(task)

    def locations(out):
        return [[m.group(1), act if m.group(1) == 'act' and m.group(2) is None else where.get(int(m.group(2) or 0))]
                for m in RE_LOC.finditer(out)]

    r = inproc.run_main(['symbol', 'c.case'], cd)
    res = dict(exit=r['exit'], exception=r['exception'], stdout=r['stdout'][:600], stderr=r['stderr'][:900], text=text,
               verdict=((r['stderr'].splitlines() or [''])[0] if r['exit'] != 0 else 'OK'),
               sandboxes=len(cd.sandboxes()), out=sorted(os.listdir(cd.out)), listing=None, symbols={})
    if r['exit'] != 0:
        err = project_error(r['stderr'])
        if err['line'] is not None:
            err['instr'] = where.get(err['line'])
        res['err'] = err
        return res
    listing = []
    for line in r['stdout'].splitlines():
        m = RE_REPORT.match(line)
        listing.append([m.group(3), m.group(1), int(m.group(2))] if m else ['?', line[:80], -1])
    res['listing'] = listing
    for name, _, _ in listing:
        d = inproc.run_main(['symbol', 'c.case', name], cd)
        f = inproc.run_main(['symbol', 'c.case', name, '--ref'], cd)
        res['symbols'][name] = dict(def_exit=d['exit'], ref_exit=f['exit'], definition=locations(d['stdout']),
                                    refs=locations(f['stdout']), def_head=(d['stdout'].splitlines() or [''])[0])
    res['sandboxes'] = len(cd.sandboxes())
    res['out'] = sorted(os.listdir(cd.out))
    return res


def judge_symbol(task, o):
    if o.get('no_termination') or o.get('worker_died') or o.get('harness_exception') or o.get('exception'):
        return 'Terminates/NoEscapingException'
    if o['sandboxes'] or o['out']:
        return 'ReportExecutesNothing: something was executed'
    if task['outcome'] == 'VALIDATION_ERROR':
        if o['stdout'].strip():
            return 'ReportRejected: something was reported on stdout'
        if o['exit'] != 65 or o['verdict'] != 'VALIDATION_ERROR':
            return 'ReportRejected: exit %s %r, specification the VALIDATION_ERROR of the run' % (o['exit'], o['verdict'])
        return error_clause(task, o.get('err') or {})
    if o['exit'] != 0:
        return 'ReportAccepted: exit %s %r, specification a report' % (o['exit'], o['verdict'])
    prog = task['prog']
    names = names_of(task)
    exp = [[names[l['name']] if l['name'] != '-' else key_of(l['i']).upper(), l['type'], l['nrefs']]
           for l in task['report']]
    if any(l[0] == '?' for l in o['listing']):
        return None     # the layout of the listing is not recognised: the manual fixes its contents, not its layout
    if o['listing'] != exp:
        return 'ReportListing: %s, specification %s' % (o['listing'], exp)
    for l, refs in zip(exp, task['refsOf']):
        got = o['symbols'].get(l[0])
        li = [x for x in task['report'] if (names[x['name']] if x['name'] != '-' else key_of(x['i']).upper()) == l[0]][0]
        if got is None or got['def_exit'] != 0 or got['ref_exit'] != 0:
            return 'ReportOfSymbol: %s: %s' % (l[0], got)
        if got['definition'][:1] != [[prog[li['i'] - 1]['ph'], li['i']]]:
            return 'ReportedDefinition: %s at %s, specification instruction %d' % (l[0], got['definition'][:1], li['i'])
        want = [[prog[i - 1]['ph'], i] for i in refs]
        if got['refs'] != want:
            return 'ReportedReferences: %s at %s, specification %s' % (l[0], got['refs'], want)
    return None


def check_symbol_reports(ctx, tasks, label):
    with ctx.pool() as pool:
        obs = pool.map('harness.props.c08:exec_symbol', tasks, deadline=120, chunk=8)
    bad = 0
    for t, o in zip(tasks, obs):
        ctx.count()
        clause = judge_symbol(t, o)
        if clause:
            bad += 1
            ctx.fail(signature(t, clause), dict(kind='symbol-report', task=t, observed=o, clause=clause))
    ctx.cov['traces_validated_against_impl'] += len(tasks)
    ctx.cov.setdefault('replay', {})[label] = dict(
        cases=len(tasks), accepted=sum(1 for t in tasks if t['outcome'] == 'PASS'), disagreements=bad,
        symbols_reported=sum(len(t['report']) for t in tasks),
        references_reported=sum(len(r) for t in tasks for r in t['refsOf']))
    return obs


def judge(task, o):
    """None if the observation is what the specification predicts, else the clause that is broken"""
    if o.get('no_termination') or o.get('worker_died') or o.get('harness_exception') or o.get('exception'):
        return 'Terminates/NoEscapingException'
    if task['outcome'] == 'VALIDATION_ERROR':
        if o['verdict'] != 'VALIDATION_ERROR' or o['exit'] == 0:
            return 'Rejected: verdict %r exit %s, specification VALIDATION_ERROR (%s %s)' % (
                o['verdict'], o['exit'], task['bad']['kind'], task['bad']['sym'])
        if o['sandboxes'] or o['out'] or o['stdout'].strip():
            return 'RejectedBeforeExecution: something was executed'
        return error_clause(task, o['err'] or {})
    if o['verdict'] != 'PASS' or o['exit'] != 0:
        return 'Accepted: verdict %r exit %s, specification PASS' % (o['verdict'], o['exit'])
    if not o['sds']:
        return 'Machinery: sandbox not as expected'
    tree, out = expected_world(task, o['sds'])
    if o['out'] != out:
        ks = sorted(k for k in set(out) | set(o['out']) if out.get(k) != o['out'].get(k))
        return 'SubstitutedFaithfully: argv of %s is %r, specification %r' % (ks[0], o['out'].get(ks[0]),
                                                                              out.get(ks[0]))
    if o['tree'] != tree:
        ks = sorted(k for k in set(tree) | set(o['tree']) if tree.get(k) != o['tree'].get(k))
        return 'SubstitutedFaithfully: sandbox entry %s is %r, specification %r' % (ks[0], o['tree'].get(ks[0]),
                                                                                     tree.get(ks[0]))
    return None


# ------------------------------------------------------------------------------------------------ cases
def prog_key(c):
    return json.dumps([[i['ph'], i['op'], i['name'], i['shape'], i['refs']] for i in c['prog']])


def build_tasks(cases):
    seen, tasks = set(), []
    for c in cases:
        k = prog_key(c)
        if k in seen:
            continue
        seen.add(k)
        tasks.append(dict(key=k, fam=c['fam'], prog=c['prog'], outcome=c['outcome'], bad=c['bad'], viol=c['viol'],
                          obs=c['obs'], report=c.get('report', []), refsOf=c.get('refsOf', [])))
    return tasks


def nontrivial(t):
    return any(i['refs'] for i in t['prog'])


def signature(t, clause):
    p = ' '.join('%s:%s%s' % (i['ph'][:2] if i['ph'] != 'before-assert' else 'ba',
                              (i['name'] + '=') if i['op'] == 'def' else '', i['shape'])
                 + ('(%s)' % ','.join(i['refs']) if i['refs'] else '') for i in t['prog'])
    return '%s fam=%s prog=%s' % (clause.split(':')[0], t['fam'], p)


def check_tasks(ctx, tasks, label, deadline=120):
    with ctx.pool() as pool:
        obs = pool.map('harness.props.c08:exec_case', tasks, deadline=deadline, chunk=16)
    bad = rejected = first = 0
    for t, o in zip(tasks, obs):
        ctx.count()
        if nontrivial(t):
            ctx.nontrivial(t['key'])
        clause = judge(t, o)
        if clause is None and t['outcome'] != 'PASS':
            # (information: the property does not demand it) how often the reported violation is the FIRST one
            e = o['err']
            rejected += 1
            first += ((act_instr(t) if e['phase'] == 'act' else e.get('instr')) == t['bad']['i']
                      and e['kind'] == t['bad']['kind'] and e['sym'] == t['bad']['sym'])
        if clause:
            bad += 1
            ctx.fail(signature(t, clause), dict(kind='case', task=t, observed=o, clause=clause))
    ctx.cov['traces_validated_against_impl'] += len(tasks)
    by_fam = {}
    for t in tasks:
        d = by_fam.setdefault(t['fam'], dict(cases=0, accepted=0))
        d['cases'] += 1
        d['accepted'] += t['outcome'] == 'PASS'
    ctx.cov.setdefault('replay', {})[label] = dict(cases=len(tasks), disagreements=bad, by_family=by_fam,
                                                   rejected_as_predicted=rejected,
                                                   reported_the_first_violation_of_the_walk=first)
    return obs


def ideal_observation(t):
    """what a program that conforms would make observable for the case (built from the prediction alone, so that
    the negative controls do not depend on the program under test)"""
    sds = '/SDS'
    if t['outcome'] == 'PASS':
        tree, out = expected_world(t, sds)
        return dict(exit=0, exception=None, verdict='PASS', stderr='PASS\n', stdout=sds + '\n', sandboxes=1, sds=sds,
                    tree=tree, out=out, err=None)
    b = t['bad']
    return dict(exit=65, exception=None, verdict='VALIDATION_ERROR', stderr='', stdout='', sandboxes=0, sds=None,
                tree={}, out={}, err=dict(phase=t['prog'][b['i'] - 1]['ph'], line=None, instr=b['i'], kind=b['kind'],
                                          sym=b['sym']))


def negative_controls(ctx, tasks):
    """corrupt conforming observations (and expectations): the comparison must reject every one of them"""
    rnd = random.Random(ctx.seed + 8)
    idx = list(range(len(tasks)))
    rnd.shuffle(idx)
    per_kind, rejected, tried = {}, 0, 0
    for j in idx:
        if tried >= 700:
            break
        t, o = tasks[j], ideal_observation(tasks[j])
        if judge(t, o) is not None:
            raise core.MachineryFailure('the comparison rejects the observation built from the prediction itself: '
                                        '%s / %s' % (judge(t, o), t['key']))
        passed = t['outcome'] == 'PASS'
        m = rnd.randrange(9)
        if per_kind.get(m, 0) >= 80:
            continue
        if m == 0:      # the verdict
            if passed:
                o.update(verdict='VALIDATION_ERROR', exit=65, sandboxes=0, out={}, stdout='', sds=None, tree={},
                         err=dict(phase='setup', line=2, instr=1, kind='undefined', sym='A'))
            else:
                o.update(verdict='PASS', exit=0, err=None)
        elif m == 1:    # a list inside a string joined with another separator
            ks = [k for k, v in o['out'].items() if ' ' in v[0] and v[0].startswith('<')]
            if not ks:
                continue
            o['out'][ks[0]][0] = o['out'][ks[0]][0].replace(' ', ',', 1)
        elif m == 2:    # a list not spliced / an element lost
            ks = [k for k, v in o['out'].items() if len(v) >= 4]
            if not ks:
                continue
            del o['out'][ks[0]][1]
        elif m == 3:    # a directory created somewhere else
            ks = [k for k, v in o['tree'].items() if v == 'd' and k.split('/')[-1].startswith('u')]
            if not ks:
                continue
            o['tree'][('tmp' if ks[0].startswith('act') else 'act') + ks[0][3:]] = o['tree'].pop(ks[0])
        elif m == 4:    # lines kept by another matcher / transformer
            ks = [k for k, v in o['tree'].items() if v.startswith('f:') and k.endswith('.txt')]
            if not ks:
                continue
            o['tree'][ks[0]] = 'f:' if o['tree'][ks[0]] != 'f:' else 'f:a\n'
        elif m == 5:    # the violation reported at another instruction
            if passed:
                continue
            others = [i for i in range(1, len(t['prog']) + 1) if i not in [v['i'] for v in t['viol']]]
            if not others:
                continue
            o['err'].update(instr=others[0], phase=t['prog'][others[0] - 1]['ph'])
        elif m == 6:    # another rule
            if passed:
                continue
            kinds = set(k for v in t['viol'] for k in v['kinds'])
            other = [k for k in ('undefined', 'duplicate', 'type') if k not in kinds]
            if not other:
                continue
            o['err']['kind'] = other[0]
        elif m == 7:    # something was executed although the case is rejected
            if passed:
                continue
            o['out'] = {'u1': ['x', 'u1', '']}
        else:           # corrupt the expectation instead: a value loses its last atom / an observation is dropped
            if not passed or not any(ob['k'] != 'none' for ob in t['obs']):
                continue
            t = json.loads(json.dumps(t))
            ob = [ob for ob in t['obs'] if ob['k'] != 'none'][-1]
            if ob['k'] == 'argv' and ob['argv'] and ob['argv'][0]:
                ob['argv'][0] = ob['argv'][0][:-1]
            else:
                t['obs'].remove(ob)
        tried += 1
        per_kind[m] = per_kind.get(m, 0) + 1
        rejected += judge(t, o) is not None
    if tried < 100 or tried != rejected or len(per_kind) < 9:
        raise core.MachineryFailure('negative controls: %d of %d corrupted records rejected (kinds %s)'
                                    % (rejected, tried, per_kind))
    ctx.cov['negative_controls_rejected'] += rejected


def run(ctx):
    quick = ctx.tier == 'quick'
    consts = CONSTANTS[ctx.tier]
    # export: one TLC process (one worker: PrintT) per group of families, side by side
    if quick:
        groups = [[f for f in consts['Fams'] if f.startswith('order')],
                  [f for f in consts['Fams'] if not f.startswith('order')]]
    else:
        big = ['order3', 'order4', 'chain2', 'chain3']
        groups = [[f] for f in big] + [[f for f in consts['Fams'] if f not in big]]
    # TLC runs, side by side:
    #  mc                 the model: the clauses of the property hold on every program of every family
    #  mc-with-<dev>      ... and are sharp: with a named deviation switched on TLC refutes the named clause
    #  export-*           spec -> code: every program with what the specification predicts
    #  simulate           beyond the exhaustive bound: random behaviours of the same machine (family "rand")
    with ThreadPoolExecutor(10) as ex:
        f_mc = ex.submit(ctx.tlc, 'Symbols', cfg(consts), coverage=True, name='mc', workers=6 if quick else 8,
                         heap='4g' if quick else '8g', timeout=3000)
        f_dev = [ex.submit(ctx.tlc, 'Symbols', cfg(CONSTANTS['quick'], [d], [inv], fams=fams), workers=1,
                           name='mc-with-deviation-' + d, count=False, must_hold=False, heap='2g')
                 for d, inv, fams in DEVIATIONS]
        f_exp = [ex.submit(ctx.tlc, 'SymbolsExport', cfg(consts, invariants=['Export'], fams=g), workers=1,
                           name='export-' + g[0], count=False, timeout=3000, heap='3g') for g in groups]
        f_sim = ex.submit(ctx.tlc, 'SymbolsExport', cfg(CONSTANTS['simulate'], invariants=INVARIANTS + ['Export']),
                          workers=1, simulate='num=%d' % (400 if quick else 12000), depth=30, seed=ctx.seed + 1,
                          name='simulate', timeout=3000, heap='3g')
        # (the replay of the exported programs does not wait for the model checking run)
        tasks = build_tasks([c for f in f_exp for c in f.result().printed_json('CASE')])
        n_pass = sum(1 for t in tasks if t['outcome'] == 'PASS')
        if len(tasks) < 3000 or n_pass < 300 or len(tasks) - n_pass < 1000:
            raise core.MachineryFailure('export too small: %d cases, %d accepted' % (len(tasks), n_pass))
        negative_controls(ctx, tasks)
        obs = check_tasks(ctx, tasks, 'every program of the model')
        # the symbol report (`exactly symbol`) of the same programs: listing, definition, references
        rnd_s = random.Random(ctx.seed + 21)
        acc = [t for t in tasks if t['outcome'] == 'PASS']
        rej = [t for t in tasks if t['outcome'] != 'PASS']
        sym_tasks = (acc if not quick else rnd_s.sample(acc, min(len(acc), 2500))) + \
            rnd_s.sample(rej, min(len(rej), 800 if quick else 8000))
        sobs = check_symbol_reports(ctx, sym_tasks, 'symbol report of the programs of the model')
        # control: a corrupted report must be rejected
        tried = rej_n = 0
        for t, o in zip(sym_tasks, sobs):
            if t['outcome'] != 'PASS' or not t['report'] or judge_symbol(t, o) is not None or tried >= 30:
                continue
            o2 = json.loads(json.dumps(o))
            if tried % 2 == 0:
                o2['listing'][0][2] += 1
            else:
                nm = o2['listing'][-1][0]
                o2['symbols'][nm]['definition'] = [['setup', 99]]
            tried += 1
            rej_n += judge_symbol(t, o2) is not None
        if tried == 0 or tried != rej_n:
            raise core.MachineryFailure('symbol report controls: %d of %d rejected' % (rej_n, tried))
        ctx.cov['negative_controls_rejected'] += rej_n
        res = f_mc.result()
        devs = [f.result() for f in f_dev]
        sim = f_sim.result()
    ctx.cov['checker_cmd'] = res.cmd.replace(res.run_dir, '<scratch>')
    ctx.require_coverage(res, ACTIONS)
    for (d, inv, _), r in zip(DEVIATIONS, devs):
        if r.violated != inv:
            raise core.MachineryFailure('the model with deviation %s should violate %s, got %s' % (d, inv, r.violated))
        ctx.cov['negative_controls_rejected'] += 1
    seen = {t['key'] for t in tasks}
    deep = [t for t in build_tasks(sim.printed_json('CASE')) if t['key'] not in seen]
    if len(deep) < (100 if quick else 2000):
        raise core.MachineryFailure('simulation produced too few programs: %d' % len(deep))
    check_tasks(ctx, deep, 'random deeper programs (TLC -simulate)')
    # evidence
    rnd = random.Random(ctx.seed)
    picks = ([j for j, t in enumerate(tasks) if t['fam'] == 'link2' and t['outcome'] == 'PASS'
              and t['prog'][2]['shape'] == 's.two' and t['prog'][1]['type'] == 'list'][:1]
             + [j for j, t in enumerate(tasks) if t['fam'] == 'link2' and t['outcome'] != 'PASS'
                and t['bad']['i'] == 4][:1]
             + [j for j, t in enumerate(tasks) if t['fam'].startswith('order') and t['outcome'] != 'PASS'
                and [i['ph'] + i['op'] for i in t['prog']] == ['assertdef', 'actuse', 'setupdef']][:1]
             + rnd.sample([j for j, t in enumerate(tasks) if t['fam'] == 'chain2' and t['outcome'] == 'PASS'], 2))
    for j in picks:
        t, o = tasks[j], obs[j]
        ctx.sample(dict(fam=t['fam'], text=o.get('text'),
                        specification=dict(outcome=t['outcome'], reported=t['bad'] if t['outcome'] != 'PASS' else None,
                                           observable=[dict(instr=b['i'], kind=b['k'],
                                                            argv=[text_of(a) for a in b['argv']],
                                                            path=[b['root']] + [text_of(c) for c in b['comps']],
                                                            name=text_of(b['name']), lines=b['lines'])
                                                       for b in t['obs']]),
                        observed=dict(verdict=o.get('verdict'), reported=o.get('err'), probes=o.get('out'),
                                      sandbox=o.get('tree'))))
    ctx.cov['exhaustive'] = True
    ctx.cov['constants'] = {k: v for k, v in consts.items()}
    ctx.cov['rule'] = (
        'every terminal state of Symbols.tla for the constants of the tier: families order2/3/4 (every sequence of '
        'def-literal / def-by-reference / use over two names in any phases and file order), dupb, the (defined type x '
        'required type) matrix direct/bdirect/link1/blink over 13 types x 31 one-reference shapes x 19 contexts (+ the '
        'line of [act]), link2 (two-reference shapes over pairs of base types), chain2/chain3 (when the definitions '
        'already break a rule, one representative use instead of every context); plus %d random deeper programs (4 '
        'definitions, 2 uses) from TLC -simulate; non-trivial = a program with at least one reference; distinct by '
        'program' % len(deep))
    ctx.assumptions += [
        'path symbols only use the relativities act, tmp and current directory (no cd instruction: = act), which every '
        'path context used here accepts; relativity restrictions are the subject of C12',
        'which of several violations of one test case is reported is not fixed by the property: the reported '
        'instruction / rule / symbol must be ONE of the violations the specification lists for the program',
        'observation of matcher / transformer / INTEGER values is extensional over the four probe lines a b c d; '
        'files-conditions, file-matchers and files-matchers are not observed beyond accepted / rejected',
        'sh and printenv are on PATH; program names are observed through symbolic links to the probe in a directory '
        'put first on PATH for the run',
        'the restriction "made up of just strings" is taken from the property statement and the error messages of the '
        'program; the reference manual does not list the contexts it applies to',
    ]


def replay_symbol(ctx, r):
    with ctx.pool(workers=1) as pool:
        o = pool.map('harness.props.c08:exec_symbol', [r['task']], deadline=120)[0]
    clause = judge_symbol(r['task'], o)
    print(json.dumps(dict(text=o.get('text'), specification=dict(report=r['task']['report'], refs=r['task']['refsOf']),
                          observed={k: o.get(k) for k in ('exit', 'verdict', 'listing', 'symbols', 'err')},
                          clause=clause), indent=1))
    if clause:
        print('VIOLATION property=C08 replay=(given)')
        return 1
    return 0


def replay(ctx, rec):
    r = rec['record']
    if r.get('kind') == 'symbol-report':
        return replay_symbol(ctx, r)
    with ctx.pool(workers=1) as pool:
        o = pool.map('harness.props.c08:exec_case', [r['task']], deadline=120)[0]
    clause = judge(r['task'], o)
    t = r['task']
    print(json.dumps(dict(specification=dict(outcome=t['outcome'], bad=t['bad'], viol=t['viol'], obs=t['obs']),
                          observed=o, clause=clause), indent=1))
    if clause:
        print('VIOLATION property=C08 replay=(given)')
        return 1
    return 0
