"""C03  Validation precedes execution: an invalid test case has no effects.

spec/Invalid.tla (a refinement of PhaseExec) enumerates base case x one defective instruction of every class at
every (phase, position) x actor x front end, with the predicted verdict and detecting step.  Every case is
rendered with REAL instructions (markers written outside the sandbox by every phase and by the action to check),
run through the real CLI, and compared: verdict / exit code, no marker, no sandbox directory, home unchanged.
The hook trace of every run is additionally validated against PhaseExecTrace (no sandbox / process event may
occur; the failing step is the predicted one).
"""
import json
import os
import random

from harness import core, trace_exec
from harness.stubs_names import PHASE_NAME, STEP_NAME

INVARIANTS = ['DetectedAsPredicted', 'AlwaysDetected', 'InvalidHasNoEffect', 'SymbolCommandExecutesNothing',
              'FoundEvenIfLast', 'StepOrder', 'NoEffectWhenInvalid', 'ValidateBeforeMain']


def cfg(base, invariants=INVARIANTS):
    return ('SPECIFICATION ISpec\nCONSTANT MaxN = %d\nCONSTANT Base = %d\n' % (base + 2, base)
            + ''.join('INVARIANT %s\n' % i for i in invariants) + 'CHECK_DEADLOCK FALSE\n')


DEFECT_LINE = {
    'syntax_args': 'file',
    'unknown_instr': 'no-such-instruction x',
    'unterminated_quote': "def string Q = 'abc",
    'undef_symbol': 'def string U = @[UNDEFINED]@',
    'defined_later': 'def string U2 = @[LATER]@',
    'wrong_type': 'def text-matcher TM = DEFINED',
    'illegal_rel_via_symbol': 'dir -rel HOME_PATH newdir',
    'missing_home_file': 'run -python -existing-file -rel-home missing.py',
    'bad_integer': 'timeout = 1.5',
    'bad_regex': "file r.txt = -contents-of -rel-home exists.txt -transformed-by replace '(' x",
}
# variants of the same class (index chosen by position so that all are used)
DEFECT_VARIANTS = {
    'illegal_rel_via_symbol': ['dir -rel HOME_PATH newdir', 'file -rel HOME_PATH x.txt = y', 'dir @[HOME_PATH]@/newdir',
                               # the result directory: never for what is created; before [act] not for what is read
                               {'setup': 'file fr.txt = -contents-of @[RESULT_PATH]@', 'other': 'dir -rel RESULT_PATH newdir'},
                               {'setup': 'copy @[RESULT_PATH]@ dst', 'other': 'file @[RESULT_PATH]@ = y'},
                               {'setup': 'stdin = -contents-of -rel RESULT_PATH x', 'other': 'copy -rel-home exists.txt @[RESULT_PATH]@'}],
    'syntax_args': ['file', 'def string', 'timeout =',
                    {'setup': 'copy -rel-result stdout dst', 'other': 'file -rel-result x.txt = y'}],
    # (the lines of [act] are in ACT, per actor; this entry gives the number of variants)
    'act_syntax': [0, 1, 2, 3],
    'undef_symbol': ['def string U = @[UNDEFINED]@', 'def list UL = a @[UNDEFINED]@', '$ echo @[UNDEFINED]@',
                     'def path UP = -rel UNDEFINED x',
                     # names of letters that are not ASCII, inside strings
                     'def string U2 = "@[r\u00e9sultat]@"', 'file u3.txt = "x @[gr\u00f6\u00dfe]@"', '$ echo @[\u00fc]@'],
    'missing_home_file': ['run -python -existing-file -rel-home missing.py', 'run -rel-home missing-program',
                          'copy -rel-home missing.txt',
                          'copy /nonexistent-dir-of-verif/missing.txt', 'copy -rel HERE_PATH missing.txt',
                          'run -python -existing-file -rel-act-home missing.py',
                          # an argument given where a program SYMBOL is referenced
                          'run @ PGM x -existing-file -rel-home missing.py', 'run @ PGM2 -existing-path missing-path',
                          'file f2.txt = -contents-of -rel-home missing.txt -transformed-by ( replace a b | grep c )',
                          # what must be a file is a DIRECTORY (which exists, and is "executable" for the OS)
                          'run -rel-home a-directory', 'run -python -existing-file -rel-home a-directory',
                          'copy -rel-home a-directory/missing.txt'],
    'bad_integer': ['timeout = 1.5', 'timeout = abc', 'timeout = "1 +"',
                    {'assert': 'dir-contents . : matches {\n  a.txt\n  a.txt : contents num-lines == 1.5\n}',
                     'other': 'timeout = 2.5'},
                    {'assert': 'dir-contents . : matches {\n  a.txt : contents num-lines == 1+\n  a.txt\n}',
                     'other': 'timeout = 1+'},
                    {'assert': 'exit-code == not_an_integer && ( > 1 || < 3 )', 'other': 'timeout = @[BAD_INT]@'},
                    {'assert': 'stdout num-lines == @[BAD_INT]@',
                     'other': "file r.txt = 'a' -transformed-by ( filter line-num == 1+ | ( grep a | grep b ) )"}],
    'bad_regex': ["file r.txt = -contents-of -rel-home exists.txt -transformed-by replace '(' x",
                  "file r.txt = -contents-of -rel-home exists.txt -transformed-by grep '*'",
                  "file r.txt = -contents-of -rel-home exists.txt -transformed-by filter contents matches '[a'",
                  # the defect in the matcher of a REPEATED file name of a FILES-CONDITION ([assert] only)
                  {'assert': "dir-contents . : matches {\n  a.txt : type file\n  a.txt : contents matches '('\n}",
                   'other': "file r.txt = -contents-of -rel-home exists.txt -transformed-by grep '('"},
                  # ... and in the matcher of the EARLIER of two entries with the same name
                  {'assert': "dir-contents . : matches {\n  a.txt : contents matches '('\n  b.txt\n  a.txt : type file\n}",
                   'other': "file r.txt = -contents-of -rel-home exists.txt -transformed-by replace '[' x"},
                  # the text of the regex comes from a string symbol (known when the symbols are: before execution)
                  {'assert': 'stdout matches @[BAD_RE]@',
                   'other': 'file r.txt = -contents-of -rel-home exists.txt -transformed-by replace @[BAD_RE]@ x'},
                  # the defective operand is FOLLOWED by a composite operand
                  {'assert': "stdout matches '(' && ( matches a || matches b )",
                   'other': "file r.txt = -contents-of -rel-home exists.txt -transformed-by ( replace '(' x | ( grep a | grep b ) )"}],
    # (the class stands for "a defect of a symbol that symbol validation finds": besides wrong types, a symbol defined
    #  a SECOND time - written out, and by including a second time the file that defines it)
    'wrong_type': ['def string DEFINED = again', 'including defs.xly', 'def text-matcher TM = DEFINED', 'def path WP = -rel DEFINED x', 'def text-transformer WT = DEFINED',
                   # a wrong type reached indirectly, and not through the first reference of the definition
                   'timeout = @[INDIRECT]@', 'env @[INDIRECT]@ = v'],
}
ACT = {
    'command-line': dict(conf='', ok='$ touch {mark}/act',
                         # ... and source that is left after a complete PROGRAM
                         act_syntax=["'unterminated", '$ touch {mark}/act\n$ touch {mark}/act2', '% touch {mark}/act\nstray text',
                                     "% touch {mark}/act\n  -stdin 'x'\n\nstray"],
                         act_undef_symbol='% sh @[UNDEFINED]@', act_missing_program='missing-program arg'),
    'file': dict(conf='actor = file % sh', ok='script.sh',
                 act_syntax=["'unterminated", 'script.sh\nscript.sh', 'script.sh a\n  b', "script.sh 'a"],
                 act_undef_symbol='script.sh @[UNDEFINED]@', act_missing_program='missing-script.sh'),
    'source': dict(conf='actor = source % sh', ok='touch {mark}/act', act_undef_symbol='echo @[UNDEFINED]@'),
}
INSTR_PHASES = ['setup', 'ba', 'assert', 'cleanup']


def concretize(c, mark):
    """abstract case -> (files, argv)"""
    a = ACT[c['actor']]
    parts = []
    if a['conf']:
        parts.append('[conf]\n%s\n' % a['conf'])
    for ph in INSTR_PHASES:
        lines = ['$ touch %s/%s-%d' % (mark, ph, j) for j in range(1, c['base'] + 1)]
        pre = []
        if ph == 'setup':
            pre = ['def string DEFINED = v', 'def path HOME_PATH = -rel-home sub', 'def path HERE_PATH = -rel-here sub',
                   'def path RESULT_PATH = -rel-result stdout',
                   'def string INDIRECT = @[DEFINED]@-@[HOME_PATH]@', 'def program PGM = % true a',
                   'def program PGM2 = @ PGM b', "def string BAD_RE = '('", 'def string BAD_INT = 1+',
                   'including defs.xly']
            lines.append('file created-%s.txt = x' % ph)
        if ph == c['dphase']:
            vs = DEFECT_VARIANTS.get(c['defect'])
            if vs and c.get('variant') is not None:
                line = vs[c['variant'] % len(vs)]
            else:
                line = vs[(c['dpos'] + INSTR_PHASES.index(ph)) % len(vs)] if vs else DEFECT_LINE[c['defect']]
            if isinstance(line, dict):
                line = line.get(ph, line['other'])
            lines.insert(c['dpos'] - 1, line)
        parts.append('[%s]\n%s\n' % (PHASE_NAME[ph], '\n'.join(pre + lines)))
        if ph == 'setup':
            act = a[c['defect']] if c['dphase'] == 'act' else a['ok']
            if isinstance(act, list):
                v = c['variant'] if c.get('variant') is not None else (
                    ['normal', 'keep', 'act'].index(c['mode']) + (c['frontend'] == 'symbol'))
                act = act[v % len(act)]
            parts.append('[act]\n%s\n' % act.format(mark=mark))
    text = ''.join(parts)
    if c['defect'] == 'defined_later':
        text += '[cleanup]\ndef string LATER = v\n'
    files = {'c.case': text, 'script.sh': 'touch %s/act\n' % mark, 'exists.txt': 'x\n', 'a-directory/in.txt': 'x\n',
             'defs.xly': 'def string FROM_INCLUDED_FILE = v\n'}
    if c['frontend'] == 'symbol':
        argv = ['symbol', 'c.case']
    else:
        argv = {'normal': [], 'keep': ['--keep'], 'act': ['--act']}[c['mode']] + ['c.case']
    return files, argv


def exec_case(task, cd):
    from harness import inproc
    files, argv = concretize(task, cd.out)
    cd.write(files)
    before = inproc.tree_snapshot(cd.home)
    r = inproc.run_main(argv, cd, trace=True)
    after = inproc.tree_snapshot(cd.home)
    return dict(exit=r['exit'], exception=r['exception'], stdout=r['stdout'][:300], stderr=r['stderr'][:500],
                markers=sorted(os.listdir(cd.out)), sandboxes=cd.sandboxes(), home_changed=(before != after),
                cwd_ok=r['cwd_after'] == r['cwd_before'], env_changed=r['env_changed'], events=r.get('trace', []),
                argv=argv, text=files['c.case'])


def exec_base(task, cd):
    """sanity (vacuity control): the base case without defect runs everything."""
    from harness import inproc
    c = dict(task, defect='none', dphase='none')
    files, argv = concretize(c, cd.out)
    cd.write(files)
    r = inproc.run_main(argv, cd)
    return dict(exit=r['exit'], stdout=r['stdout'][:100], markers=sorted(os.listdir(cd.out)))


def compare(c, o):
    if o.get('no_termination') or o.get('worker_died') or o.get('harness_exception') or o.get('exception'):
        return 'Terminates/NoEscapingException'
    first_out = (o['stdout'].splitlines() or [''])[0]
    first_err = (o['stderr'].splitlines() or [''])[0]
    if c['detected']:
        if o['exit'] != 65:
            return 'ExitCode65: exit %s' % o['exit']
        ident = first_out if (c['frontend'] == 'run' and c['mode'] == 'normal') else first_err
        if ident != c['verdict']:
            return 'Verdict: %r, specification %s' % (ident, c['verdict'])
    else:
        if o['exit'] != 0:
            return 'SymbolReportOfUncheckedDefect: exit %s' % o['exit']
    if o['markers']:
        return 'NoEffect: markers %s' % o['markers']
    if o['sandboxes']:
        return 'NoSandbox: %s' % o['sandboxes']
    if o['home_changed']:
        return 'HomeUnchanged'
    if not o['cwd_ok'] or o['env_changed']:
        return 'ProcessStateRestored'
    evs = [e['ev'] for e in o['events']]
    if 'sds-create' in evs or 'proc' in evs:
        return 'TraceHasExecutionEvents: %s' % [e for e in evs if e in ('sds-create', 'proc')]
    if c['frontend'] == 'run' and c['step'][0] != 'doc':
        fr = [e for e in o['events'] if e['ev'] == 'full-result']
        want = STEP_NAME[tuple(c['step'])]
        if len(fr) != 1 or fr[0]['step'] != want:
            return 'DetectingStep: %s, specification %s' % ([e.get('step') for e in fr], want)
    return None


def header_swallowed(c, o):
    """Signature of known finding D11: an instruction whose mandatory argument is missing, written on the line
    directly before a phase header - the header line is taken as the argument."""
    if c['defect'] != 'syntax_args' or not o.get('text'):
        return False
    lines = o['text'].split('\n')
    vs = DEFECT_VARIANTS['syntax_args']
    if c.get('variant') is not None and c['dpos'] <= c['base'] and lines:
        pass
    for j, l in enumerate(lines[:-1]):
        if l in vs and lines[j + 1].startswith('['):
            return True
    return False


def run(ctx):
    quick = ctx.tier == 'quick'
    base = 2 if quick else 3
    res = ctx.tlc('Invalid', cfg(base), coverage=True, name='mc')
    ctx.require_coverage(res, ['ReadDocument', 'Exec', 'SymbolReport'])
    exp = ctx.tlc('InvalidExport', cfg(base, invariants=['Export']), workers=1, name='export', count=False)
    cases = exp.printed_json('CASE')
    # every variant of the defect class at every place (the quick tier rotates the variants over the places -
    # except those of the classes with variants that depend on the phase)
    more = []
    for c in cases:
        if True:        # (every variant at every place, in both tiers)
            for v in range(len(DEFECT_VARIANTS.get(c['defect'], [None]))):
                more.append(dict(c, variant=v))
        else:
            more.append(c)
    cases = more
    with ctx.pool() as pool:
        obs = pool.map('harness.props.c03:exec_case', cases, deadline=60, chunk=8)
        sanity = pool.map('harness.props.c03:exec_base',
                          [dict(actor=a, base=base, dpos=1, frontend='run', mode='normal')
                           for a in ('command-line', 'file', 'source')], deadline=60, chunk=1)
    want_marks = 4 * base + 1
    for s in sanity:
        if s.get('exit') != 0 or len(s.get('markers', [])) != want_marks:
            raise core.MachineryFailure('vacuity control: the base case does not run everything: %s' % s)
    items = []
    bad = 0
    for c, o in zip(cases, obs):
        ctx.count()
        ctx.nontrivial(json.dumps([c.get(k) for k in ('defect', 'dphase', 'dpos', 'frontend', 'mode', 'actor', 'variant')]))
        clause = compare(c, o)
        if clause:
            bad += 1
            explained = 'D11' if header_swallowed(c, o) else None
            ctx.fail('%s defect=%s phase=%s pos=%d frontend=%s mode=%s actor=%s' % (
                clause.split(':')[0], c['defect'], c['dphase'], c['dpos'], c['frontend'], c['mode'], c['actor']),
                     dict(kind='case', case=c, observed=o, clause=clause), explained_by=explained)
        elif o.get('events') and c['frontend'] == 'run':
            items.append(dict(id='%s@%s:%d/%s/%s' % (c['defect'], c['dphase'], c['dpos'], c['mode'], c['actor']),
                              events=o['events'], argv=o['argv'], files={'c.case': o['text']}))
    ctx.cov['traces_validated_against_impl'] += len(cases)
    ctx.cov['replay'] = dict(cases=len(cases), disagreements=bad)
    trace_exec.validate(ctx, items, 'invalid cases')
    # negative controls
    rnd = random.Random(ctx.seed)
    tried = rejected = 0
    for j in rnd.sample(range(len(cases)), min(30, len(cases))):
        o = json.loads(json.dumps(obs[j]))
        m = tried % 3
        if m == 0:
            o['markers'] = ['cleanup-1']
        elif m == 1:
            o['sandboxes'] = ['exactly-x']
        else:
            o['exit'] = 0 if cases[j]['detected'] else 65
        tried += 1
        rejected += compare(cases[j], o) is not None
    if tried != rejected:
        raise core.MachineryFailure('negative controls: %d of %d rejected' % (rejected, tried))
    ctx.cov['negative_controls_rejected'] += rejected
    for j in (0, len(cases) // 2, len(cases) - 1):
        ctx.sample(dict(case={k: cases[j][k] for k in ('defect', 'dphase', 'dpos', 'frontend', 'mode', 'actor',
                                                       'verdict', 'step')},
                        argv=obs[j].get('argv'), text=obs[j].get('text'), exit=obs[j].get('exit'),
                        markers=obs[j].get('markers'), sandboxes=obs[j].get('sandboxes')))
    ctx.cov['exhaustive'] = True
    ctx.cov['rule'] = ('every case of Invalid.tla: 13 defect classes x phase x position 1..%d x 3 actors x '
                       '{run normal/--keep/--act, symbol}, base case with %d marker instructions per phase; every case '
                       'is non-trivial (contains a defect); distinct by (class, phase, position, front end, mode, actor)'
                       % (base + 1, base))
    ctx.assumptions += ['side effects are observed as marker files written outside the sandbox, the sandbox directory '
                        'under a private TMPDIR, and a snapshot of the home directory',
                        'defect classes are those of the property statement; validations that legitimately happen '
                        'after setup (files relative to the sandbox) are not defect classes']


def replay(ctx, rec):
    r = rec['record']
    if r.get('kind') != 'case':
        return trace_exec.replay(ctx, r)
    with ctx.pool(workers=1) as pool:
        o = pool.map('harness.props.c03:exec_case', [r['case']], deadline=60)[0]
    clause = compare(r['case'], o)
    o.pop('events', None)
    print(json.dumps(dict(case=r['case'], observed=o, clause=clause), indent=1))
    if clause:
        print('VIOLATION property=C03 replay=(given)')
        return 1
    return 0
