"""C17  Cases are independent; suite contents apply alike standalone and in a suite run.

spec/SuiteCases.tla is one invocation of the program as a step machine (resolve the suites, then per case: access
with preprocessing and merging of the suite's contents, [conf], [act] syntax, symbol validation, sandbox, one step
per instruction, restore) with the state of the OS process threaded through all cases of the invocation, next to the
declarative reading of the property (what a case does ALONE in a fresh process; "contents of the suite first, in
[cleanup] last").  TLC checks the clauses (CasePure, OrderIrrelevant, EveryCase, MergeOrder, NotInherited,
ThreeWaysAgree, OwnSandbox, OwnSymbols, Preprocessed) on every invocation of four families of inputs
  hist   sequences of cases that change a setting - in [setup]: env of both / one set, unset, ${} expansion, cd,
         timeout, def, files in act/ and tmp/, stdin; in [conf]: status, actor; in a later phase: env, def, cd,
         timeout - or cannot be executed (syntax error, undefined symbol, SKIP), and end in PASS / FAIL / HARD_ERROR
         ([setup], [act], [cleanup]); every case observes at its start, after its change and in its action to check
  merge  root suite with contents in the phases s0 listing case 1, sub-suite with contents in the complement
         listing case 2, both cases with contents in the phases cs, every instruction a probe, [conf] of a suite =
         actor + status + preprocessor; run via the suite, with --suite, and beside exactly.suite
  sds    instructions of the suite whose values depend on the sandbox of the running case (program arguments, shell
         command, def string / path / program, file contents, here document, env, matchers, paths), 2-3 cases
  sym    instructions of the suite whose values depend on symbols that every case defines with values of its own
         (INTEGER in exit-code / num-lines / line-num / -line-nums / timeout, STRING, REGEX, PATH, LIST, program,
         matcher and transformer symbols), cases with different values in every order, all ways of invocation
refutes the invariants under ten named deviations (the realistic defects), and exports every invocation: the
documents of all files instruction by instruction, the way of invocation, and what must be observed.  The harness
renders the documents as suite / case files (one table: instruction -> source text), runs the real main program in
process (a sample again as a subprocess), and compares the identifier of every case, the records the probes wrote
(in order; environment of the two sets, current directory, files in act/ and tmp/, stdin, symbol values, preprocessor
mark, and which sandbox every value belongs to) and the state of the process afterwards (os.environ, current
directory).
"""
import json
import os
import random
import re
import threading
import time
import zlib

from harness import core

INVARIANTS = ['TypeOK', 'CasePure', 'OrderIrrelevant', 'EveryCase', 'MergeOrder', 'NotInherited', 'ThreeWaysAgree',
              'OwnSandbox', 'OwnSymbols', 'Preprocessed']
ACTIONS = ['Resolve', 'BeginCase', 'AccessCase', 'ConfPhase', 'ParseAct', 'ValidateSymbols', 'CreateSandbox',
           'SetupInstr', 'ActExecute', 'BeforeAssertInstr', 'AssertInstr', 'CleanupInstr', 'NextPhase', 'EndCase',
           'Finish']
ALL_MUTS = ['none', 'envAll', 'envAct', 'envNon', 'unset', 'unsetAct', 'expand', 'expandAct', 'cdTmp', 'cdUp', 'cdSub',
            'timeout', 'def', 'refX', 'files', 'stdin', 'statusFail', 'statusSkip', 'actorNull', 'obsT', 'syntaxErr',
            'envBA', 'envCleanup', 'defLate', 'cdLate', 'timeoutLate', 'homeConf', 'inclShared', 'cdGone']
CORE_MUTS = ['envAll', 'expand', 'cdTmp', 'def', 'files', 'statusFail', 'inclShared']
ENDS = ['pass', 'fail', 'hard', 'acthard', 'cleanuphard']
QUICK_ENDS = ['pass', 'fail', 'hard']
SDS_KINDS = ['arg', 'argTmp', 'shell', 'defStr', 'defPath', 'defCd', 'file', 'fileHere', 'env', 'program', 'ba',
             'cleanup', 'equals', 'matches', 'exists', 'dirContents', 'stdoutFrom', 'mkDir', 'copy', 'cdAct']
SYM_KINDS = ['strArg', 'listArg', 'listDef', 'shellStr', 'envStr', 'fileStr', 'progSym', 'timeoutInt', 'cleanupArg', 'exitCode',
             'numLines', 'lineNum', 'lineNums', 'equalsStr', 'matchesRx', 'pathExists', 'textMatcher', 'textTransformer',
             'intMatcher', 'lineMatcher', 'textMatcherAnd', 'intMatcherOr', 'lineMatcherAnd', 'textTransformerSeq',
             'defStr', 'hereDoc', 'replaceStr', 'runArg', 'fileMatcher', 'filesMatcher', 'pathRelDef', 'pathRelDef2', 'fileDestSym']
# (finding D13, fixed in /repo: the range of `filter -line-nums` in an instruction of a suite kept the value of the
# first case of the run - the deviation LineNumsRangeCached of the specification, which TLC must refute in every run)
# deviation -> (the invariant TLC must refute, the family that shows it)
DEVIATIONS = {
    'EnvNotCopied': ('OrderIrrelevant', 'hist'),
    'ConfShared': ('OrderIrrelevant', 'hist'),
    'CwdNotRestored': ('CasePure', 'hist'),
    'SuiteContentsAfter': ('MergeOrder', 'merge'),
    'Inherited': ('NotInherited', 'merge'),
    'OptionIgnored': ('ThreeWaysAgree', 'merge'),
    'BesideIgnored': ('ThreeWaysAgree', 'merge'),
    'SandboxValueCached': ('OwnSandbox', 'sds'),
    'SymbolValueCached': ('OwnSymbols', 'sym'),
    'LineNumsRangeCached': ('OwnSymbols', 'symLineNums'),
    'PreprocessorArgsAccumulate': ('ThreeWaysAgree', 'sym'),
    'ValidatedValueCached': ('OwnSymbols', 'symBad'),
    'ReferencesValidatedOnce': ('OwnSymbols', 'symRefs'),
}


def _set(xs):
    return '{' + ', '.join('"%s"' % x for x in xs) + '}'


def cfg(families, muts=ALL_MUTS, core_muts=CORE_MUTS, ends=ENDS, later=ALL_MUTS, len_all=1, len_core=0,
        merge_case_sets='corners', ways=('suite', 'option', 'beside'), sds_kinds=SDS_KINDS, sds_cases=(2,),
        sym_kinds=SYM_KINDS, sym_vals=('v1', 'v2'), sym_len=2, invariants=INVARIANTS, deviations=()):
    t = 'SPECIFICATION Spec\n'
    t += 'CONSTANT Families = %s\nCONSTANT Deviations = %s\n' % (_set(families), _set(deviations))
    t += 'CONSTANT Muts = %s\nCONSTANT CoreMuts = %s\nCONSTANT Ends = %s\n' % (_set(muts), _set(core_muts), _set(ends))
    t += 'CONSTANT LaterMuts = %s\nCONSTANT LenAll = %d\nCONSTANT LenCore = %d\n' % (_set(later), len_all, len_core)
    t += 'CONSTANT MergeCaseSets = "%s"\nCONSTANT Ways = %s\n' % (merge_case_sets, _set(ways))
    t += 'CONSTANT SdsKinds = %s\nCONSTANT SdsCases = {%s}\n' % (_set(sds_kinds), ', '.join(map(str, sds_cases)))
    t += 'CONSTANT SymKinds = %s\nCONSTANT SymVals = %s\nCONSTANT SymLen = %d\n' % (_set(sym_kinds), _set(sym_vals), sym_len)
    t += ''.join('INVARIANT %s\n' % i for i in invariants)
    return t + 'CHECK_DEADLOCK FALSE\n'


# ======================================================================================== concretisation
# One table: abstract instruction -> source text.  @HOME@ (directory of the root suite) and @LOG@ (the file the
# probes append to, outside every sandbox) are filled in by the worker.
ATOMS = {a: a for a in ('va', 'vb', 'vc', 'vd', 've', 'b0', '+', '*', 'x1', 'x2', 's1', 'v1', 'v2', 'v3', 'vbad', 'vnone',
                        'vtype')}
PP_MARK, PP_DONE = 'PPMARK', 'PPDONE'
PHASES = ['conf', 'setup', 'act', 'before-assert', 'assert', 'cleanup']
SCOPE_OPT = {'all': '', 'act': '-of act ', 'non': '-of !act '}
IDENTS = ('PASS', 'FAIL', 'XFAIL', 'XPASS', 'SKIPPED', 'HARD_ERROR', 'VALIDATION_ERROR', 'SYNTAX_ERROR',
          'FILE_ACCESS_ERROR', 'PRE_PROCESS_ERROR', 'INTERNAL_ERROR')

PROBE_SH = '''t=$1; a=$2; m=$3
p=$(pwd -P)
if [ -z "$a" ]; then a=$p; m=${p%/*}/tmp; fi
fa=; for f in "$a"/* "$a"/.[!.]*; do if [ -e "$f" ]; then fa="$fa ${f##*/}"; fi; done
fm=; for f in "$m"/* "$m"/.[!.]*; do if [ -e "$f" ]; then fm="$fm ${f##*/}"; fi; done
si=
if [ "$4" = stdin ]; then si=$(cat); fi
echo "P|$t|$p|$a|$m|${A-<unset>}|${B-<unset>}|$fa|$fm|$si" >> @LOG@
'''
VAL_SH = 'echo "V|$1|$2" >> @LOG@\n'
CAT_SH = 'echo "V|$1|$(cat "$2")" >> @LOG@\n'
ACTPROBE = '#!/bin/sh\nexec sh @HOME@/probe.sh "$1" "" "" stdin\n'
PP_SH = 'sed s/%s/%s/g "$1"\n' % (PP_MARK, PP_DONE)
VALN_SH = 't=$1; shift; echo "V|$t|$*" >> @LOG@\n'       # all arguments
VAL2_SH = 'echo "V|$2|$1" >> @LOG@\n'                     # value first (a program symbol of the case), tag appended
ATC_SH = 'j=1; while [ $j -le $1 ]; do echo "line$j"; j=$((j+1)); done; exit $1\n'   # $1 lines, exit code $1
HELPERS = {'probe.sh': PROBE_SH, 'val.sh': VAL_SH, 'cat.sh': CAT_SH, 'actprobe': ACTPROBE, 'pp.sh': PP_SH,
           'data.txt': 'data\n', 'valn.sh': VALN_SH, 'val2.sh': VAL2_SH, 'atc.sh': ATC_SH}


def value(atoms):
    return ''.join(ATOMS[a] for a in atoms)


def tagstring(i, own, ph, kind):
    return '%s.%d.%s.%s.%s.%s' % (i['org'], own, ph, kind, i['a'], PP_MARK)


def sds_lines(kind, tag):
    """instructions of a suite whose value depends on the sandbox of the running case; the value is recorded by a
    process that gets it as an argument / reads it from a file"""
    val = '% sh @HOME@/val.sh ' + tag + ' '
    return {
        'arg': [val + '@[EXACTLY_ACT]@'],
        'argTmp': [val + '@[EXACTLY_TMP]@/x'],
        'shell': ['$ sh @HOME@/val.sh %s "@[EXACTLY_ACT]@"' % tag],
        'defStr': ['def string K_S = @[EXACTLY_TMP]@', val + '@[K_S]@'],
        'defPath': ['def path K_P = -rel-act k', val + '@[K_P]@'],
        'defCd': ['def path K_C = -rel-cd k', val + '@[K_C]@'],
        'file': ['file -rel-tmp k.txt = "@[EXACTLY_ACT]@"', '% sh @HOME@/cat.sh ' + tag + ' ../tmp/k.txt'],
        'fileHere': ['file -rel-tmp h.txt = <<EOT', '@[EXACTLY_TMP]@', 'EOT', '% sh @HOME@/cat.sh ' + tag + ' ../tmp/h.txt'],
        'env': ['env K_E = "@[EXACTLY_ACT]@"', '$ sh @HOME@/val.sh %s "$K_E"' % tag],
        'program': ['def program K_R = % sh @HOME@/val.sh ' + tag + ' @[EXACTLY_ACT]@', 'run @ K_R'],
        'ba': [val + '@[EXACTLY_ACT]@'],
        'cleanup': [val + '@[EXACTLY_TMP]@'],
    }[kind]


def val_no(v):
    """v1 v2 v3 -> 1 2 3; vbad -> 4 (values like any other, but the INTEGERs and the REGEX are ill-formed)"""
    return {'vbad': 4, 'vnone': 5, 'vtype': 6}.get(v) or int(v[1:])


def own_definitions(n):
    """what case number-of-value n of the sym family defines: one symbol per type, each with a value of its own"""
    if n == 6:      # every symbol with a type that no reference of the suite accepts
        return ['def line-matcher V_S = line-num == 1', 'def text-matcher V_N = is-empty', 'def text-matcher V_L = is-empty',
                'def line-matcher V_T = line-num == 1', 'def text-matcher V_RX = is-empty', 'def line-matcher V_P = line-num == 1',
                'def string V_TM = is-empty', 'def string V_TT = strip', 'def string V_IM = 1', 'def string V_LM = 1',
                'def string V_R = true', 'def string V_FM = x', 'def string V_FSM = x', 'def string V_D = x',
                'file -rel-tmp own.txt = s6', 'file -rel-tmp own6.txt = x', 'dir -rel-tmp d6']
    return ['def string V_S = s%d' % n,
            'def string V_N = %s' % (n if n != 4 else 'x'),
            'def list V_L = a%d b%d' % (n, n),
            'def string V_T = %s' % ('x' if n == 4 else 0 if n == 1 else 60),
            "def string V_RX = '%s'" % ('s[%d]' % n if n != 4 else '('),
            'def path V_P = -rel-tmp own%d.txt' % n,
            'def text-matcher V_TM = equals s%d' % n,
            'def text-transformer V_TT = replace s%d X' % n,
            'def integer-matcher V_IM = == %d' % n,
            'def line-matcher V_LM = line-num >= %d' % n,
            'def program V_R = %% sh @HOME@/val2.sh s%d' % n,
            'def file-matcher V_FM = contents equals s%d' % n,
            'def files-matcher V_FSM = any file : name own%d.txt' % n,
            'def path V_D = -rel-tmp d%d' % n,
            'dir -rel-tmp d%d' % n,
            'file -rel-tmp d%d/m.txt = x' % n,
            'file -rel-tmp own.txt = s%d' % n,
            'file -rel-tmp own%d.txt = x' % n]


def sym_value(kind, n):
    """what a recording instruction of the suite must record in a case that defines the values number n"""
    return 'a%d b%d' % (n, n) if kind == 'listArg' else 'x s%d y' % n if kind == 'listDef' else 's%d' % n


def sym_lines(kind, tag):
    """instructions of a suite whose value depends on symbols that every case defines itself"""
    val = '% sh @HOME@/val.sh ' + tag + ' '
    return {
        'strArg': [val + '@[V_S]@'],
        'listArg': ['% sh @HOME@/valn.sh ' + tag + ' @[V_L]@'],
        'listDef': ['def list K_L = x @[V_S]@ "y"', '% sh @HOME@/valn.sh ' + tag + ' @[K_L]@'],
        'shellStr': ['$ sh @HOME@/val.sh %s "@[V_S]@"' % tag],
        'envStr': ['env K_V = @[V_S]@', '$ sh @HOME@/val.sh %s "$K_V"' % tag],
        'fileStr': ['file -rel-tmp ks.txt = "@[V_S]@"', '% sh @HOME@/cat.sh ' + tag + ' @[EXACTLY_TMP]@/ks.txt'],
        'progSym': ['run @ V_R ' + tag],
        'cleanupArg': [val + '@[V_S]@'],
        'defStr': ['def string K_S = "@[V_S]@"', val + '@[K_S]@'],
        'hereDoc': ['file -rel-tmp kh.txt = <<EOT', '@[V_S]@', 'EOT', '% sh @HOME@/cat.sh ' + tag + ' @[EXACTLY_TMP]@/kh.txt'],
        'replaceStr': ['file -rel-tmp kr.txt = "x" -transformed-by replace x @[V_S]@',
                       '% sh @HOME@/cat.sh ' + tag + ' @[EXACTLY_TMP]@/kr.txt'],
        'runArg': ['run % sh @HOME@/val.sh ' + tag + ' @[V_S]@'],
    }[kind]


# the action to check of a case with the values number n prints n lines and exits with n; tmp/own.txt contains s<n>
SYM_ASSERT = {
    'exitCode': ['exit-code == @[V_N]@'],
    'numLines': ['stdout num-lines == @[V_N]@'],
    'lineNum': ['stdout -transformed-by filter ( line-num >= @[V_N]@ ) num-lines == 1'],
    'lineNums': ['stdout -transformed-by filter -line-nums @[V_N]@:', '   num-lines == 1'],
    'equalsStr': ['contents -rel-tmp own.txt : equals @[V_S]@'],
    'matchesRx': ['contents -rel-tmp own.txt : matches -full @[V_RX]@'],
    'pathExists': ['exists @[V_P]@'],
    'textMatcher': ['contents -rel-tmp own.txt : V_TM'],
    'textTransformer': ['contents -rel-tmp own.txt : -transformed-by V_TT equals X'],
    'intMatcher': ['exit-code V_IM'],
    'lineMatcher': ['stdout -transformed-by filter V_LM num-lines == 1'],
    # the symbol of the case as an operand of a combination written in the suite
    'textMatcherAnd': ['contents -rel-tmp own.txt : V_TM && ! is-empty'],
    'intMatcherOr': ['exit-code ( V_IM || == 99 )'],
    'lineMatcherAnd': ['stdout -transformed-by filter ( V_LM && line-num <= 99 ) num-lines == 1'],
    'textTransformerSeq': ['contents -rel-tmp own.txt : -transformed-by ( identity | V_TT ) equals X'],
    'fileMatcher': ['exists -rel-tmp own.txt : V_FM'],
    'filesMatcher': ['dir-contents -rel-tmp . : V_FSM'],
    'pathRelDef': ['def path K_B = -rel V_D m.txt', 'exists @[K_B]@ : type file'],
    'fileDestSym': ['file -rel V_D kf.txt = x', 'exists -rel V_D kf.txt : type file'],
    'pathRelDef2': ['def path K_C1 = -rel V_D .', 'def path K_C2 = -rel K_C1 m.txt', 'exists @[K_C2]@ : type file'],
}

SDS_ASSERT = {
    'equals': ['contents -rel-tmp pwd.txt : equals "@[EXACTLY_ACT]@"'],
    'matches': ['contents -rel-tmp pwd.txt : matches -full "@[EXACTLY_ACT]@"'],
    'exists': ['exists -rel-act kf.txt : type file'],
    'dirContents': ['dir-contents -rel-tmp . : ! is-empty'],
    'stdoutFrom': ["stdout -from % sh -c 'printf %s \"$(pwd -P)\"'", '   equals "@[EXACTLY_ACT]@"'],
}


def render(i, own, ph):
    """source lines of one instruction; own: number of the case file it is written in (0: a suite file)"""
    op, a, b, c = i['op'], i['a'], i['b'], i['c']
    if op == 'status':
        return ['status = ' + a]
    if op == 'actor':
        return ['actor = ' + {'command': 'command', 'source': 'source % sh', 'null': 'null'}[a]]
    if op == 'home':
        return ['home = althome']
    if op == 'probe':
        return ['% sh @HOME@/probe.sh ' + tagstring(i, own, ph, 'probe') + ' @[EXACTLY_ACT]@ @[EXACTLY_TMP]@']
    if op == 'actbad':
        return ['% c17-no-such-program']
    if op == 'bad':
        return ['c17-no-such-instruction x']
    if op == 'actline':
        if a == 'sym':
            return ['% sh @HOME@/probe.sh ' + tagstring(i, own, ph, 'probe') + ' @[EXACTLY_ACT]@ @[EXACTLY_TMP]@ stdin']
        return ['@HOME@/actprobe ' + tagstring(i, own, ph, 'probe')]
    if op == 'envSet':
        return ['env %s%s = %s' % (SCOPE_OPT[a], b, value(c))]
    if op == 'envApp':
        return ['env %s%s = ${%s}%s' % (SCOPE_OPT[a], b, b, value(c))]
    if op == 'envUnset':
        return ['env %sunset %s' % (SCOPE_OPT[a], b)]
    if op == 'cd':
        return [{'tmp': 'cd -rel-tmp .', 'up': 'cd ..', 'sub': 'cd sub', 'act': 'cd -rel-act .'}[a]]
    if op == 'dir':
        return ['dir -rel-%s %s' % (a, b)]
    if op == 'file':
        return ['file -rel-%s %s = x' % (a, b)]
    if op == 'copy':
        return ['copy @HOME@/data.txt -rel-%s %s' % (a, b)]
    if op == 'rmcwd':
        return ['$ rmdir ../sub']
    if op == 'pwdfile':
        return ['$ printf %s "$(pwd -P)" > ../tmp/pwd.txt']
    if op == 'timeout':
        return ['timeout = ' + a]
    if op == 'sleep':
        return ['% sleep ' + {'long': '5', 'short': '0.2', 'mid': '2'}[a]]
    if op == 'def':
        return ['def string %s = %s' % (a, value(c))]
    if op == 'ref':
        return ['% sh @HOME@/val.sh ' + tagstring(i, own, ph, 'ref') + ' @[' + a + ']@']
    if op == 'stdin':
        return ['stdin = "%s"' % value(c)]
    if op == 'fail':
        return ['exit-code == 1']
    if op == 'hard':
        return ['% false']
    if op == 'sdsLog':
        return sds_lines(a, tagstring(i, own, ph, 'sds'))
    if op == 'sdsAssert':
        return SDS_ASSERT[a]
    if op == 'defOwn':
        return own_definitions(val_no(c[0]))
    if op == 'actown':
        return ['%% sh @HOME@/atc.sh %d' % val_no(c[0])]
    if op == 'symLog':
        return sym_lines(a, tagstring(i, own, ph, 'sym'))
    if op == 'symAssert':
        return SYM_ASSERT[a]
    if op == 'symTimeout':
        return ['timeout = @[V_T]@']
    raise ValueError(op)


def doc_text(doc, own, home_dependent=False):
    """home_dependent: the case begins with an instruction that needs a file of its (default) home directory -
    unless it sets a home directory of its own"""
    sets_home = any(i['op'] == 'home' for i in doc['conf'])
    t = ''
    has_incl = any(i.get('org') == 'incl' for ph in PHASES for i in doc[ph])
    for ph in PHASES:
        lines = [l for i in doc[ph] if i.get('org') != 'incl' for l in render(i, own, ph)]
        if ph == 'setup' and has_incl:
            lines.append('including shared.xly')
        if ph == 'setup' and home_dependent and not sets_home and any(doc[q] for q in PHASES if q != 'conf'):
            lines = ['run -rel-home here.sh'] + lines
        if lines:
            t += '[%s]\n' % ph + ''.join(l + '\n' for l in lines)
    return t


def input_key(r):
    return json.dumps([r['fam'], r['h'], sorted(r['s0']), sorted(r['cs']), sorted(r['sk']), r['n'], r.get('vs', [])])


def run_key(r):
    return input_key(r) + '|%s|%d' % (r['way'], r['tgt'])


def concretize(r):
    """exported invocation -> task: files, argv.  Layout: <root suite>, cN.case beside it; sub/<sub-suite>,
    sub/cN.case.  The suites are called exactly.suite where the way of invocation needs that name (beside), and in
    half of the suite runs; root.suite / sub/sub.suite otherwise."""
    way = r['way']
    default_names = way == 'beside' or (way == 'suite' and zlib.crc32(input_key(r).encode()) % 2 == 1)
    sname = {0: 'exactly.suite' if default_names else 'root.suite',
             1: 'sub/exactly.suite' if default_names else 'sub/sub.suite'}
    files = {}
    # family sym (several cases of ONE suite, all through the suite's preprocessor): in half of the inputs the case
    # files have the SAME name in different directories (k1/c.case, k2/c.case ...)
    same_names = r['fam'] == 'sym' and way in ('suite', 'option') and zlib.crc32(input_key(r).encode()) % 4 >= 2

    def case_name(n):
        return 'k%d/c.case' % n if same_names else 'c%d.case' % n
    for s in r['tree']['suites']:
        t = ''
        if s['subs']:
            t += '[suites]\n' + ''.join(('sub' if default_names else 'sub/sub.suite') + '\n' for _ in s['subs'])
        t += '[cases]\n' + ''.join(case_name(c) + '\n' for c in s['cases'])
        d = dict(s['doc'])
        body = doc_text(d, 0)
        if s['pre']:
            line = 'preprocessor = sh @HOME@/pp.sh\n'
            body = body.replace('[conf]\n', '[conf]\n' + line, 1) if '[conf]\n' in body else '[conf]\n' + line + body
        files[sname[s['id']]] = t + body
    cpath = {}
    for n, c in enumerate(r['tree']['cases'], 1):
        cpath[n] = ('sub/' if c['home'] == 1 else '') + case_name(n)
        files[cpath[n]] = doc_text(c['doc'], n, home_dependent=(r['fam'] == 'hist'))
        incl = [(ph, i) for ph in PHASES for i in c['doc'][ph] if i.get('org') == 'incl']
        if incl:        # the file every such case includes: the same text for all of them
            files[os.path.join(os.path.dirname(cpath[n]), 'shared.xly')] = ''.join(
                '[%s]\n' % ph + ''.join(l + '\n' for l in render(i, 0, ph)) for ph, i in incl)
        if r['fam'] == 'hist':
            d = os.path.dirname(cpath[n])
            files[os.path.join(d, 'here.sh')] = '#!/bin/sh\nexit 0\n'
            files[os.path.join(d, 'althome', 'placeholder.txt')] = 'x\n' 
    if way == 'suite':
        argv = ['suite', sname[0]]
    else:
        home = r['tree']['cases'][r['tgt'] - 1]['home']
        argv = (['--suite', sname[home]] if way == 'option' else []) + [cpath[r['tgt']]]
    if way == 'option' and not default_names:
        # "--suite FILE ... overrides the default suite file": a DECOY exactly.suite beside the case, whose contents
        # would make the case fail, must contribute nothing
        d = os.path.dirname(cpath[r['tgt']])
        files[os.path.join(d, 'exactly.suite')] = '[cases]\n\n[setup]\n$ false\n[assert]\n$ false\n'
    if way == 'plain':      # no suite at all
        files = {p: t for p, t in files.items() if not p.endswith('.suite')}
    links = {}
    if way != 'suite' and zlib.crc32(run_key(r).encode()) % 3 == 0:
        # the case file named on the command line is a symbolic link to a file in another directory: the case is the
        # file WHERE IT IS NAMED - its default home directory and the exactly.suite beside it are those of the link.
        # Beside the file the link points to there is a decoy exactly.suite (and no file of a home directory).
        p = cpath[r['tgt']]
        real = 'elsewhere/real-%d.case' % r['tgt']
        files[real] = files.pop(p)
        links[p] = os.path.relpath(real, os.path.dirname(p) or '.')
        files['elsewhere/exactly.suite'] = '[cases]\n\n[setup]\n$ false\n[assert]\n$ false\n'
    return dict(files=files, argv=argv, cases={str(n): p for n, p in cpath.items()}, links=links)


# ======================================================================================== execution (workers)
def _physical_tmp(cd):
    """the directory the sandboxes are made in, free of symbolic links (probes report physical directories)"""
    import tempfile
    real = os.path.realpath(cd.tmp)
    tempfile.tempdir = real          # (inproc.guarded restores it after the task)
    os.environ['TMPDIR'] = real
    return real


def _make_links(task, cd):
    for link, target in (task.get('links') or {}).items():
        lp = os.path.join(cd.home, link)
        os.makedirs(os.path.dirname(lp), exist_ok=True)
        os.symlink(target, lp)


def exec_run(task, cd):
    from harness import inproc
    log = os.path.join(cd.out, 'log')
    tmp = _physical_tmp(cd)

    def fill(t):
        return t.replace('@HOME@', cd.home).replace('@LOG@', log)
    cd.write({p: fill(t) for p, t in HELPERS.items()}, mode={'actprobe': 0o755})
    cd.write({p: fill(t) for p, t in task['files'].items()},
             mode={p: 0o755 for p in task['files'] if p.endswith('here.sh')})
    _make_links(task, cd)
    # the environment the program is started in: B is set, the other names the cases use are not
    for n in ('A', 'K_E', 'K_V', 'X'):
        os.environ.pop(n, None)
    r = inproc.run_main(task['argv'], cd, env={'B': 'b0'}, trace=bool(task.get('trace')))
    lines = []
    if os.path.exists(log):
        with open(log, encoding='utf-8', errors='replace') as fh:
            lines = fh.read().split('\n')
    return dict(exit=r['exit'], exception=r['exception'], traceback=r.get('traceback'), stdout=r['stdout'][:20000],
                stderr=r['stderr'][:6000], log=lines[:2000], home=cd.home, tmp=tmp,
                env_after={n: os.environ.get(n) for n in ('A', 'B')}, env_changed=r['env_changed'],
                cwd_ok=r['cwd_after'] == r['cwd_before'], cwd_after=r['cwd_after'],
                sandboxes_left=[n for n in os.listdir(tmp) if n.startswith('exactly-')],
                events=r.get('trace') or [])


def exec_subprocess(task, cd):
    """the same invocation as a real OS process (what it leaves in its own process state cannot be seen then)"""
    import subprocess
    from harness import runner
    log = os.path.join(cd.out, 'log')
    tmp = _physical_tmp(cd)

    def fill(t):
        return t.replace('@HOME@', cd.home).replace('@LOG@', log)
    cd.write({p: fill(t) for p, t in HELPERS.items()}, mode={'actprobe': 0o755})
    cd.write({p: fill(t) for p, t in task['files'].items()},
             mode={p: 0o755 for p in task['files'] if p.endswith('here.sh')})
    _make_links(task, cd)
    env = dict(os.environ, PYTHONPATH=os.path.join(runner.REPO, 'src'), TMPDIR=tmp, PYTHONWARNINGS='ignore', B='b0')
    for n in ('A', 'K_E', 'K_V', 'X', 'EXACTLY_VERIF_TRACE'):
        env.pop(n, None)
    p = subprocess.run(['/venv/bin/python', os.path.join(runner.REPO, 'src', 'default-main-program-runner.py')]
                       + task['argv'], cwd=cd.home, env=env, stdout=subprocess.PIPE, stderr=subprocess.PIPE, text=True,
                       timeout=150)
    lines = []
    if os.path.exists(log):
        with open(log, encoding='utf-8', errors='replace') as fh:
            lines = fh.read().split('\n')
    return dict(exit=p.returncode, exception=None, stdout=p.stdout[:20000], stderr=p.stderr[:6000], log=lines[:2000],
                home=cd.home, tmp=tmp, env_after=None, env_changed=[], cwd_ok=True, cwd_after=None,
                how='subprocess')


# ======================================================================================== projection
CASE_LINE = re.compile(r'^case  (.+): \(\d+\.\d+s\) ([A-Z_]+)$')
SDS_ROOT = re.compile(r'^(.*/exactly-[^/]+)(/.*)?$')


def unvalue(s):
    return None if s == '<unset>' else s


def project(r, task, o):
    """observation -> abstract observation.  Total; nothing is repaired: what cannot be read becomes OTHER."""
    idents = []
    by_path = {p: int(n) for n, p in task['cases'].items()}
    out_lines = [l for l in o['stdout'].split('\n') if l]
    if r['way'] == 'suite':
        for l in out_lines:
            m = CASE_LINE.match(l)
            if m:
                idents.append([by_path.get(os.path.normpath(m.group(1)), 'OTHER:' + m.group(1)), m.group(2)])
    else:
        idents.append([r['tgt'], out_lines[0] if len(out_lines) == 1 and out_lines[0] in IDENTS
                       else 'OTHER:' + o['stdout'][:200]])
    recs = []
    for l in o['log']:
        if l == '':
            continue
        f = l.split('|')
        t = f[1].split('.') if len(f) > 1 else []
        if len(t) != 6 or t[5] not in (PP_MARK, PP_DONE) or not t[1].isdigit():
            recs.append(dict(k='OTHER', raw=l[:300]))
            continue
        rec = dict(org=t[0], own=int(t[1]), ph=t[2], k=t[3], tag=t[4], pp='y' if t[5] == PP_DONE else 'n')
        if f[0] == 'P' and len(f) == 10 and rec['k'] == 'probe':
            pwd, act, tmp = f[2], f[3], f[4]
            root = os.path.dirname(act)
            if os.path.basename(act) != 'act' or tmp != root + '/tmp':
                rec['cwd'] = 'BAD-DIRS:%s,%s' % (act, tmp)
            elif pwd == root:
                rec['cwd'] = 'root'
            elif pwd == act or pwd == tmp or pwd.startswith(act + '/'):
                rec['cwd'] = pwd[len(root) + 1:]
            else:
                rec['cwd'] = 'OUTSIDE:' + pwd
            rec.update(root=root, A=unvalue(f[5]), B=unvalue(f[6]), stdin=f[9],
                       files=sorted(['act', n] for n in f[7].split()) + sorted(['tmp', n] for n in f[8].split()))
        elif f[0] == 'V' and len(f) == 3 and rec['k'] == 'ref':
            rec['x'] = f[2]
        elif f[0] == 'V' and len(f) == 3 and rec['k'] == 'sym':
            ns = [n for n in (1, 2, 3, 4) if rec['tag'] in SYM_KINDS and sym_value(rec['tag'], n) == f[2]]
            rec['x'] = ('vbad' if ns[0] == 4 else 'v%d' % ns[0]) if ns else 'OTHER:' + f[2]
        elif f[0] == 'V' and len(f) == 3 and rec['k'] == 'sds':
            m = SDS_ROOT.match(f[2])
            rec.update(root=m.group(1) if m else 'NOT-A-SANDBOX:' + f[2],
                       rem=[x for x in (m.group(2) or '').split('/') if x] if m else [])
        else:
            rec = dict(k='OTHER', raw=l[:300])
        recs.append(rec)
    return dict(idents=idents, log=recs, penv=o['env_after'], cwd_ok=o['cwd_ok'], env_changed=o['env_changed'])


# ======================================================================================== comparison
def compare(r, p, o):
    """None, or 'Clause: detail' for the first clause of the property the observation contradicts"""
    if o.get('exception') or o.get('no_termination') or o.get('worker_died') or o.get('harness_exception'):
        return 'Terminates: %s' % (o.get('exception') or o.get('harness_exception') or [k for k in o if o[k] is True])
    if o.get('sandboxes_left'):
        return 'SandboxRemoved: %d sandbox(es) left after the invocation: %s' % (len(o['sandboxes_left']),
                                                                                  o['sandboxes_left'][:3])
    want_ids = [list(x) for x in r['idents']]
    if [x[0] for x in p['idents']] != [x[0] for x in want_ids]:
        return 'EveryCase: processed %s, specification %s' % (p['idents'], want_ids)
    exp, got = r['log'], p['log']
    clause_log = None
    roots = {}
    for j in range(max(len(exp), len(got))):
        if j >= len(got):
            clause_log = 'Records: record %d missing: %s' % (j, brief_rec(exp[j]))
            break
        if j >= len(exp):
            clause_log = 'Records: superfluous record %d: %s' % (j, got[j])
            break
        e, g = exp[j], got[j]
        if g['k'] == 'OTHER':
            clause_log = 'Records: unreadable record %d: %s' % (j, g['raw'])
            break
        if [g['org'], g['ph'], g['k'], g['tag']] != [e['org'], e['ph'], e['k'], e['tag']] or g['own'] != e['own']:
            inherited = g['org'] != 'case' and g['org'] != ('sub' if r['tree']['cases'][e['c'] - 1]['home'] else 'suite')
            clause_log = '%s: record %d is %s, specification %s' % (
                'NotInherited' if inherited else 'MergeOrder' if r['fam'] == 'merge' else 'OrderIrrelevant',
                j, [g['org'], g['own'], g['ph'], g['k'], g['tag']], [e['org'], e['own'], e['ph'], e['k'], e['tag']])
            break
        if g['pp'] != e['pp']:
            clause_log = 'Preprocessed: record %d %s has mark %s, specification %s' % (j, brief_rec(e), g['pp'], e['pp'])
            break
        if e['k'] == 'probe':
            want = dict(cwd=e['cwd'], A=value(e['A']) if e['A'] else None, B=value(e['B']) if e['B'] else None,
                        stdin=value(e['stdin']), files=sorted(list(x) for x in e['files']))
            diff = [k for k in ('cwd', 'A', 'B', 'stdin', 'files') if g[k] != want[k]]
            if diff:
                clause_log = 'Settings(%s): record %d %s sees %s, specification %s' % (
                    ','.join(diff), j, brief_rec(e), {k: g[k] for k in diff}, {k: want[k] for k in diff})
                break
        elif e['k'] == 'ref':
            if g['x'] != value(e['x']):
                clause_log = 'Settings(symbol): record %d %s sees %r, specification %r' % (j, brief_rec(e), g['x'],
                                                                                          value(e['x']))
                break
        elif e['k'] == 'sym':
            if g['x'] != value(e['x']):
                clause_log = 'OwnSymbols: record %d %s uses the definitions %s, specification %s' % (
                    j, brief_rec(e), g['x'], value(e['x']))
                break
        elif e['k'] == 'sds':
            if g['rem'] != list(e['rem']):
                clause_log = 'OwnSandbox: record %d %s: value points to %s, specification %s' % (j, brief_rec(e),
                                                                                                g['rem'], e['rem'])
                break
        if 'root' not in g:
            continue
        # which sandbox the values of the record belong to
        if not g['root'].startswith(o['tmp'] + '/'):
            clause_log = 'OwnSandbox: record %d %s: %s is not a sandbox of this run' % (j, brief_rec(e), g['root'])
            break
        if roots.setdefault(e['sds'], g['root']) != g['root']:
            clause_log = 'OwnSandbox: record %d %s belongs to sandbox %s, the other records of case %d to %s' % (
                j, brief_rec(e), g['root'], e['sds'], roots[e['sds']])
            break
    if clause_log is None and len(set(roots.values())) != len(roots):
        clause_log = 'OwnSandbox: cases share a sandbox: %s' % roots
    # the identifiers: reported after the records so that the message names the first setting that differs
    if p['idents'] != want_ids:
        return '%s: %s, specification %s%s' % ('OwnSymbols(identifier)' if r['fam'] == 'sym' else 'Identifier',
                                               p['idents'], want_ids, ' [%s]' % clause_log if clause_log else '')
    if clause_log:
        return clause_log
    want_env = {n: value(v) if v else None for n, v in r['penv'].items()}
    if o.get('how') == 'subprocess':
        return None
    if p['penv'] != want_env or p['env_changed']:
        return 'CasePure(environment of the process): %s changed %s, specification %s' % (p['penv'], p['env_changed'],
                                                                                         want_env)
    if not p['cwd_ok']:
        return 'CasePure(current directory of the process): %s' % o.get('cwd_after')
    return None


def brief_rec(e):
    return '%s/%s/%s/%s of case %s' % (e['org'], e['ph'], e['k'], e['tag'], e.get('c', '?'))


def brief(r):
    if r['fam'] == 'hist':
        d = 'hist[%s]' % ' '.join(m if e == 'pass' else m + '/' + e for m, e in r['h'])
    elif r['fam'] == 'merge':
        d = 'merge[suite:%s case:%s]' % (','.join(p for p in PHASES if p in r['s0']) or '-',
                                         ','.join(p for p in PHASES if p in r['cs']) or '-')
    elif r['fam'] == 'sym':
        d = 'sym[%s values %s]' % (','.join(k for k in SYM_KINDS if k in r['sk']), ','.join(r['vs']))
    else:
        d = 'sds[%s x%d]' % (','.join(k for k in SDS_KINDS if k in r['sk']), r['n'])
    return '%s %s%s' % (d, r['way'], '' if r['way'] == 'suite' else ':c%d' % r['tgt'])


def nontrivial(r):
    return not (r['fam'] == 'hist' and len(r['h']) == 1 and list(r['h'][0]) == ['none', 'pass'])


# ======================================================================================== the check
def export(ctx, name, text, env=None):
    res = ctx.tlc('SuiteCasesExport', text, workers=1, name=name, count=False, env=env)
    recs = res.printed_json('CASE')
    if not recs:
        raise core.MachineryFailure('export %s: nothing exported' % name)
    return recs


def random_hists(seed, n, lo, hi):
    """seeded random histories beyond the exhaustive bounds (TLC runs the machine on them: family "file")"""
    rnd = random.Random(seed)
    kinds = [[m, 'pass'] for m in ALL_MUTS] + [[m, e] for m in CORE_MUTS for e in ENDS if e != 'pass']
    out, seen = [], set()
    while len(out) < n:
        h = [rnd.choice(kinds) for _ in range(rnd.randint(lo, hi))]
        k = json.dumps(h)
        if k not in seen:
            seen.add(k)
            out.append(dict(h=h))
    return out


def judge(ctx, r, task, o, stats, failing):
    ctx.count()
    if nontrivial(r):
        ctx.nontrivial(run_key(r))
    bad = any(o.get(k) for k in ('no_termination', 'worker_died', 'harness_exception'))
    p = dict(idents=[], log=[], penv={}, cwd_ok=False, env_changed=[]) if bad else project(r, task, o)
    clause = compare(r, p, o)
    if clause is None:
        return p
    stats['disagreements'] += 1
    record = dict(kind='run', how=o.get('how', 'in-process'), case=r, task=task, clause=clause, projected=p,
                  observed={k: o.get(k) for k in ('exit', 'exception', 'traceback', 'stdout', 'stderr', 'log',
                                                  'env_after', 'env_changed', 'cwd_after', 'no_termination',
                                                  'worker_died', 'harness_exception')})
    size = len(r['log']) + 10 * len(r['idents'])
    failing.append((size, '%s %s%s' % (clause.split(':')[0], brief(r),
                                       ' (subprocess)' if o.get('how') == 'subprocess' else ''), record))
    return p


def replay_runs(ctx, recs, label, subprocess_sample=0):
    tasks = [concretize(r) for r in recs]
    t0 = time.time()
    rnd = random.Random(ctx.seed + 17)
    multi = [j for j, r in enumerate(recs) if r['way'] == 'suite' and len(r['idents']) > 1]
    sub_idx = rnd.sample(multi, min(subprocess_sample, len(multi)))
    # code -> spec: the hook traces of a seeded sample of the runs - one process, several executions - are validated
    # by PhaseExecTrace (every execution of a suite run is a behaviour of the executor's specification)
    traced = set(rnd.sample(range(len(tasks)), min(len(tasks), max(300, len(tasks) // 6))))
    for j in traced:
        tasks[j] = dict(tasks[j], trace=True)
    with ctx.pool() as pool:
        obs = pool.map('harness.props.c17:exec_run', tasks, deadline=120, chunk=4)
        sub_obs = pool.map('harness.props.c17:exec_subprocess', [tasks[j] for j in sub_idx], deadline=180, chunk=1)
    stats = dict(runs=len(tasks), subprocess_runs=len(sub_idx), disagreements=0, wall_s=round(time.time() - t0, 1))
    failing, projs = [], []
    for r, t, o in zip(recs, tasks, obs):
        projs.append(judge(ctx, r, t, o, stats, failing))
    for j, o in zip(sub_idx, sub_obs):
        judge(ctx, recs[j], tasks[j], o, stats, failing)
    failing.sort(key=lambda f: f[0])         # smallest first: the replay files written are the minimal examples
    for _, sig, record in failing:
        ctx.fail(sig, record)
    from harness import trace_exec
    items = [dict(id='%s %s' % (label, brief(recs[j])), events=obs[j]['events'], argv=tasks[j]['argv'], files=tasks[j]['files'])
             for j in sorted(traced) if obs[j].get('events')]
    if items:
        trace_exec.validate(ctx, items, 'suite and case runs (%s)' % label)
    ctx.cov['traces_validated_against_impl'] += len(tasks) + len(sub_idx)
    by = {}
    for r in recs:
        k = '%s/%s' % (r['fam'], r['way'])
        by[k] = by.get(k, 0) + 1
    stats['by_family_and_way'] = by
    stats['cases_processed'] = sum(len(r['idents']) for r in recs)
    stats['records_compared'] = sum(len(r['log']) for r in recs)
    ctx.cov.setdefault('replay', {})[label] = stats
    return tasks, obs, projs


def corruptions(r, p):
    """the corruptions applicable to a run: (name, function(projection, expectation) changing one of them)"""
    def ident(p, e):
        p['idents'][-1][1] = 'PASS' if p['idents'][-1][1] != 'PASS' else 'FAIL'

    def exp_ident(p, e):
        e['idents'][0][1] = 'PASS' if e['idents'][0][1] != 'PASS' else 'HARD_ERROR'

    def drop(p, e):
        p['log'].pop(len(p['log']) // 2)

    def swap(p, e):
        j = [j for j in range(len(p['log']) - 1) if swappable(p['log'][j], p['log'][j + 1])][0]
        p['log'][j], p['log'][j + 1] = p['log'][j + 1], p['log'][j]

    def exp_swap(p, e):
        j = [j for j in range(len(e['log']) - 1) if swappable(e['log'][j], e['log'][j + 1])][0]
        e['log'][j], e['log'][j + 1] = e['log'][j + 1], e['log'][j]

    def leak_env(p, e):      # a value from an earlier case
        g = [g for g in p['log'] if g['k'] == 'probe'][-1]
        g['A'] = 'va' if g['A'] != 'va' else 'vb'

    def leak_unset(p, e):
        g = [g for g in p['log'] if g['k'] == 'probe'][-1]
        g['B'] = None if g['B'] is not None else 'b0'

    def leak_file(p, e):
        g = [g for g in p['log'] if g['k'] == 'probe'][-1]
        g['files'] = sorted(g['files'] + [['act', 'leaked.txt']])

    def leak_cwd(p, e):
        g = [g for g in p['log'] if g['k'] == 'probe'][-1]
        g['cwd'] = 'tmp' if g['cwd'] != 'tmp' else 'act'

    def leak_stdin(p, e):
        g = [g for g in p['log'] if g['k'] == 'probe' and g['ph'] == 'act'][-1]
        g['stdin'] = g['stdin'] + 's1'

    def stale_sandbox(p, e):  # the last record of the run carries the sandbox of the first case
        first = [g['root'] for g in p['log'] if 'root' in g][0]
        g = [g for g in p['log'] if g.get('root', first) != first][-1]
        g['root'] = first

    def flip_pp(p, e):
        g = p['log'][-1]
        g['pp'] = 'y' if g['pp'] == 'n' else 'n'

    def inherited(p, e):
        g = [g for g in p['log'] if g['org'] == 'case'][0]
        g['org'], g['own'] = 'suite', 0

    def process_env(p, e):
        p['penv']['A'] = 'va'

    def process_cwd(p, e):
        p['cwd_ok'] = False

    def symbol(p, e):
        g = [g for g in p['log'] if g['k'] == 'ref'][0]
        g['x'] = g['x'] + '?'

    def other_definitions(p, e):   # a value computed from the definitions of another case
        g = [g for g in p['log'] if g['k'] == 'sym'][-1]
        g['x'] = 'v1' if g['x'] != 'v1' else 'v2'

    c = [('observation: identifier', ident), ('expectation: identifier', exp_ident),
         ('observation: environment of the process afterwards', process_env),
         ('observation: current directory of the process afterwards', process_cwd)]
    if p['log']:
        c += [('observation: a record missing', drop), ('observation: preprocessor mark', flip_pp)]
    if any(swappable(a, b) for a, b in zip(p['log'], p['log'][1:])):
        c += [('observation: two records in the other order', swap), ('expectation: two records in the other order', exp_swap)]
    if any(g['k'] == 'probe' for g in p['log']):
        c += [('observation: a variable set by another case', leak_env), ('observation: a variable unset / not unset', leak_unset),
              ('observation: a file of another case', leak_file), ('observation: current directory', leak_cwd)]
    if any(g['k'] == 'probe' and g['ph'] == 'act' for g in p['log']):
        c.append(('observation: stdin of another case', leak_stdin))
    if len(set(g['root'] for g in p['log'] if 'root' in g)) > 1:
        c.append(('observation: value of the sandbox of an earlier case', stale_sandbox))
    if any(g['org'] == 'case' for g in p['log']) and r['fam'] == 'merge':
        c.append(('observation: a record of the case attributed to the suite', inherited))
    if any(g['k'] == 'ref' for g in p['log']):
        c.append(('observation: symbol value', symbol))
    if any(g['k'] == 'sym' for g in p['log']):
        c.append(('observation: value from the definitions of another case', other_definitions))
    return c


def swappable(a, b):
    return [a['org'], a['ph'], a['tag'], a['own']] != [b['org'], b['ph'], b['tag'], b['own']]


def negative_controls(ctx, recs, obs, projs):
    """corrupted observations and corrupted expectations must be rejected by the comparison"""
    rnd = random.Random(ctx.seed + 1)
    good = [j for j in range(len(recs)) if compare(recs[j], projs[j], obs[j]) is None]
    kinds = {}
    for n, j in enumerate(rnd.sample(good, min(400, len(good)))):
        p, e = json.loads(json.dumps(projs[j])), json.loads(json.dumps(recs[j]))
        cs = corruptions(recs[j], p)
        what, f = cs[n % len(cs)]
        f(p, e)
        if compare(e, p, obs[j]) is None:
            raise core.MachineryFailure('negative control accepted (%s): %s' % (what, brief(recs[j])))
        kinds[what] = kinds.get(what, 0) + 1
    if len(kinds) < 15 and not ctx.violations:
        # (with violations the run fails anyway; then there may be too few agreeing runs to corrupt)
        raise core.MachineryFailure('negative controls: only %s exercised' % sorted(kinds))
    ctx.cov['negative_controls_rejected'] += sum(kinds.values())
    ctx.cov['negative_control_kinds'] = kinds


def plans(tier):
    if tier == 'quick':
        return [('main', dict(families=['hist', 'merge', 'sds', 'sym'], ends=QUICK_ENDS,
                              later=['none', 'refX', 'def', 'obsT', 'expand', 'inclShared'],
                              len_all=2, len_core=0, merge_case_sets='two', sds_cases=(2,),
                              sym_vals=('v1', 'v2', 'vbad', 'vnone', 'vtype')), None)]
    return [('main', dict(families=['hist', 'merge', 'sds', 'sym'], len_all=2, len_core=3, merge_case_sets='all',
                          sds_cases=(2, 3), sym_vals=('v1', 'v2', 'v3', 'vbad', 'vnone', 'vtype'), sym_len=3), None),
            ('triples', dict(families=['hist'], ends=QUICK_ENDS, later=['none', 'refX', 'def', 'obsT', 'expand', 'envAct', 'inclShared'],
                             len_all=3, len_core=4), None),
            ('random', dict(families=['file']), 1500)]


def run(ctx):
    quick = ctx.tier == 'quick'
    t0 = time.time()
    phases = ctx.cov.setdefault('phases_s', {})
    background = []

    def start(f, *a, **kw):
        box = {}

        def body():
            try:
                box['result'] = f(*a, **kw)
            except BaseException as ex:
                box['error'] = ex
        th = threading.Thread(target=body)
        th.start()
        background.append((th, box))
        return box

    prepared, exports = [], []
    for name, c, n_random in plans(ctx.tier):
        env = None
        if n_random:
            path = os.path.join(ctx.scratch, 'random-hists.ndjson')
            with open(path, 'w') as fh:
                for x in random_hists(ctx.seed, n_random, 4, 7):
                    fh.write(json.dumps(x) + '\n')
            env = {'SUITECASES_INPUTS': path}
        prepared.append((name, c, env))
        exports.append(start(export, ctx, 'export-' + name, cfg(invariants=['Export'], **c), env=env))
    # the model itself: with each named deviation (= realistic defect) switched on, TLC must refute the clause
    small = dict(hist=dict(families=['hist'], muts=['none', 'envAll', 'timeout', 'def', 'refX', 'obsT', 'cdTmp'],
                           core_muts=[], later=['none', 'refX', 'obsT'], len_all=2),
                 merge=dict(families=['merge'], merge_case_sets='two'),
                 sds=dict(families=['sds'], sds_kinds=['arg', 'equals']),
                 sym=dict(families=['sym'], sym_kinds=['strArg', 'exitCode', 'timeoutInt']),
                 symLineNums=dict(families=['sym'], sym_kinds=['lineNums', 'lineNum']),
                 symBad=dict(families=['sym'], sym_kinds=['strArg', 'exitCode', 'matchesRx'], sym_vals=('v1', 'vbad')),
                 symRefs=dict(families=['sym'], sym_kinds=['strArg', 'equalsStr'], sym_vals=('v1', 'vnone', 'vtype')))
    refutations = {}
    gate = threading.Semaphore(3)

    def refute(d, inv, fam):
        with gate:
            return ctx.tlc('SuiteCases', cfg(invariants=[inv], deviations=[d], **small[fam]), name='deviation-' + d,
                           count=False, must_hold=False, workers=2)
    for d, (inv, fam) in DEVIATIONS.items():
        refutations[d] = start(refute, d, inv, fam)
    try:
        for name, c, env in prepared:
            res = ctx.tlc('SuiteCases', cfg(**c), coverage=True, name='mc-' + name, env=env)
            ctx.require_coverage(res, ACTIONS)
            if name == 'main':
                ctx.cov['checker_cmd'] = res.cmd.replace(res.run_dir, '<scratch>')
    finally:
        for th, _ in background:
            th.join()
    for _, box in background:
        if 'error' in box:
            raise box['error']
    for d, (inv, fam) in DEVIATIONS.items():
        if refutations[d]['result'].violated != inv:
            raise core.MachineryFailure('%s does not refute the deviation %s (TLC: %s)'
                                        % (inv, d, refutations[d]['result'].violated))
        ctx.cov['negative_controls_rejected'] += 1
    ctx.cov['deviations_refuted'] = {d: inv for d, (inv, fam) in DEVIATIONS.items()}
    recs, seen = [], set()
    for box in exports:
        for r in box['result']:
            k = run_key(r)
            if k not in seen:
                seen.add(k)
                recs.append(r)
    phases['tlc'] = round(time.time() - t0, 1)

    tasks, obs, projs = replay_runs(ctx, recs, 'all runs', subprocess_sample=(16 if quick else 160))
    phases['replay'] = round(time.time() - t0 - phases['tlc'], 1)
    negative_controls(ctx, recs, obs, projs)
    for fam, pick in (('hist', lambda r: r['way'] == 'suite' and [k[0] for k in r['h']] == ['envAll', 'expand']),
                      ('hist', lambda r: r['way'] == 'suite' and [list(k) for k in r['h']] == [['cdTmp', 'hard'], ['def', 'pass']]),
                      ('merge', lambda r: r['way'] == 'suite' and sorted(r['s0']) == ['cleanup', 'conf', 'setup']
                       and len(r['cs']) == 6),
                      ('merge', lambda r: r['way'] == 'option' and r['tgt'] == 2 and sorted(r['s0']) == ['assert', 'cleanup']
                       and len(r['cs']) == 6),
                      ('sds', lambda r: r['way'] == 'suite' and sorted(r['sk']) == ['defPath']),
                      ('sym', lambda r: r['way'] == 'suite' and sorted(r['sk']) == ['lineNums'] and r['vs'] == ['v1', 'v2']),
                      ('sym', lambda r: r['way'] == 'suite' and len(r['sk']) > 1 and r['vs'] == ['v2', 'v1'])):
        for j, r in enumerate(recs):
            if r['fam'] == fam and pick(r):
                ctx.sample(dict(input=brief(r), argv=tasks[j]['argv'], files=tasks[j]['files'],
                                expected=dict(idents=r['idents'],
                                              records=['%s/%s/%s/%s case %d sandbox %d cwd=%s A=%s B=%s pp=%s'
                                                       % (e['org'], e['ph'], e['k'], e['tag'], e['c'], e['sds'], e['cwd'],
                                                          value(e['A']) or '-', value(e['B']) or '-', e['pp'])
                                                       for e in r['log']]),
                                observed=dict(idents=projs[j]['idents'], penv=projs[j]['penv'],
                                              records=['%s/%s/%s/%s %s A=%s B=%s pp=%s'
                                                       % (g.get('org'), g.get('ph'), g.get('k'), g.get('tag'),
                                                          ('cwd=' + g['cwd']) if 'cwd' in g else '', g.get('A') or '-',
                                                          g.get('B') or '-', g.get('pp')) for g in projs[j]['log']],
                                              sandboxes=sorted(set(g['root'].rsplit('/', 1)[-1] for g in projs[j]['log']
                                                                   if 'root' in g)))), limit=7)
                break
    ctx.cov['exhaustive'] = True
    main = plans(ctx.tier)[0][1]
    n_kinds = len(ALL_MUTS) + len(CORE_MUTS) * (len(main.get('ends', ENDS)) - 1)
    later = main.get('later', ALL_MUTS)
    n_later = len(later) + len([m for m in later if m in CORE_MUTS]) * (len(main.get('ends', ENDS)) - 1)
    bounds = ('hist = every kind of case alone (%d mutations ending in PASS; the %d core mutations also with the endings %s: '
              '%d kinds; alone also run standalone, with --suite and beside exactly.suite) and every pair (any kind, then '
              'one of %d kinds)%s; merge = every set s0 of the 6 phases for the root suite (the sub-suite gets the '
              'complement) x case contents in %s, each run via the suite and each of the two cases with --suite and beside '
              'exactly.suite; sds = each of %d kinds of sandbox dependent instruction alone and all together, %s cases, '
              'via the suite and with --suite; sym = each of %d kinds of instruction of the suite whose value depends on '
              'symbols that every case defines with values of its own (INTEGER in exit-code / num-lines / line-num / '
              '-line-nums range / timeout, STRING in arguments / shell command / env / file contents / equals, REGEX, '
              'PATH, LIST, program, text-matcher, text-transformer, integer-matcher, line-matcher symbols) alone and all '
              'together, every sequence of %s cases over %d value sets with not all equal, via the suite, and every case '
              'with --suite, beside exactly.suite (the first also without suite)'
              % (len(ALL_MUTS), len(CORE_MUTS), '/'.join(e for e in main.get('ends', ENDS) if e != 'pass'), n_kinds,
                 n_later, '' if quick else ', every sequence of <= 3 core mutations',
                 {'two': '{all phases, complement of s0}', 'all': 'every subset of the phases (4096 pairs)'}[
                     main['merge_case_sets']], len(SDS_KINDS), ' and '.join(map(str, main['sds_cases'])),
                 len(SYM_KINDS), '2' if main.get('sym_len', 2) == 2 else '2..%d' % main['sym_len'],
                 len(main.get('sym_vals', ('v1', 'v2')))))
    if not quick:
        bounds += ('; + hist: every triple (any kind, then 2 of 10 later kinds), every sequence of <= 4 core mutations, '
                   'and 1500 seeded random histories of 4-7 cases of any kind, judged by TLC (family file)')
    ctx.cov['rule'] = ('every invocation TLC enumerates from SuiteCases.tla, rendered as files and executed in process (a '
                       'sample of the suite runs again as a real subprocess): ' + bounds + '; non-trivial = every '
                       'invocation but the lone unchanged observer case, distinct by (input, way of invocation, case)')
    ctx.cov['constants'] = {name: c for name, c, _ in plans(ctx.tier)}
    ctx.assumptions += [
        'the settings are observed by OS processes (sh scripts) that append a record to a file outside the sandbox: '
        'environment of the set they run in, physical current directory, names in act/ and tmp/, stdin (action to '
        'check only); symbols through a program argument; the sandbox a value belongs to through its path',
        'timeout: only "timeout = 0" is used (no waiting): the case that sets it runs `sleep 5` (must be killed at '
        'once: HARD_ERROR) and starts no other process afterwards - how a short process fares under a timeout of 0 '
        'seconds is a race; a leaked timeout shows as HARD_ERROR of a later case (certainly of the kind obsT: sleep 0.2)',
        'the action to check of the merge family is an executable sh script given by absolute path, so that the same '
        '[act] line works with the command line actor and with the source interpreter actor (sh) of the suite [conf]',
        'two command lines in [act] under the command line actor (suite and case both supply [act], no actor from the '
        'suite) are a SYNTAX_ERROR ("A single PROGRAM element"); an empty [act] uses the null actor (manual, [act])',
        'when --suite is given AND an exactly.suite lies beside the case is not explored (precedence is not documented)',
        'sym family: a suite instruction can only refer to symbols of the case from [before-assert] on (its [setup] '
        'contents come before the definitions of the case); "timeout = @[V_T]@" is followed by `sleep 2` and is only '
        'explored alone (value 0: killed at once, HARD_ERROR; value 60: two seconds)',
        'exit codes and the reporters of a suite run are C02 / C16; here only identifiers per case are compared',
        'the process state is os.environ (names A, B and any other change) and os.getcwd() of the in-process main '
        'program after the invocation',
    ]


def replay(ctx, rec):
    r = rec['record']
    if r.get('kind') == 'trace':
        from harness import trace_exec
        return trace_exec.replay(ctx, r)
    t = r['task']
    f = 'harness.props.c17:exec_subprocess' if r.get('how') == 'subprocess' else 'harness.props.c17:exec_run'
    with ctx.pool(workers=1) as pool:
        o = pool.map(f, [t], deadline=180)[0]
    bad = any(o.get(k) for k in ('no_termination', 'worker_died', 'harness_exception'))
    p = dict(idents=[], log=[], penv={}, cwd_ok=False, env_changed=[]) if bad else project(r['case'], t, o)
    clause = compare(r['case'], p, o)
    print(json.dumps(dict(input=brief(r['case']), argv=t['argv'], files=t['files'],
                          expected=dict(idents=r['case']['idents'], log=r['case']['log'], penv=r['case']['penv']),
                          observed=o, projected=p, clause=clause), indent=1))
    if clause:
        print('VIOLATION property=C17 replay=(given)')
        return 1
    return 0
