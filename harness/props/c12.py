"""C12  Paths resolve under their relativity root; the home directories are write-protected.

spec/Paths.tla enumerates small programs  [cd] def P1 = BASE .. def Pn = LINK(Pn-1) [cd] USE(role)  over every
relativity option / default / -rel SYMBOL / leading @[SYMBOL]@, FILE-NAME shapes (empty, nested, with string-symbol
references, absolute literal, absolute string symbol), 13 argument roles and the phases, and processes them as
Exactly does (parse all - validate all - execute in order).  TLC checks the clauses of the property on the model
and exports, per program, what must be observed: the verdict (PASS / SYNTAX_ERROR / VALIDATION_ERROR / "rejected")
and the location (root, components) the use instruction resolves to.

Every program is rendered as a real test case and run (--keep) in a world where the SAME relative path exists
under every root (home, act-home, directory of the source file, an absolute directory, act, tmp, result, the
current directory) with a content that names its location, so that the observation identifies where the path was
resolved: created files/directories are found by snapshots of all roots, `cd` by `pwd`, read arguments by the
content read / the program run / the absolute path a probe receives.  Programs  def.. USE cd USE  use the same
path expression twice around a change of directory (use k designates the entry uk below it): each use must
resolve against the directory current at THAT use.  Home directories, the directory of the
source file and the absolute directory are compared before/after.

Known finding D4 (absolute FILE-NAME escapes the relativity root): the same model with the named deviation
"AbsoluteSuffixWins" switched on predicts the current behaviour; a case is attributed to D4 only if the two
predictions differ AND the observation equals the prediction of the deviation.
"""
import json
import zlib
import os
import random
from concurrent.futures import ThreadPoolExecutor

from harness import core

ACTIONS = ['AddCd', 'AddMention', 'ExecMention', 'AddBase', 'AddLink', 'AddUse', 'AddUseAgain', 'ParseOk', 'ParseReject', 'ValidateOk', 'ValidateReject',
           'ExecDef', 'ExecCd', 'ExecUse']
INVARIANTS = ['TypeOK', 'ResolvesUnderRoot', 'RelCdAtUse', 'CdDoesNotMoveOtherRoots', 'WriteRolesNeverReachHome', 'CwdInSandbox',
              'WriteAcceptsOnlySandbox', 'CdAcceptsListed', 'RejectionNamed', 'RejectedBeforeExecution',
              'ListedIsAccepted']
ALL_ROLES = ['file', 'dir', 'copydst', 'cd', 'copysrc', 'contentsof', 'runprog', 'existingfile', 'contents',
             'exists', 'dircontents', 'actprog', 'def']
ALL_PHASES = ['setup', 'ba', 'assert', 'cleanup', 'act']
DEVIATION = 'AbsoluteSuffixWins'
SIM_BASE = ['E', 'd', 'de', 'S', 'Se', 'dT', 'ST', 'ed']
SIM_LINK = ['E', 'e', 'T', 'ed', 'de', 'Se', 'dT']

CONSTANTS = {
    'quick': dict(MaxDepth=2, BaseSfx=['d', 'de', 'S', 'AL', 'ASd'], LinkSfx=['E', 'e', 'AS'],
                  PlainBaseSfx=['d', 'AS'], PlainLinkSfx=['E', 'e'],
                  DeepBaseSfx=['d', 'AS'], DeepLinkSfx=['e'], Roles=ALL_ROLES, Phases=ALL_PHASES,
                  RichPhases=['setup'], DeepPhases=['setup'], CdPos=[0, 1, 2, 3, 4, 5], CdForms=['tmp']),
    'thorough': dict(MaxDepth=3, BaseSfx=['E', 'd', 'de', 'S', 'Se', 'dT', 'AL', 'AS', 'ASd'],
                     LinkSfx=['E', 'e', 'T', 'ed', 'AL', 'AS'],
                     PlainBaseSfx=['d', 'de', 'S', 'AL', 'ASd'], PlainLinkSfx=['E', 'e', 'AS'],
                     DeepBaseSfx=['d', 'AS'], DeepLinkSfx=['E', 'e'], Roles=ALL_ROLES, Phases=ALL_PHASES,
                     RichPhases=['setup', 'assert'], DeepPhases=['setup'], CdPos=[0, 1, 2, 3, 4, 5],
                     CdForms=['tmp', 'sub']),
    # random behaviours beyond the exhaustive bound (no absolute FILE-NAMEs: the deviation is not involved)
    'simulate': dict(MaxDepth=6, BaseSfx=SIM_BASE, LinkSfx=SIM_LINK, PlainBaseSfx=SIM_BASE, PlainLinkSfx=SIM_LINK,
                     DeepBaseSfx=SIM_BASE, DeepLinkSfx=SIM_LINK, Roles=ALL_ROLES, Phases=ALL_PHASES,
                     RichPhases=ALL_PHASES, DeepPhases=ALL_PHASES, CdPos=[0, 1, 2, 3, 4, 5], CdForms=['tmp', 'sub']),
}


def _set(xs):
    return '{' + ', '.join(str(x) if isinstance(x, int) else '"%s"' % x for x in xs) + '}'


def cfg(consts, deviations=(), invariants=INVARIANTS, may_reject=True):
    lines = ['SPECIFICATION Spec']
    for k, v in consts.items():
        lines.append('CONSTANT %s = %s' % (k, v if isinstance(v, int) else _set(v)))
    lines.append('CONSTANT Deviations = %s' % _set(deviations))
    lines.append('CONSTANT MayReject = %s' % ('TRUE' if may_reject else 'FALSE'))
    lines += ['INVARIANT %s' % i for i in invariants]
    lines.append('CHECK_DEADLOCK FALSE')
    return '\n'.join(lines) + '\n'


# ------------------------------------------------------------------------------------------------ concretisation
RELOPT = {'home': '-rel-home', 'acthome': '-rel-act-home', 'act': '-rel-act', 'tmp': '-rel-tmp',
          'result': '-rel-result', 'cd': '-rel-cd', 'here': '-rel-here'}
PHASE_HEADER = {'setup': 'setup', 'ba': 'before-assert', 'assert': 'assert', 'cleanup': 'cleanup', 'act': 'act'}
FILE_ROLES = ('copysrc', 'contentsof', 'runprog', 'existingfile', 'contents', 'exists', 'actprog')
DIR_ROLES = ('cd', 'dircontents')
CREATE_ROLES = ('file', 'dir', 'copydst')
HOST_ROOTS = ('home', 'acthome', 'here', 'abs')
SDS_ROOTS = ('act', 'tmp', 'result')
NOLOC = {'root': '-', 'comps': []}


def tag(loc):
    return loc['root'] + ''.join('-' + c for c in loc['comps'])


BUILTIN = {'home': 'EXACTLY_HOME', 'acthome': 'EXACTLY_ACT_HOME', 'act': 'EXACTLY_ACT', 'tmp': 'EXACTLY_TMP',
           'result': 'EXACTLY_RESULT'}


def render_expr(x, abs_dir, leaf=None, spelling=0):
    """leaf: with two uses of one path expression, use k designates the entry uk below it
    spelling: 1, 2 - the relativity root written as the builtin path symbol that stands for it (-rel EXACTLY_X /
    @[EXACTLY_X]@/...) instead of the option: the same directory"""
    names = []
    for p in x['parts']:
        names.append({'S': '@[S]@', 'T': '@[T]@', 'AS': '@[A]@', 'AL': abs_dir}.get(p, p))
    if leaf:
        names.append(leaf)
    fname = '/'.join(names) if names else "''"
    rel = x['rel']
    if rel in RELOPT and not names and x.get('role') == 'copydst':
        return RELOPT[rel]          # the relativity option alone: that root directory itself
    if rel in BUILTIN and spelling == 1:
        return '-rel %s %s' % (BUILTIN[rel], fname)
    if rel in BUILTIN and spelling == 2 and names and not str(names[0]).startswith('/'):
        return '@[%s]@/%s' % (BUILTIN[rel], fname)
    if rel in RELOPT:
        return RELOPT[rel] + ' ' + fname
    if rel == 'default':
        return fname
    if rel == 'relsym':
        return '-rel P%d %s' % (x['sym'], fname)
    assert rel == 'ref'
    return '@[P%d]@' % x['sym'] + ('/' + fname if names else '')


def use_lines(role, p, out, want_tag, k):
    probe = "run % sh -c 'echo \"$1\" >> " + out + "/arg.txt' sh"
    match = "any line : contents matches ' %s$'" % want_tag
    return {
        'file': ['file %s = W' % p],
        'dir': ['dir %s' % p],
        'copydst': ['copy src.txt %s' % p],
        'cd': ['cd %s' % p, '$ pwd > %s/pwd.txt' % out],
        'copysrc': ['copy %s -rel-tmp zz-copied%d' % (p, k)],
        'contentsof': ['file -rel-tmp zz-read%d = -contents-of %s' % (k, p)],
        'runprog': ['run %s' % p],
        'existingfile': ['%s -existing-file %s' % (probe, p)],
        'contents': ['contents %s : %s' % (p, match)],
        'exists': ['exists %s : type file && contents %s' % (p, match)],
        'dircontents': ['dir-contents %s : matches -full { m-%s : type file }' % (p, want_tag)],
        'actprog': [p],
        'def': ['def path Q%d = %s' % (k, p), '%s @[Q%d]@' % (probe, k)],
    }[role]


def pass_alts(task):
    seen, out = set(), []
    for a in task['alts'] + task['dalts']:
        if a['outcome'] == 'PASS':
            k = json.dumps(a['uses'], sort_keys=True)
            if k not in seen:
                seen.add(k)
                out.append(a)
    return out


def script_text(out, t):
    return '#!/bin/sh\necho >> %s/ran.txt %s\n' % (out, t)


def world(task, dirs):
    """The fixture: the relative path of every predicted resolution exists under EVERY root and under the
    current directory of every use, typed by the role, with a content naming its location.
    -> (host entries, sandbox entries); an entry is (root, comps, 'f' | 'd' | 'p')  ('p': parent directory only)."""
    role = task['role']
    kind = 'f' if role in FILE_ROLES else 'd' if role in DIR_ROLES else 'p' if role in CREATE_ROLES else None
    places = []
    if kind:
        for a in pass_alts(task):
            bases = [{'root': r, 'comps': []} for r in HOST_ROOTS + SDS_ROOTS]
            bases += [u['cwdAtUse'] for u in a['uses']]        # (of EVERY use: also where a stale value points)
            for u in a['uses']:
                for b in bases:
                    places.append((b['root'], tuple(b['comps']) + tuple(u['rc'])))
    host, sds = [], [('act', ('c',), 'D'), ('tmp', ('c',), 'D')]
    for root, comps in sorted(set(places)):
        if not comps:
            continue
        (host if root in HOST_ROOTS else sds).append((root, comps, kind))
    return host, sds


def populate_host(host, dirs, out):
    for root, comps, kind in host:
        p = os.path.join(dirs[root], *comps)
        if kind == 'p':
            os.makedirs(os.path.dirname(p), exist_ok=True)
        elif kind == 'd':
            os.makedirs(p, exist_ok=True)
            with open(os.path.join(p, 'm-' + tag({'root': root, 'comps': comps})), 'w') as fh:
                fh.write('')
        else:
            os.makedirs(os.path.dirname(p), exist_ok=True)
            with open(p, 'w') as fh:
                fh.write(script_text(out, tag({'root': root, 'comps': comps})))
            os.chmod(p, 0o755)


def populate_script(sds, out):
    """sh script run by the first [setup] instruction; the current directory is then the act directory.
    (one mkdir and one chmod process per case: process creation dominates the cost of a case)"""
    made, mkdirs, writes, execs = set(), [], [], []
    for root, comps, kind in sds:
        rel = '/'.join((root,) + tuple(comps))
        t = tag({'root': root, 'comps': comps})
        if kind == 'p':
            mkdirs.append(os.path.dirname(rel))
        elif kind in ('d', 'D'):
            mkdirs.append(rel)
            if kind == 'd':
                writes.append(': > %s/m-%s' % (rel, t))
                made.add(rel + '/m-' + t)
        else:
            mkdirs.append(os.path.dirname(rel))
            writes.append("printf '%%s\\n' '#!/bin/sh' 'echo >> %s/ran.txt %s' > %s" % (out, t, rel))
            execs.append(rel)
        parts = rel.split('/')
        upto = len(parts) if kind != 'p' else len(parts) - 1
        for j in range(2, upto + 1):
            made.add('/'.join(parts[:j]))
    lines = ['#!/bin/sh', 'set -e', 'cd ..', 'mkdir -p ' + ' '.join(sorted(set(mkdirs)))] + writes
    if execs:
        lines.append('chmod +x ' + ' '.join(execs))
    lines.append(': > %s/populated' % out)
    return '\n'.join(lines) + '\n', made


def concretize(task, cd):
    abs_dir = os.path.join(cd.root, 'abs')
    dirs = {'here': cd.home, 'home': os.path.join(cd.home, 'hm'), 'acthome': os.path.join(cd.home, 'ah'),
            'abs': abs_dir}
    pa = pass_alts(task)
    # where the case is accepted whichever way: the root may be written as the builtin symbol that stands for it
    only_pass = all(a['outcome'] == 'PASS' for a in task['alts'] + task['dalts'])
    spelling = zlib.crc32(json.dumps(task['prog'], sort_keys=True).encode()) % 3 if only_pass and not task.get('d4') else 0
    two = task['cdpos'] == 3
    n_use = 0
    setup = ['$ sh %s/populate.sh' % cd.home, 'def string S = d', 'def string T = e', 'def string A = %s' % abs_dir]
    body, act = [], []
    for ins in task['prog']:
        if ins['op'] == 'use':
            n_use += 1
        p = render_expr(ins, abs_dir, leaf='u%d' % n_use if two and ins['op'] == 'use' else None, spelling=spelling)
        if ins['op'] == 'def':
            body.append('def path P%d = %s' % (sum(1 for l in body if l.startswith('def path P')) + 1, p))
        elif ins['op'] == 'cd':
            body.append('cd %s' % p)
        elif ins['op'] == 'mention':         # a reference that puts no restriction on the symbol
            body.append('run % true @[P{0}]@'.format(ins['sym']))
        else:
            want = tag(pa[0]['uses'][n_use - 1]['resolved']) if pa and len(pa[0]['uses']) >= n_use else 'none'
            lines = use_lines(task['role'], p, cd.out, want, n_use)
            if task['cdpos'] == 5:       # the same symbol once more in the same instruction, without restriction
                lines = ['file %s = "W @[P%d]@"' % (p, task['depth'])]
            if task['role'] == 'actprog':
                act = lines
            else:
                body += lines
    phase = task['phase']
    text = '[conf]\nhome = hm\nact-home = ah\n[setup]\n' + '\n'.join(setup) + '\n'
    if phase in ('setup', 'act'):
        text += '\n'.join(body) + '\n'
        if act:
            text += '[act]\n' + '\n'.join(act) + '\n'
    else:
        text += '[%s]\n' % PHASE_HEADER[phase] + '\n'.join(body) + '\n'
    return text, dirs


def loc_of_path(path, dirs, sds_dir):
    """absolute path -> location, by the longest root directory that is a prefix (None: outside every root)"""
    path = os.path.realpath(path) if os.path.isabs(path) else path
    cands = [(r, os.path.realpath(d)) for r, d in dirs.items()]
    if sds_dir:
        cands += [(r, os.path.join(os.path.realpath(sds_dir), r)) for r in SDS_ROOTS]
    best = None
    for r, d in cands:
        if path == d or path.startswith(d + '/'):
            if best is None or len(d) > len(best[1]):
                best = (r, d)
    if best is None:
        return None
    rest = path[len(best[1]):].strip('/')
    return {'root': best[0], 'comps': rest.split('/') if rest else []}


def host_snapshot(cd, dirs):
    from harness import inproc
    snap = {}
    for rel, v in inproc.tree_snapshot(cd.home, with_contents=False).items():
        snap[os.path.join(cd.home, rel)] = v
    for rel, v in inproc.tree_snapshot(dirs['abs'], with_contents=False).items():
        snap[os.path.join(dirs['abs'], rel)] = v
    return snap


def read_if(path):
    try:
        with open(path) as fh:
            return fh.read()
    except OSError:
        return None


def tag_in(text):
    """the location tag inside a fixture script (None if the text is not one)"""
    if text is None:
        return None
    lines = text.split('\n')
    if len(lines) >= 2 and lines[0] == '#!/bin/sh' and lines[1].startswith('echo >> '):
        return lines[1].rsplit(' ', 1)[1]
    return 'not-a-fixture:' + text[:40]


def exec_case(task, cd):
    from harness import inproc
    text, dirs = concretize(task, cd)
    for d in dirs.values():
        os.makedirs(d, exist_ok=True)
    host, sds = world(task, dirs)
    populate_host(host, dirs, cd.out)
    script, made = populate_script(sds, cd.out)
    cd.write({'c.case': text, 'populate.sh': script, 'hm/src.txt': 'SRC\n'})
    before = host_snapshot(cd, dirs)
    r = inproc.run_main(['--keep', 'c.case'], cd)
    after = host_snapshot(cd, dirs)
    boxes = cd.sandboxes()
    sds_dir = os.path.join(cd.tmp, boxes[0]) if len(boxes) == 1 else None
    host_changed = []
    for p in sorted(set(before) | set(after)):
        if before.get(p) != after.get(p):
            loc = loc_of_path(p, dirs, None)
            host_changed.append([loc['root'] if loc else '?', loc['comps'] if loc else [p],
                                 (after.get(p) or 'removed')[:1]])
    sds_new, zz = [], {}
    if sds_dir:
        for root in SDS_ROOTS:
            snap = inproc.tree_snapshot(os.path.join(sds_dir, root), with_contents=False)
            for rel, v in sorted(snap.items()):
                full = root + '/' + rel
                if full in made or full in ('result/exit-code', 'result/stdout', 'result/stderr'):
                    continue
                if root == 'tmp' and rel.startswith('zz-'):
                    zz[rel] = tag_in(read_if(os.path.join(sds_dir, full)))
                    continue
                sds_new.append([root, rel.split('/'), v[:1]])

    def as_loc(s):
        if s is None:
            return None
        s = s.rstrip('\n')
        return dict(loc=loc_of_path(s, dirs, sds_dir), text=s)

    args = read_if(os.path.join(cd.out, 'arg.txt'))

    ran = read_if(os.path.join(cd.out, 'ran.txt'))
    first = lambda s: (s.splitlines() or [''])[0]
    return dict(exit=r['exit'], exception=r['exception'], verdict=first(r['stderr']), stderr=r['stderr'][:700],
                stdout_is_sds=bool(sds_dir) and os.path.realpath(r['stdout'].strip() or '/') == os.path.realpath(sds_dir),
                sandboxes=len(boxes), populated=os.path.exists(os.path.join(cd.out, 'populated')),
                host_changed=host_changed, sds_new=sds_new, zz=zz,
                ran=ran.split() if ran is not None else [],
                arg=[as_loc(l) for l in args.splitlines()] if args is not None else [],
                pwd=as_loc(read_if(os.path.join(cd.out, 'pwd.txt'))),
                expected_path_of=dict(dirs=dirs, sds=sds_dir), text=text)


# ------------------------------------------------------------------------------------------------ comparison
REJECT = {'SYNTAX_ERROR': ('SYNTAX_ERROR',), 'VALIDATION_ERROR': ('VALIDATION_ERROR',),
          'REJECTED': ('SYNTAX_ERROR', 'VALIDATION_ERROR')}


def path_string(loc, o):
    d = o['expected_path_of']
    root = d['dirs'].get(loc['root']) or os.path.join(d['sds'] or '?', loc['root'])
    return os.path.join(root, *loc['comps'])


def matches(task, alt, o):
    """None if the observation is what the terminal state `alt` of the specification predicts, else the clause"""
    if o.get('no_termination') or o.get('worker_died') or o.get('harness_exception') or o.get('exception'):
        return 'Terminates/NoEscapingException'
    role = task['role']
    if alt['outcome'] in REJECT:
        if o['verdict'] not in REJECT[alt['outcome']]:
            return 'Rejected: verdict %r, specification %s' % (o['verdict'], alt['outcome'])
        if o['exit'] == 0:
            return 'Rejected: exit code 0'
        if o['populated'] or o['sandboxes'] or o['ran'] or o['arg'] or o['pwd']:
            return 'RejectedBeforeExecution: something was executed'
        if o['host_changed']:
            return 'HomeUnchanged: %s' % o['host_changed'][:3]
        return None
    # accepted: the case passes and the path was resolved where the specification says
    if o['verdict'] != 'PASS' or o['exit'] != 0:
        return 'Accepted: verdict %r exit %s, specification PASS' % (o['verdict'], o['exit'])
    if not o['populated'] or o['sandboxes'] != 1 or not o['stdout_is_sds']:
        return 'Machinery: fixture / sandbox not as expected'
    uses = alt['uses']
    want_host, want_sds = [], []
    if role in CREATE_ROLES:
        for u in uses:
            loc = u['resolved']
            ent = [loc['root'], loc['comps'], 'd' if role == 'dir' else 'f']
            (want_host if loc['root'] in HOST_ROOTS else want_sds).append(ent)
    if sorted(o['host_changed']) != sorted(want_host):
        return 'HomeUnchanged/CreatedWhere: outside the sandbox %s, specification %s' % (o['host_changed'][:3], want_host)
    if sorted(o['sds_new']) != sorted(want_sds):
        return 'CreatedWhere: in the sandbox %s, specification %s' % (o['sds_new'][:3], want_sds)
    tags = [tag(u['resolved']) for u in uses]
    if role == 'cd':
        if not o['pwd'] or o['pwd']['loc'] != uses[-1]['resolved']:
            return 'ResolvedWhere: pwd %s, specification %s' % (o['pwd'] and o['pwd']['text'], tags)
    elif o['pwd']:
        return 'Machinery: unexpected pwd record'
    if role in ('def', 'existingfile'):
        # the rendered value is an absolute path string: the very string (or, should the scratch directory be
        # reached through a symbolic link, a string that denotes the same location)
        def same(text, want):
            return text == want or (text.startswith('/') and '/../' not in text + '/'
                                    and os.path.realpath(text) == os.path.realpath(want))
        if len(o['arg']) != len(uses) or not all(same(a['text'], path_string(u['resolved'], o))
                                                 for a, u in zip(o['arg'], uses)):
            return 'ResolvedWhere: rendered %s, specification %s' % ([a['text'] for a in o['arg']], tags)
    elif o['arg']:
        return 'Machinery: unexpected arg record'
    want_ran = tags if role in ('runprog', 'actprog') else []
    if o['ran'] != want_ran:
        return 'ResolvedWhere: program run %s, specification %s' % (o['ran'], want_ran)
    name = {'copysrc': 'zz-copied', 'contentsof': 'zz-read'}.get(role)
    want_zz = {'%s%d' % (name, k + 1): t for k, t in enumerate(tags)} if name else {}
    if o['zz'] != want_zz:
        return 'ResolvedWhere: contents read %s, specification %s' % (o['zz'], want_zz)
    return None


def judge(task, o):
    """-> (None | clause, explained_by)"""
    clauses = [matches(task, a, o) for a in task['alts']]
    if any(c is None for c in clauses):
        return None, None
    if task['d4'] and any(matches(task, a, o) is None for a in task['dalts']):
        return clauses[0], 'D4'
    return clauses[0], None


# ------------------------------------------------------------------------------------------------ cases
def prog_key(c):
    return json.dumps([c['role'], c['phase'], c['cdpos'] == 5, [[i['op'], i['rel'], i['sym'], i['sfx']] for i in c['prog']]])


ALT_FIELDS = ('outcome', 'uses')


def build_tasks(ideal, dev):
    groups, order = {}, []
    for recs, field in ((ideal, 'alts'), (dev or [], 'dalts')):
        for c in recs:
            k = prog_key(c)
            g = groups.get(k)
            if g is None:
                g = groups[k] = dict(key=k, role=c['role'], phase=c['phase'], depth=c['depth'], cdpos=c['cdpos'],
                                     cdform=c['cdform'], prog=c['prog'], bad=c['bad'], alts=[], dalts=[])
                order.append(k)
            a = {f: c[f] for f in ALT_FIELDS}
            if a not in g[field]:
                g[field].append(a)
    tasks = []
    for k in order:
        g = groups[k]
        if not g['alts']:
            raise core.MachineryFailure('a case of the deviation run does not exist in the specification run: ' + k)
        if dev is None:
            g['dalts'] = []
        norm = lambda alts: sorted(json.dumps(a, sort_keys=True) for a in alts)
        g['d4'] = bool(g['dalts']) and norm(g['alts']) != norm(g['dalts'])
        tasks.append(g)
    return tasks


def nontrivial(t):
    return (t['depth'] >= 1 or t['cdpos'] != 0 or any(a['outcome'] != 'PASS' for a in t['alts'])
            or any(len(i['parts']) != 1 or i['parts'][0] not in ('c', 'd', 'e') for i in t['prog']))


def signature(t, clause, explained):
    use = t['prog'][-1]
    chain = '>'.join('%s:%s' % (i['rel'], i['sfx']) for i in t['prog'] if i['op'] != 'cd')
    return '%s role=%s phase=%s cd=%d%s chain=%s' % (clause.split(':')[0], t['role'], t['phase'], t['cdpos'],
                                                     t['cdform'] if t['cdpos'] else '', chain)


def check_tasks(ctx, tasks, label, deadline=60):
    with ctx.pool() as pool:
        obs = pool.map('harness.props.c12:exec_case', tasks, deadline=deadline, chunk=12)
    bad = known = 0
    for t, o in zip(tasks, obs):
        ctx.count()
        if nontrivial(t):
            ctx.nontrivial(t['key'])
        clause, explained = judge(t, o)
        if clause:
            bad += 1
            known += explained is not None
            o = dict(o)
            o.pop('expected_path_of', None)
            ctx.fail(signature(t, clause, explained), dict(kind='case', task=t, observed=o, clause=clause),
                     explained_by=explained)
    ctx.cov['traces_validated_against_impl'] += len(tasks)
    ctx.cov.setdefault('replay', {})[label] = dict(cases=len(tasks), disagreements=bad, attributed_to_D4=known,
                                                   d4_touched=sum(1 for t in tasks if t['d4']))
    return obs


def negative_controls(ctx, tasks, obs):
    """corrupt observations (and expectations): the comparison must reject every one of them"""
    rnd = random.Random(ctx.seed + 7)
    idx = [j for j, (t, o) in enumerate(zip(tasks, obs)) if len(t['alts']) == 1 and judge(t, o)[0] is None]
    tried = rejected = 0
    per_kind = {}
    for j in rnd.sample(idx, min(400, len(idx))):
        t, o = tasks[j], json.loads(json.dumps(obs[j]))
        passed = o['verdict'] == 'PASS'
        m = tried % 6
        if m == 0:
            if passed:
                o['verdict'], o['exit'] = 'VALIDATION_ERROR', 65
            else:
                o['verdict'], o['exit'], o['populated'], o['sandboxes'], o['stdout_is_sds'] = 'PASS', 0, True, 1, True
        elif m == 1:
            o['host_changed'] = o['host_changed'] + [['home', ['d', 'x'], 'f']]
        elif m == 2:
            if o['sds_new']:
                o['sds_new'][0][0] = 'tmp' if o['sds_new'][0][0] != 'tmp' else 'act'
            elif passed:
                o['sds_new'] = [['act', ['stray'], 'f']]
            else:
                o['populated'] = True
        elif m == 3:
            rec = o['pwd'] if o['pwd'] else o['arg'][-1] if o['arg'] else None
            if rec is None:
                continue
            rec['text'] += '/e'
            rec['loc'] = dict(rec['loc'] or NOLOC, comps=(rec['loc'] or NOLOC)['comps'] + ['e'])
        elif m == 4:
            if o['ran']:
                o['ran'] = [o['ran'][0].replace('-d', '-e', 1) + '-x']
            elif o['zz']:
                o['zz'] = {k: 'home-x' for k in o['zz']}
            else:
                continue
        else:
            # corrupt the expectation instead: the specification's location loses its last component
            t = json.loads(json.dumps(t))
            alts = [a for a in t['alts'] if a['outcome'] == 'PASS' and a['uses'][-1]['resolved']['comps']]
            if not alts or t['role'] in ('contents', 'exists', 'dircontents'):
                continue
            for a in t['alts']:
                u = a['uses'][-1]
                u['resolved'] = dict(u['resolved'], comps=u['resolved']['comps'][:-1])
        tried += 1
        per_kind[m] = per_kind.get(m, 0) + 1
        rejected += judge(t, o)[0] is not None
    if tried < 20 or tried != rejected or len(per_kind) < 6:
        raise core.MachineryFailure('negative controls: %d of %d corrupted records rejected (kinds %s)'
                                    % (rejected, tried, per_kind))
    ctx.cov['negative_controls_rejected'] += rejected


def run(ctx):
    quick = ctx.tier == 'quick'
    consts = CONSTANTS[ctx.tier]
    # five TLC runs, side by side:
    # 1. (mc) the model: the clauses of the property hold on every case ...
    #    (mc-with-deviation-D4) ... and are sharp: with the deviation of known finding D4 switched on, TLC finds
    #    the escape
    # 2. (export, export-with-deviation-D4) spec -> code: every case, with the prediction of the specification and
    #    of the specification + deviation
    # 3. (simulate) beyond the exhaustive bound: random behaviours of the same machine (longer chains, more shapes)
    with ThreadPoolExecutor(6) as ex:
        f_sim = ex.submit(ctx.tlc, 'PathsExport',
                          cfg(CONSTANTS['simulate'], invariants=INVARIANTS + ['Export'], may_reject=False), workers=1,
                          simulate='num=%d' % (700 if quick else 10000), depth=40, seed=ctx.seed + 1,
                          name='simulate', timeout=3000, heap='3g')
        f_mc = ex.submit(ctx.tlc, 'Paths', cfg(consts), coverage=True, name='mc', workers=8, heap='4g')
        f_dv = ex.submit(ctx.tlc, 'Paths', cfg(consts, [DEVIATION], ['WriteRolesNeverReachHome']), workers=2,
                         name='mc-with-deviation-D4', count=False, must_hold=False, heap='3g')
        f_d2 = ex.submit(ctx.tlc, 'Paths', cfg(consts, ['ValidatedOncePerSymbol'], ['WriteRolesNeverReachHome']),
                         workers=2, name='mc-with-deviation-ValidatedOncePerSymbol', count=False, must_hold=False,
                         heap='3g')
        f_id = ex.submit(ctx.tlc, 'PathsExport', cfg(consts, invariants=['Export']), workers=1, name='export',
                         count=False, timeout=3000, heap='3g')
        f_de = ex.submit(ctx.tlc, 'PathsExport', cfg(consts, [DEVIATION], invariants=['Export']), workers=1,
                         name='export-with-deviation-D4', count=False, timeout=3000, heap='3g')
        res, dv, ideal, dev, sim = f_mc.result(), f_dv.result(), f_id.result(), f_de.result(), f_sim.result()
    ctx.cov['checker_cmd'] = res.cmd.replace(res.run_dir, '<scratch>')
    ctx.require_coverage(res, ACTIONS)
    if dv.violated != 'WriteRolesNeverReachHome':
        raise core.MachineryFailure('the model with deviation %s should violate WriteRolesNeverReachHome, got %s'
                                    % (DEVIATION, dv.violated))
    ctx.cov['negative_controls_rejected'] += 1
    if f_d2.result().violated != 'WriteRolesNeverReachHome':
        raise core.MachineryFailure('the model with deviation ValidatedOncePerSymbol should violate '
                                    'WriteRolesNeverReachHome, got %s' % f_d2.result().violated)
    ctx.cov['negative_controls_rejected'] += 1
    ideal, dev = ideal.printed_json('CASE'), dev.printed_json('CASE')
    tasks = build_tasks(ideal, dev)
    if len(tasks) < 1000 or not any(t['d4'] for t in tasks):
        raise core.MachineryFailure('export too small: %d cases' % len(tasks))
    obs = check_tasks(ctx, tasks, 'every case of the model')
    negative_controls(ctx, tasks, obs)
    # 3. the random deeper chains
    deep = build_tasks(sim.printed_json('CASE'), None)
    by_key = {t['key']: t for t in deep}
    for c in sim.printed_json('ALT'):      # the rejection the property allows as well (see PathsExport)
        t = by_key.get(prog_key(c))
        a = {f: c[f] for f in ALT_FIELDS}
        if t is not None and a not in t['alts']:
            t['alts'].append(a)
    seen = {t['key'] for t in tasks}
    deep = [t for t in deep if t['key'] not in seen]
    check_tasks(ctx, deep, 'random deeper chains (TLC -simulate)')
    # evidence
    picks = [j for j, t in enumerate(tasks) if t['depth'] == 2 and t['role'] in ('file', 'cd', 'contentsof')]
    rnd = random.Random(ctx.seed)
    twice = [j for j, t in enumerate(tasks) if t['cdpos'] == 3 and t['depth'] >= 1 and t['role'] in ('file', 'contents')]
    for j in (rnd.sample(picks, min(3, len(picks))) + rnd.sample(twice, min(1, len(twice)))
              + [j for j, t in enumerate(tasks) if t['d4']][:1]):
        t, o = tasks[j], obs[j]
        ctx.sample(dict(role=t['role'], phase=t['phase'], text=o.get('text'),
                        specification=[dict(outcome=a['outcome'], resolved=[u['resolved'] for u in a['uses']])
                                       for a in t['alts']],
                        observed=dict(verdict=o.get('verdict'), created=o.get('sds_new'), outside=o.get('host_changed'),
                                      pwd=o.get('pwd') and o['pwd']['loc'], arg=[a['loc'] for a in o.get('arg') or []],
                                      ran=o.get('ran'), read=o.get('zz'))))
    ctx.cov['exhaustive'] = True
    ctx.cov['constants'] = {k: v for k, v in consts.items()}
    ctx.cov['rule'] = (
        'every terminal state of Paths.tla for the constants of the tier: role (13) x phase x chain of path-symbol '
        'definitions up to depth %d (-rel SYMBOL / @[SYMBOL]@[/suffix]) x relativity option or default x FILE-NAME '
        'shape x context cd (none / before the definitions / between definitions and use / after the use, followed by a '
        'second use of the same path expression), plus %d random deeper '
        'chains (depth <= 6) from TLC -simulate; non-trivial = a chain, a context cd, a rejection, or a FILE-NAME '
        'that is not one literal component; distinct by program text' % (consts['MaxDepth'], len(deep)))
    ctx.assumptions += [
        'where a path was resolved is observed through a fixture that puts the same relative path under every '
        'root with a content naming the location; the sandbox part of the fixture is made by a shell script run '
        'as the first [setup] instruction (its current directory is the act directory, the others are ../tmp, '
        '../result)',
        'for arguments that are only read, options / symbol relativities the manual does not list may be either '
        'rejected or resolved under their root (the property claims rejection only for arguments that create or '
        'modify); an absolute FILE-NAME together with a RELATIVITY is explored for creating/modifying arguments only',
        'an empty FILE-NAME is written \'\' (after an option / -rel SYMBOL) or as a bare @[SYMBOL]@',
        'D4 cases write below <scratch>/abs only (the absolute prefix used is inside the task\'s own directory)',
    ]


def replay(ctx, rec):
    r = rec['record']
    with ctx.pool(workers=1) as pool:
        o = pool.map('harness.props.c12:exec_case', [r['task']], deadline=60)[0]
    clause, explained = judge(r['task'], o)
    o.pop('expected_path_of', None)
    print(json.dumps(dict(specification=r['task']['alts'], with_deviation=r['task']['dalts'] if r['task']['d4'] else None,
                          observed=o, clause=clause, explained_by=explained), indent=1))
    if clause and not (explained and ctx.findings.get(explained, {}).get('state') == 'open'):
        print('VIOLATION property=C12 replay=(given)')
        return 1
    return 0
