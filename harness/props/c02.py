"""C02  Outcome table: status x outcome -> verdict, exit code, identifier, in the three output modes.

spec/OutcomeReport.tla enumerates every run (status x mode x way of ending x cleanup fault x ATC exit code) with
what must be reported; every run is rendered as test-case text (stub main program: default instruction set +
scripted stubs, real `$` action when the act steps succeed) and executed; exit code and the token sequences of
stdout / stderr are compared.  Rows that need no stub are repeated with the default main program as a subprocess.
"""
import json
import os
import random
import subprocess

from harness import core, casegen

INVARIANTS = ['VerdictTable', 'ErrorVerdicts', 'CodeMatchesIdentifier', 'NormalIdOnStdout', 'KeepStdoutIsOnlyPath',
              'ActModePassThrough']


def cfg(exits, invariants=INVARIANTS):
    return ('SPECIFICATION Spec\nCONSTANT AtcExits = {%s}\n' % ', '.join(map(str, exits))
            + ''.join('INVARIANT %s\n' % i for i in invariants) + 'CHECK_DEADLOCK FALSE\n')


MODE_FLAG = {'normal': [], 'keep': ['--keep'], 'act': ['--act']}
PRE_VARIANTS = {
    'usage': [dict(argv=['--no-such-option', 'c.case']), dict(argv=['missing-file.case']),
              dict(argv=['c.case', 'superfluous']), dict(argv=['--suite', 'missing-file.suite', 'c.case'])],
    'file-access': [dict(inject=('setup', 'including missing-file.xly')),
                    dict(inject=('cleanup', 'including missing-file.xly'))],
    # exits non-zero; cannot be executed: no such program, a file that is not executable
    'preproc': [dict(pre_argv=['--preprocessor', 'false']), dict(pre_argv=['--preprocessor', '/does/not/exist/preprocessor']),
                dict(pre_argv=['--preprocessor', './c.case']),
                # ... or does not exit at all: killed by a signal, after it has written a complete test case / nothing
                dict(pre_argv=['--preprocessor', 'sh kill-self.sh'],
                     files={'kill-self.sh': 'cat "$1"\nkill -KILL $$\n'}),
                dict(pre_argv=['--preprocessor', 'sh term-self.sh'], files={'term-self.sh': 'kill -TERM $$\n'})],
    'syntax': [dict(inject=('setup', 'no-such-instruction x')), dict(inject=('cleanup', 'verif-stub SYNTAX')),
               dict(inject=('assert', "exit-code == 'unterminated")), dict(append='[no-such-phase]\n')],
}


# REAL instructions (of the default instruction set / the bundled actors) that by themselves produce the outcome of
# the model's alphabet at the given step: the classification "an error is an error, a failed assertion is a failure,
# what can be checked beforehand is a validation error" is bound to real instructions, not only to the scripted stub.
# For act steps: the contents of [act] ("CONF-LINE | ACT-LINE" selects an actor).
REAL = {
    ('main', 'conf', 've'): ['home = does-not-exist', 'act-home = does-not-exist'],
    ('sym', 'setup', 've'): ['def string S = @[UNDEFINED_SYM]@', 'copy @[UNDEFINED_SYM]@'],
    ('sym', 'act', 've'): ['$ echo @[UNDEFINED_SYM]@'],
    ('sym', 'ba', 've'): ['def string S = @[UNDEFINED_SYM]@', 'cd @[UNDEFINED_SYM]@'],
    ('sym', 'assert', 've'): ['exists @[UNDEFINED_SYM]@', 'contents f : UNDEFINED_MATCHER'],
    ('sym', 'cleanup', 've'): ['def string S = @[UNDEFINED_SYM]@', 'dir @[UNDEFINED_SYM]@'],
    ('pre', 'setup', 've'): ['copy does-not-exist', 'file f = -contents-of -rel-home does-not-exist'],
    ('pre', 'act', 've'): ['does-not-exist-program arg'],
    ('pre', 'ba', 've'): ['file f = -contents-of -rel-home does-not-exist', 'run does-not-exist-program'],
    ('pre', 'assert', 've'): ['exit-code == not-an-integer', 'stdout equals -contents-of -rel-home does-not-exist'],
    ('pre', 'cleanup', 've'): ['file f = -contents-of -rel-home does-not-exist', 'run does-not-exist-program'],
    ('post', 'act', 'he_ret'): ['-rel-act does-not-exist-program', 'actor = file % python3 | -rel-act does-not-exist.py'],
    ('main', 'setup', 'he_ret'): ['cd does-not-exist', 'dir f/g/../../../..', 'file f = -contents-of -rel-act does-not-exist'],
    ('main', 'ba', 'he_ret'): ['cd does-not-exist', 'run % false', 'file f = -contents-of -rel-act does-not-exist'],
    ('main', 'assert', 'he_ret'): ['cd does-not-exist', 'contents does-not-exist : is-empty',
                                   'dir-contents does-not-exist : is-empty',
                                   'stdout equals -contents-of -rel-act does-not-exist'],
    ('main', 'assert', 'fail'): ['exists does-not-exist', 'stdout is-empty'],
    ('main', 'cleanup', 'he_ret'): ['cd does-not-exist', 'run % false'],
    ('parse', 'act', 'syntax'): ["'unterminated"],
    ('execute', 'act', 'he_ret'): ['% does-not-exist-program-in-path'],
}


def concretize(run):
    """abstract run -> list of concrete variants dict(files, argv)."""
    variants = []
    base = casegen.scripted_case(run['tc'], tuple(run['endStep']), run['endO'], run['cleanupO'], run['atcExit'])
    flag = MODE_FLAG[run['mode']]
    if run['pre'] == 'none':
        variants.append(dict(files={'c.case': base}, argv=flag + ['c.case']))
        if run['atcExit'] in (0, 5):
            variants.append(dict(files={'c.case': base}, argv=flag + ['--preprocessor', 'cat', 'c.case']))
            for line in REAL.get((run['endStep'][0], run['endStep'][1], run['endO']), []):
                text = casegen.scripted_case(run['tc'], tuple(run['endStep']), run['endO'], run['cleanupO'],
                                             run['atcExit'], real=line)
                variants.append(dict(files={'c.case': text}, argv=flag + ['c.case']))
        return variants
    for v in PRE_VARIANTS[run['pre']]:
        text = base
        if 'inject' in v:
            ph, line = v['inject']
            hdr = '[%s]\n' % casegen.PHASE_NAME[ph]
            text = text.replace(hdr, hdr + line + '\n', 1)
        if 'append' in v:
            text += v['append']
        argv = v.get('argv')
        if argv is None:
            argv = v.get('pre_argv', []) + ['c.case']
        variants.append(dict(files=dict(v.get('files', {}), **{'c.case': text}), argv=flag + argv))
    return variants


def exec_variant(task, cd):
    from harness import inproc, stubmain
    cd.write(task['files'])
    stubmain.RECORDER.log.clear()
    if task.get('no_tmp'):       # the directory for temporary files does not exist: no sandbox can be made
        import tempfile
        tempfile.tempdir = os.path.join(cd.out, 'no-such-directory')         # (restored by the worker after the task)
    r = inproc.run_main(task['argv'], cd, main_program=stubmain.stub_main_program(), trace=task.get('trace', False))
    obs = dict(exit=r['exit'], exception=r['exception'], out=casegen.tokens(r['stdout'], True),
               err=casegen.tokens(r['stderr'], False), raw_out=r['stdout'][:300], raw_err=r['stderr'][:600],
               sandboxes=cd.sandboxes(), cwd_ok=r['cwd_after'] == r['cwd_before'], env_changed=r['env_changed'])
    if 'trace' in r:
        obs['events'] = r['trace']
    return obs


def exec_subprocess(task, cd):
    from harness import runner
    cd.write(task['files'])
    env = dict(os.environ, PYTHONPATH=os.path.join(runner.REPO, 'src'), TMPDIR=cd.tmp, PYTHONWARNINGS='ignore')
    env.pop('EXACTLY_VERIF_TRACE', None)
    p = subprocess.run(['/venv/bin/python', os.path.join(runner.REPO, 'src', 'default-main-program-runner.py')]
                       + task['argv'], cwd=cd.home, env=env, stdout=subprocess.PIPE, stderr=subprocess.PIPE,
                       text=True, timeout=60)
    return dict(exit=p.returncode, exception=None, out=casegen.tokens(p.stdout, True),
                err=casegen.tokens(p.stderr, False), raw_out=p.stdout[:300], raw_err=p.stderr[:600],
                sandboxes=cd.sandboxes(), cwd_ok=True, env_changed=[])


def strip_msg(toks):
    return [t for t in toks if t != ['MSG']]


def matches(exp, obs):
    if obs.get('exception') or obs.get('no_termination') or obs.get('worker_died') or obs.get('harness_exception'):
        return 'NoEscapingException/Terminates'
    if obs['exit'] != exp['exit']:
        return 'ExitCode: %s, specification %s' % (obs['exit'], exp['exit'])
    if obs['out'] != [list(t) for t in exp['out']]:
        return 'Stdout: %s, specification %s' % (obs['out'], exp['out'])
    if strip_msg(obs['err']) != strip_msg([list(t) for t in exp['err']]):
        return 'Stderr: %s, specification %s' % (strip_msg(obs['err']), strip_msg(exp['err']))
    n_sds = 1 if (exp['mode'] == 'keep' and exp['sds']) else 0
    if len(obs['sandboxes']) != n_sds:
        return 'SandboxLeft: %s' % obs['sandboxes']
    return None


def run_key(r):
    return json.dumps([r['tc'], r['mode'], r['pre'], r['endK'], r['endO'], r['cleanupO'], r['atcExit']])


def check_runs(ctx, runs, label, subprocess_sample=0):
    """runs: exported Done states.  Several states may belong to one run (either failure may be named)."""
    groups = {}
    for r in runs:
        groups.setdefault(run_key(r), []).append(r)
    tasks, owner = [], []
    for key, g in groups.items():
        for v in concretize(g[0]):
            tasks.append(v)
            owner.append(key)
    with ctx.pool() as pool:
        obs = pool.map('harness.props.c02:exec_variant', tasks, deadline=60, chunk=8)
        sub_idx = []
        if subprocess_sample:
            rnd = random.Random(ctx.seed)
            plain = [j for j, t in enumerate(tasks) if 'verif-' not in t['files']['c.case'].replace('verif-stub 1\n', '')]
            # rows that need no scripted stub: drop the (always succeeding) stub lines and use the default program
            sub_idx = rnd.sample(plain, min(subprocess_sample, len(plain)))
            sub_tasks = [dict(files={'c.case': tasks[j]['files']['c.case'].replace('verif-stub 1\n', '')},
                              argv=tasks[j]['argv']) for j in sub_idx]
            sub_obs = pool.map('harness.props.c02:exec_subprocess', sub_tasks, deadline=90, chunk=1)
    bad = 0
    for j, (t, o) in enumerate(zip(tasks, obs)):
        bad += judge(ctx, groups[owner[j]], t, o, 'in-process')
    for j, o in zip(sub_idx, sub_obs if sub_idx else []):
        bad += judge(ctx, groups[owner[j]], sub_tasks[sub_idx.index(j)], o, 'subprocess')
    ctx.cov['traces_validated_against_impl'] += len(tasks) + len(sub_idx)
    ctx.cov.setdefault('replay', {})[label] = dict(abstract_runs=len(groups), concrete_cases=len(tasks),
                                                   subprocess_cases=len(sub_idx), disagreements=bad)
    return groups, tasks, obs, owner


def judge(ctx, group, task, o, how):
    ctx.count()
    g0 = group[0]
    if g0['pre'] != 'none' or g0['endK'] != 0 or g0['cleanupO'] != 'ok' or g0['tc'] != 'PASS' or g0['mode'] != 'normal':
        ctx.nontrivial(run_key(g0) + json.dumps(task['argv']) + task['files']['c.case'][:0])
    clauses = [matches(e, o) for e in group]
    if any(c is None for c in clauses):
        return 0
    sig = '%s tc=%s mode=%s pre=%s end=%s/%s cleanup=%s' % (clauses[0].split(':')[0], g0['tc'], g0['mode'], g0['pre'],
                                                           '.'.join(g0['endStep']), g0['endO'], g0['cleanupO'])
    ctx.fail(sig, dict(kind='run', how=how, run=g0, expected=[dict(exit=e['exit'], out=e['out'], err=e['err'],
                                                                   verdict=e['verdict']) for e in group],
                       task=task, observed=o, clause=clauses[0]))
    return 1


def composed(ctx, quick):
    """spec/Exactly.tla: the whole invocation (stages before execution, PhaseExec step by step, reporter) - the outcome
    table over EVERY behaviour of the executor; every behaviour is replayed through the CLI."""
    def xcfg(invariants):
        return ('SPECIFICATION XSpec\nCONSTANTS MaxN = 1\n AtcExits = {0, 5}\n'
                + ''.join('INVARIANT %s\n' % i for i in invariants) + 'CHECK_DEADLOCK FALSE\n')
    res = ctx.tlc('Exactly', xcfg(['NothingBeforeParsing', 'CodeMatchesIdentifier', 'KeepStdoutIsOnlyPath',
                                   'ActModePassThrough', 'SuccessMeansNoFailure', 'SandboxFate', 'StepOrder',
                                   'CleanupExactlyOnce', 'HaltAtFirstFailure']), coverage=True, name='mc-composed')
    ctx.require_coverage(res, ['StageOk', 'StageFails', 'Execute', 'ExecuteDone', 'WriteReport'])
    exp = ctx.tlc('ExactlyExport', xcfg(['Export']), workers=1, name='export-composed', count=False, timeout=3000)
    runs = exp.printed_json('RUN')
    groups = {}
    for r in runs:
        executed = any(e[0] == 'execute' and e[3] == 'ok' for e in r['log'])
        if (not executed and r['atcExit'] != 0) or (r['pre'] != 'none' and (r['atcExit'] != 0 or r['st'] != 'PASS'
                                                                          or any(r['n'].values()))):
            continue        # the exit code / shape is irrelevant there: one representative
        key = json.dumps([r['n'], r['st'], r['mode'], r['log'], r['pre'], r['atcExit']], sort_keys=True)
        groups.setdefault(key, []).append(r)
    keys = sorted(groups)
    if quick:
        rnd = random.Random(ctx.seed + 11)
        keys = rnd.sample(keys, min(len(keys), 6000))
    tasks, owner = [], []
    for key in keys:
        r = groups[key][0]
        flag = MODE_FLAG[r['mode']]
        if r['pre'] == 'none':
            text = casegen.case_from_log(r['n'], r['st'], r['log'], r['atcExit'])
            if text is None:
                continue
            tasks.append(dict(files={'c.case': text}, argv=flag + ['c.case']))
            owner.append(key)
        else:
            base = casegen.case_from_log(dict(conf=0, setup=1, ba=0, cleanup=1, **{'assert': 1}), 'PASS', [], 0)
            for v in PRE_VARIANTS[r['pre']][:2]:
                text = base
                if 'inject' in v:
                    ph, line = v['inject']
                    hdr = '[%s]\n' % casegen.PHASE_NAME[ph]
                    text = text.replace(hdr, hdr + line + '\n', 1)
                argv = v.get('argv') or (v.get('pre_argv', []) + ['c.case'])
                tasks.append(dict(files={'c.case': text + v.get('append', '')}, argv=flag + argv))
                owner.append(key)
    with ctx.pool() as pool:
        obs = pool.map('harness.props.c02:exec_variant', tasks, deadline=60, chunk=16)
    bad = 0
    for t, key, o in zip(tasks, owner, obs):
        ctx.count()
        g = groups[key]
        ctx.nontrivial('composed:' + key)
        exps = [dict(exit=r['exit'], out=r['out'], err=r['err'], mode=r['mode'], sds=r['sds'] == 'kept') for r in g]
        clauses = [matches(e, o) for e in exps]
        if all(c is not None for c in clauses):
            bad += 1
            r = g[0]
            ctx.fail('Composed %s n=%s st=%s mode=%s pre=%s script=%s' % (
                clauses[0].split(':')[0], json.dumps(r['n'], sort_keys=True), r['st'], r['mode'], r['pre'],
                [e for e in r['log'] if e[3] != 'ok']),
                dict(kind='run', how='in-process', run=dict(mode=r['mode'], sds=r['sds'] == 'kept'),
                     expected=[dict(exit=e['exit'], out=e['out'], err=e['err'], verdict='?') for e in exps],
                     task=t, observed=o, clause=clauses[0]))
    ctx.cov['traces_validated_against_impl'] += len(tasks)
    ctx.cov.setdefault('replay', {})['composed machine (Exactly.tla)'] = dict(
        behaviours=len(groups), replayed=len(tasks), disagreements=bad)


def negative_controls(ctx, groups, tasks, obs, owner):
    rnd = random.Random(ctx.seed + 1)
    tried = rejected = 0
    for j in rnd.sample(range(len(tasks)), min(40, len(tasks))):
        o = json.loads(json.dumps(obs[j]))
        m = tried % 3
        if m == 0:
            o['exit'] = 0 if o['exit'] != 0 else 32
        elif m == 1:
            o['out'], o['err'] = o['err'], o['out']
            if o['out'] == o['err']:
                continue
        else:
            ids = [t for t in o['out'] + o['err'] if t[0] == 'ID']
            if not ids:
                continue
            ids[0][1] = 'PASS' if ids[0][1] != 'PASS' else 'FAIL'
        tried += 1
        if all(matches(e, o) is not None for e in groups[owner[j]]):
            rejected += 1
    if tried == 0 or tried != rejected:
        raise core.MachineryFailure('negative controls: %d of %d corrupted observations rejected' % (rejected, tried))
    ctx.cov['negative_controls_rejected'] += rejected


def run(ctx):
    quick = ctx.tier == 'quick'
    exits = [0, 1, 5, 255] if quick else list(range(256))
    res = ctx.tlc('OutcomeReport', cfg(exits), coverage=True, name='mc')
    ctx.require_coverage(res, ['Run', 'Decide', 'ReportUsage', 'ReportNormal', 'ReportKeep', 'ReportAct'])
    exp = ctx.tlc('OutcomeReportExport', cfg(exits, invariants=['Export']), workers=1, name='export', count=False)
    runs = exp.printed_json('CASE')
    groups, tasks, obs, owner = check_runs(ctx, runs, 'all runs', subprocess_sample=(24 if quick else 400))
    # an implementation error OUTSIDE every instruction - the sandbox cannot be created - is reported like any other
    # implementation error before the sandbox exists (the specification's row for that status and mode)
    no_sds = []
    for mode in ('normal', 'keep', 'act'):
        row = [r for r in runs if r['mode'] == mode and r['endO'] == 'exc' and r['sds'] != 'kept' and r['pre'] == 'none'
               and r['tc'] == 'PASS' and r['exit'] == 129 and tuple(r['endStep']) == ('main', 'conf')]
        if not row:
            raise core.MachineryFailure('no INTERNAL_ERROR row without sandbox for mode ' + mode)
        no_sds.append((row[0], dict(files={'c.case': '[act]\n$ echo hi\n'}, argv=MODE_FLAG[mode] + ['c.case'], no_tmp=True)))
    with ctx.pool(workers=3) as pool:
        nobs = pool.map('harness.props.c02:exec_variant', [t for _, t in no_sds], deadline=60, chunk=1)
    for (r, t), o in zip(no_sds, nobs):
        ctx.count()
        clause = matches(dict(exit=r['exit'], out=r['out'], err=r['err'], mode=r['mode'], sds=False), o)
        if clause:
            ctx.fail('%s tc=PASS mode=%s the sandbox cannot be created' % (clause.split(':')[0], r['mode']),
                     dict(kind='no-sandbox', mode=r['mode'], expected=dict(exit=r['exit'], out=r['out'], err=r['err']),
                          observed=o, task=t))
    ctx.cov['traces_validated_against_impl'] += len(no_sds)
    negative_controls(ctx, groups, tasks, obs, owner)
    composed(ctx, quick)
    for j in range(0, len(tasks), max(1, len(tasks) // 4)):
        g = groups[owner[j]][0]
        ctx.sample(dict(run={k: g[k] for k in ('tc', 'mode', 'pre', 'endStep', 'endO', 'cleanupO', 'atcExit')},
                        argv=tasks[j]['argv'], expected=dict(exit=g['exit'], out=g['out'], err=g['err']),
                        observed=dict(exit=obs[j].get('exit'), out=obs[j].get('out'), err=obs[j].get('err'))))
    ctx.cov['exhaustive'] = True
    ctx.cov['rule'] = ('every run of OutcomeReport.tla (status x mode x pre-execution ending x failing executor step x '
                       'outcome x cleanup fault x ATC exit code in %s) rendered as test-case text and executed; '
                       'plus every behaviour of the composed machine Exactly.tla (stages before execution + all of '
                       'PhaseExec for MaxN = 1 + reporter; a seeded sample of 6000 in the quick tier); '
                       'non-trivial = distinct concrete case other than the plain passing one'
                       % ('{0,1,5,255}' if quick else '0..255'))
    ctx.assumptions += ['act-step faults and instruction-step faults that real instructions cannot produce are scripted '
                        'through the verif-stub instruction / verif-actor of harness/stubmain.py (public constructors)',
                        'error message text on stderr is not compared (MSG tokens), only its position relative to the '
                        'identifier and the action\'s output']


def replay(ctx, rec):
    r = rec['record']
    if r.get('kind') == 'no-sandbox':
        r = dict(r, how='in-process', run=dict(mode=r['mode'], sds=False), expected=[r['expected']])
    with ctx.pool(workers=1) as pool:
        f = 'harness.props.c02:exec_variant' if r['how'] == 'in-process' else 'harness.props.c02:exec_subprocess'
        o = pool.map(f, [r['task']], deadline=90)[0]
    exps = [dict(e, mode=r['run']['mode'], sds=r['run']['sds']) for e in r['expected']]
    clauses = [matches(e, o) for e in exps]
    print(json.dumps(dict(task=r['task'], expected=r['expected'], observed=o, clauses=clauses), indent=1))
    if all(c is not None for c in clauses):
        print('VIOLATION property=C02 replay=(given)')
        return 1
    return 0
