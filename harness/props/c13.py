"""C13  Line selection by `filter` is exact.

spec/LineFilter.tla: reference semantics (per-line) and the mechanism as coded (intervals with inversion computed
by two visitors, adaption to line numbers, interval-limited reading).  TLC checks IntervalSound / InversionSound /
FilterExact for EVERY expression the stack machine builds up to a size bound (and, with Deviations = {"D1"}, shows
the counterexample of the repaired defect D1).  Every expression and every range list TLC enumerates is rendered in
the DSL and run through the real CLI on texts of 0, 1 and N lines; the kept lines are compared with the reference.
"""
import json
import os
import random

from harness import core

INVARIANTS = ['IntervalSound', 'InversionSound', 'FilterExact']
ACTIONS = ['PushCmp', 'PushConst', 'PushContents', 'Negate', 'Combine', 'LineNum', 'Finish']


def cfg(n, ks, max_tokens, max_neg, deviations=(), invariants=INVARIANTS, max_ranges=None, random_lists=0):
    s = ('SPECIFICATION Spec\nCONSTANTS MaxLines = %d\n Ks = {%s}\n MaxTokens = %d\n MaxNeg = %d\n Deviations = {%s}\n'
         % (n, ', '.join(map(str, ks)), max_tokens, max_neg, ', '.join('"%s"' % d for d in deviations)))
    if max_ranges is not None:
        s += ' MaxRanges = %d\n RandomRangeLists = %d\n' % (max_ranges, random_lists)
    s += ''.join('INVARIANT %s\n' % i for i in invariants) + 'CHECK_DEADLOCK FALSE\n'
    return s


# ---------------------------------------------------------------- rendering
def render_im(e, flat):
    t = e[0]
    if t == 'cmp':
        return '%s %d' % (e[1], e[2])
    if t == 'const':
        return 'constant %s' % ('true' if e[1] else 'false')
    if t == 'not':
        return '! ' + render_im(e[1], flat)
    if t in ('and', 'or'):
        return '( ' + render_bin(e, flat, render_im) + ' )'
    raise ValueError(e)


def render_bin(e, flat, f):
    op = ' && ' if e[0] == 'and' else ' || '
    left = e[1]
    if flat and left[0] == e[0]:
        return render_bin(left, flat, f) + op + f(e[2], flat)   # n-ary: ( a && b && c )
    return f(left, flat) + op + f(e[2], flat)


def render_lm(e, flat):
    t = e[0]
    if t == 'ln':
        return 'line-num ' + render_im(e[1], flat)
    if t == 'contents':
        return "contents matches '^L[13579]$'"
    if t == 'const':
        return 'constant %s' % ('true' if e[1] else 'false')
    if t == 'not':
        return '! ' + render_lm(e[1], flat)
    if t in ('and', 'or'):
        return '( ' + render_bin(e, flat, render_lm) + ' )'
    raise ValueError(e)


def render_range(r):
    if r[0] == 'single':
        return '%d' % r[1]
    if r[0] == 'upto':
        return ':%d' % r[1]
    if r[0] == 'from':
        return '%d:' % r[1]
    return '%d:%d' % (r[1], r[2])


def text_of(n, final_newline=True, ctl=False):
    # ctl: every line ends with a form feed - a character of the LINE (str.splitlines would divide the text there)
    t = ''.join('L%d%s\n' % (i, '\x0c' if ctl else '') for i in range(1, n + 1))
    if not final_newline and t:
        t = t[:-1]
    return t


# ---------------------------------------------------------------- worker side
def exec_batch(task, cd):
    """task: dict(n=..., filters=[filter arguments]) - several filters per test case run (one `file` per text)."""
    from harness import inproc
    n = task['n']
    nl = task.get('final_newline', True)
    ctl = bool(task.get('ctl'))
    cd.write({'in0.txt': '', 'in1.txt': text_of(1, nl, ctl), 'inN.txt': text_of(n, nl, ctl)})
    literal = task.get('source') == 'literal'      # the text held in memory (a string) instead of read from a file

    program = task.get('source') == 'program'     # the text is the output of a program

    def src(name):
        if program:
            return '-stdout-from %% cat %s' % os.path.join(cd.home, 'in%s.txt' % name)
        if not literal:
            return '-contents-of -rel-home in%s.txt' % name
        t = text_of({'0': 0, '1': 1, 'N': n}[name], nl, ctl)
        return '"%s"' % t.replace('\n', '@[NEW_LINE]@')

    lines = []
    for j, f in enumerate(task['filters']):
        for name in ('0', '1', 'N'):
            if ctl:
                f = f.replace("'^L[13579]$'", "'^L[13579]\\f$'")
            # (the arguments of a program extend to the end of the line: the transformation goes on the next one)
            lines.append('file o%d_%s.txt = %s%s-transformed-by filter %s'
                         % (j, name, src(name), '\n    ' if program else ' ', f))
    cd.write({'c.case': '[setup]\n' + '\n'.join(lines) + '\n'})
    r = inproc.run_main(['--keep', 'c.case'], cd)
    res = dict(exit=r['exit'], exception=r['exception'], stderr=r['stderr'][:400], outs=None)
    sds = r['stdout'].strip()
    if r['exit'] == 0 and sds and os.path.isdir(sds):
        outs = []
        for j in range(len(task['filters'])):
            o = {}
            for name in ('0', '1', 'N'):
                p = os.path.join(sds, 'act', 'o%d_%s.txt' % (j, name))
                o[name] = open(p).read() if os.path.exists(p) else None
            outs.append(o)
        res['outs'] = outs
    return res


def exec_shared(task, cd):
    """One transformer object applied to SEVERAL texts of different length within one instruction
    (`dir-contents d : every file : contents -transformed-by filter ARG ...`): every file must come out as the
    specification says for ITS length - state kept in the transformer between texts would show."""
    from harness import inproc
    n = task['n']

    def text(k, tag):
        return ''.join('L%d%s\n' % (i, tag) for i in range(1, k + 1))

    files = {'src/f0': '', 'src/f1': text(1, 'x'), 'src/fN': text(n, 'y')}
    lines = ['[setup]', 'copy -rel-home src d', '[assert]']
    for j, it in enumerate(task['items']):
        files['e%d_0' % j] = ''
        files['e%d_1' % j] = ''.join('L%dx\n' % i for i in it['exp']['1'])
        files['e%d_N' % j] = ''.join('L%dy\n' % i for i in it['exp']['N'])
        lines.append('dir-contents d : every file : contents -transformed-by filter %s\n    ( equals -contents-of -rel-home '
                     'e%d_0 || equals -contents-of -rel-home e%d_1 || equals -contents-of -rel-home e%d_N )'
                     % (it['arg'].replace("'^L[13579]$'", "'^L[13579][xy]$'"), j, j, j))
    files['c.case'] = '\n'.join(lines) + '\n'
    cd.write(files)
    r = inproc.run_main(['c.case'], cd)
    return dict(exit=r['exit'], exception=r['exception'], ident=(r['stdout'].splitlines() or [''])[0],
                stderr=r['stderr'][:600])


def check_shared(ctx, items, n, label, per_case=6):
    tasks = [dict(n=n, items=items[a:a + per_case]) for a in range(0, len(items), per_case)]
    with ctx.pool() as pool:
        obs = pool.map('harness.props.c13:exec_shared', tasks, deadline=120, chunk=4)
        redo = [it for t, o in zip(tasks, obs) if not (o.get('exit') == 0 and o.get('ident') == 'PASS') for it in t['items']]
        robs = pool.map('harness.props.c13:exec_shared', [dict(n=n, items=[it]) for it in redo], deadline=60, chunk=4) \
            if redo else []
    bad = 0
    for it, o in zip(redo, robs):
        if not (o.get('exit') == 0 and o.get('ident') == 'PASS'):
            bad += 1
            ctx.fail('FilterExact (one transformer, several texts) filter %s' % it['arg'],
                     dict(kind='shared', arg=it['arg'], n=n, expected=it['exp'], observed=o))
    for it in items:
        ctx.count()
    ctx.cov['traces_validated_against_impl'] += len(items)
    ctx.cov.setdefault('replay', {})[label] = dict(cases=len(items), test_case_runs=len(tasks) + len(redo),
                                                   disagreements=bad)


def selected(text, n):
    """kept text -> list of line numbers, or None if it is not a sub-sequence of the input's lines."""
    if text is None:
        return None
    if text == '':
        return []
    parts = text.split('\n')
    if parts[-1] == '':
        parts = parts[:-1]
    out = []
    for p in parts:
        if p.endswith('\x0c'):
            p = p[:-1]
        if not (p.startswith('L') and p[1:].isdigit()):
            return None
        out.append(int(p[1:]))
    return out


def check_items(ctx, items, n, label, per_case=8):
    """items: list of dict(arg=filter argument, exp={'0':[..],'1':[..],'N':[..]}, key=..., abstract=...)."""
    tasks = []
    for j in range(0, len(items), per_case):
        chunk = items[j:j + per_case]
        tasks.append(dict(n=n, filters=[it['arg'] for it in chunk], final_newline=(j // per_case) % 2 == 0,
                          source=('program' if (j // per_case) % 6 == 5 else
                                  'literal' if (j // per_case) % 4 >= 2 else 'file'), ctl=(j // per_case) % 8 >= 4))
    with ctx.pool() as pool:
        obs = pool.map('harness.props.c13:exec_batch', tasks, deadline=120, chunk=4)
        # a batch that did not PASS as a whole is re-run item by item (so that one bad item does not hide the others)
        redo = [(ti, k) for ti, o in enumerate(obs) if o.get('outs') is None for k in range(len(tasks[ti]['filters']))]
        redo_tasks = [dict(n=n, filters=[tasks[ti]['filters'][k]], final_newline=tasks[ti]['final_newline'],
                           source=tasks[ti]['source'], ctl=tasks[ti]['ctl']) for ti, k in redo]
        redo_obs = pool.map('harness.props.c13:exec_batch', redo_tasks, deadline=60, chunk=4) if redo else []
    single = {(ti, k): o for (ti, k), o in zip(redo, redo_obs)}
    bad = 0
    for ti, (t, o) in enumerate(zip(tasks, obs)):
        for k, farg in enumerate(t['filters']):
            it = items[ti * per_case + k]
            ctx.count()
            if any(it['exp'][x] for x in ('1', 'N')) and it.get('nontrivial', True):
                ctx.nontrivial(it['key'])
            if o.get('outs') is not None:
                out = o['outs'][k]
                oo = o
            else:
                oo = single[(ti, k)]
                out = oo['outs'][0] if oo.get('outs') else None
            clause = None
            if out is None:
                clause = 'Evaluates: exit %s %s' % (oo.get('exit'), (oo.get('stderr') or str(oo))[:200])
            else:
                for name, length in (('0', 0), ('1', 1), ('N', n)):
                    got = selected(out[name], length)
                    if got != it['exp'][name]:
                        clause = 'FilterExact: %d-line text: kept %s, specification %s' % (length, got, it['exp'][name])
                        break
            if clause:
                bad += 1
                ctx.fail('%s filter %s' % (clause.split(':')[0], farg),
                         dict(kind='filter', arg=farg, n=n, expected=it['exp'], observed=out, clause=clause,
                              abstract=it.get('abstract'), final_newline=t['final_newline'], source=t['source']))
    ctx.cov['traces_validated_against_impl'] += len(items)
    ctx.cov.setdefault('replay', {})[label] = dict(cases=len(items), test_case_runs=len(tasks) + len(redo),
                                                   disagreements=bad)
    return bad


def expr_items(cases):
    items = []
    for c in cases:
        key = json.dumps(c['e'])
        flat = (hash(key) % 2) == 0
        items.append(dict(arg=render_lm(c['e'], flat), key=key, abstract=c['e'],
                          exp={'0': sorted(c['sel0']), '1': sorted(c['sel1']), 'N': sorted(c['selN'])}))
    return items


def range_items(recs):
    items = []
    for c in recs:
        key = json.dumps(c['rs'])
        items.append(dict(arg='-line-nums ' + ' '.join(render_range(r) for r in c['rs']), key='R' + key,
                          abstract=c['rs'], exp={'0': sorted(c['sel0']), '1': sorted(c['sel1']), 'N': sorted(c['selN'])}))
    return items


def run(ctx):
    quick = ctx.tier == 'quick'
    n = 4
    ks = [0, 1, 2, 4, 5] if quick else [0, 1, 2, 3, 4, 5]
    max_tokens, max_neg = (5, 2) if quick else (6, 3)
    # 1. the design: the mechanism is sound for every expression up to the bound ...
    res = ctx.tlc('LineFilter', cfg(n, ks, max_tokens, max_neg), coverage=True, name='mc', timeout=3000)
    ctx.require_coverage(res, ACTIONS)
    # ... and TLC does see the (repaired) defect D1 on the mechanism as it was: a control of the model's sharpness
    d1 = ctx.tlc('LineFilter', cfg(n, [1, 2], 4, 1, deviations=['D1']), name='mc-with-deviation-D1', count=False,
                 must_hold=False)
    if d1.violated != 'InversionSound':
        raise core.MachineryFailure('the model with deviation D1 should violate InversionSound, got %s' % d1.violated)
    ctx.cov['negative_controls_rejected'] += 1
    # 1a. `-line-nums`: the mechanism as coded (ten stream transformers with their pockets; partition, translation,
    # merge and the one-pass walker for several ranges) against the reference, for every list of ranges of the bound
    def rs_cfg(max_n, bound, max_ranges, deviations=(), invariants=('MechanismExact', 'SingleAgreesWithMulti', 'MergedWellFormed')):
        return ('SPECIFICATION Spec\nCONSTANTS MaxN = %d\n Bound = %d\n MaxRanges = %d\n Deviations = {%s}\n'
                % (max_n, bound, max_ranges, ', '.join('"%s"' % d for d in deviations))
                + ''.join('INVARIANT %s\n' % i for i in invariants) + 'CHECK_DEADLOCK FALSE\n')
    rs = ctx.tlc('RangeStream', rs_cfg(3, 5, 2), coverage=True, name='mc-range-mechanism', timeout=3000)
    ctx.require_coverage(rs, ['AddRange'])
    if not quick:
        ctx.tlc('RangeStream', rs_cfg(2, 4, 3), name='mc-range-mechanism-3-ranges', timeout=3000)
    for dev in ('TouchingNotFused', 'PocketOffByOne'):
        r = ctx.tlc('RangeStream', rs_cfg(3, 5, 2, deviations=[dev], invariants=['MechanismExact']),
                    name='mc-range-mechanism-with-' + dev, count=False, must_hold=False, workers=4)
        if r.violated != 'MechanismExact':
            raise core.MachineryFailure('RangeStream with deviation %s should violate MechanismExact, got %s' % (dev, r.violated))
        ctx.cov['negative_controls_rejected'] += 1
    # 1b. the interval algebra for ALL integers.  IntervalOps.tla is the algebra of LineFilter.tla without the
    # sentinel for "no limit"; TLC checks that the two are the same operators on a bounded domain (every pair of
    # interval pairs), Apalache proves the induction steps of IntervalSound / InversionSound for every integer
    # operand and line number (IntervalLemmas.tla), and must refute the step for the combination as coded before
    # the repair of D1.  An obligation Apalache cannot decide in its time limit is reported, not assumed.
    ctx.tlc('IntervalOpsEq', 'CONSTANT Lim <- %s\nINIT Init\nNEXT Next\n' % ('LimQuick' if quick else 'LimDefault'),
            workers=1, name='typed-operators-equal', count=False, timeout=3000)
    from concurrent.futures import ThreadPoolExecutor
    from harness import tlc as tlc_mod
    # one Apalache process per lemma, side by side with the rest of the check (collected at the end)
    jobs = [(l, 'InitAny', 'NoError') for l in ('LeafLemma', 'NaturalLemma', 'CombineLemmaI', 'CombineLemmaL', 'AdaptLemma')]
    jobs.append(('D1Refuted', 'InitAny', 'Error'))
    if not quick:
        jobs += [('NegLemmaL', 'InitAny', 'NoError'), ('ClosedLemma', 'Init', 'NoError')]
    apa_pool = ThreadPoolExecutor(len(jobs))
    apa = [(inv, want, apa_pool.submit(tlc_mod.apalache, 'IntervalLemmas', ctx.scratch, inv, init=init, length=0,
                                       timeout=600 if quick else 2400)) for inv, init, want in jobs]
    # 2. spec -> code: every expression (smaller operand set for the export: every shape, fewer operand values)
    eks = [1, 2, 4] if quick else [0, 1, 2, 4, 5]
    et, en = (5, 2) if quick else (5, 3)
    exp = ctx.tlc('LineFilterExport', cfg(n, eks, et, en, invariants=['Export'], max_ranges=(2 if quick else 2),
                                          random_lists=(300 if quick else 6000)),
                  workers=1, name='export', count=False, seed=ctx.seed + 1, timeout=3000)
    cases = exp.printed_json('CASE')
    ranges = exp.printed_json('RANGES')
    if quick:
        rnd = random.Random(ctx.seed)
        two = [r for r in ranges if len(r['rs']) == 2]
        rest = [r for r in ranges if len(r['rs']) != 2]
        ranges = rest + rnd.sample(two, min(6000, len(two)))
    items = expr_items(cases)
    check_items(ctx, items, n, 'expressions (exhaustive to the bound)')
    ritems = range_items(ranges)
    check_items(ctx, ritems, n, 'range lists')
    rnd2 = random.Random(ctx.seed + 9)
    check_shared(ctx, ritems if not quick else rnd2.sample(ritems, min(len(ritems), 3000)), n,
                 'range lists, one transformer for texts of 0, 1 and N lines')
    check_shared(ctx, items if not quick else rnd2.sample(items, min(len(items), 2000)), n,
                 'expressions, one transformer for texts of 0, 1 and N lines')
    # 3. deep expressions: TLC random behaviours of the same machine beyond the exhaustive bound
    sim = ctx.tlc('LineFilterExport', cfg(n, [0, 1, 2, 3, 4, 5], 14, 6, invariants=INVARIANTS + ['Export'],
                                          max_ranges=0, random_lists=0),
                  workers=1, simulate='num=%d' % (1500 if quick else 40000), depth=16, seed=ctx.seed + 2,
                  name='simulate', count=True, timeout=3000)
    deep = {json.dumps(c['e']): c for c in sim.printed_json('CASE')}
    ditems = expr_items(list(deep.values()))
    check_items(ctx, ditems, n, 'deep expressions (TLC -simulate)')
    unbounded = []
    for inv, want, fut in apa:
        r = fut.result()
        r['expected'] = want
        r['discharged'] = r['outcome'] == want
        unbounded.append({k: v for k, v in r.items() if k != 'excerpt'})
        if r['outcome'] in ('NoError', 'Error') and r['outcome'] != want:
            raise core.MachineryFailure('Apalache: %s of IntervalLemmas.tla: %s, expected %s (model level)'
                                        % (inv, r['outcome'], want))
        if r['outcome'] == 'failed':
            raise core.MachineryFailure('Apalache failed on IntervalLemmas.tla (%s):\n%s' % (inv, r.get('excerpt')))
        if r['discharged'] and want == 'Error':
            ctx.cov['negative_controls_rejected'] += 1
    apa_pool.shutdown()
    ctx.cov['unbounded_obligations'] = unbounded
    # negative controls on the comparison
    rnd = random.Random(ctx.seed + 3)
    tried = rejected = 0
    for it in rnd.sample(items, min(30, len(items))):
        if not it['exp']['N']:
            continue
        tried += 1
        kept = ''.join('L%d\n' % x for x in it['exp']['N'][:-1])   # last accepted line dropped
        rejected += selected(kept, n) != it['exp']['N']
    if tried == 0 or tried != rejected:
        raise core.MachineryFailure('negative controls: %d of %d rejected' % (rejected, tried))
    ctx.cov['negative_controls_rejected'] += rejected
    for it in (items[len(items) // 3], ditems[0] if ditems else items[0], ritems[len(ritems) // 2]):
        ctx.sample(dict(filter=it['arg'], lines=n, kept=it['exp']))
    ctx.cov['exhaustive'] = True
    ctx.cov['rule'] = ('TLC: every expression of <= %d postfix tokens over line-num OP k (6 operators, k in %s), contents, '
                       'constants, !, &&, || at both levels; replayed: every expression of <= %d tokens over k in %s, '
                       'every list of 1 and a sample of lists of 2 ranges (all of them in the thorough tier) + random '
                       'lists of 3-4 ranges with bounds in -6..6, deep random expressions from TLC -simulate; each on '
                       'texts of 0, 1 and %d lines; non-trivial = distinct expression / list that keeps at least one line'
                       % (max_tokens, ks, et, eks, n))
    ctx.assumptions += ['the `contents` leaf accepts the odd lines (an interval-free matcher)',
                        'n-ary conjunctions are obtained by rendering left-nested equal operators without parentheses',
                        'D1 was found by TLC on the mechanism model and repaired in /repo (fix: d06196d); the model '
                        'keeps the old mechanism as the named deviation D1']


def replay(ctx, rec):
    r = rec['record']
    if r.get('kind') == 'shared':
        with ctx.pool(workers=1) as pool:
            o = pool.map('harness.props.c13:exec_shared', [dict(n=r['n'], items=[dict(arg=r['arg'], exp=r['expected'])])],
                         deadline=60)[0]
        print(json.dumps(dict(arg=r['arg'], expected=r['expected'], observed=o), indent=1))
        if not (o.get('exit') == 0 and o.get('ident') == 'PASS'):
            print('VIOLATION property=C13 replay=(given)')
            return 1
        return 0
    with ctx.pool(workers=1) as pool:
        o = pool.map('harness.props.c13:exec_batch',
                     [dict(n=r['n'], filters=[r['arg']], final_newline=r.get('final_newline', True),
                           source=r.get('source', 'file'))], deadline=60)[0]
    out = o['outs'][0] if o.get('outs') else None
    print(json.dumps(dict(arg=r['arg'], expected=r['expected'], observed=out, raw=o if out is None else None), indent=1))
    ok = out is not None and all(selected(out[k], l) == r['expected'][k] for k, l in (('0', 0), ('1', 1), ('N', r['n'])))
    if not ok:
        print('VIOLATION property=C13 replay=(given)')
        return 1
    return 0
