"""C20  Built-in help agrees with what the program accepts; the HTML manual has no dead links.

1. OBSERVE the universe through the program's own interfaces (real program, in process):
   * what it ACCEPTS: for every phase / suite section and every candidate name a minimal use (`[phase]` + the name on
     a line) is "unknown instruction" or not, told by comparison with the report for a decoy name; likewise
     `def TYPE`, `@[BUILTIN]@`, `suite --reporter NAME`, `actor = KEYWORD`, `[phase]` / `[section]` headers;
   * what the help LISTS: `help PHASE instructions`, `help instructions`, the list at the end of `help PHASE`,
     "Additional instructions" of `help suite SECTION`, `help ENTITY-TYPE`, the `(>help ...)` cross references of
     every page, and ids / hrefs / articles / link titles of `help htmldoc`.
2. The universe is written as a generated module HelpMC (scratch only) that binds the constants of spec/Help.tla.
   TLC (a) judges the static relations (DocumentedIffAccepted ... AnchorsUnique, EveryRefHasAnchor) and prints the
   discrepancy sets (HelpExport!ExportStatic), (b) model-checks the request machine of `help help` over every
   request of the domain and (c) exports every (request, acceptable result) pair (HelpExport!Export).
3. Every request is given to the real `exactly help ...` (a sample also as a subprocess); exit code, stdout
   emptiness, and the identity / listed contents of the page are compared with TLC's acceptable results; every
   `(>help ...)` hint must lead to the page its title states.
4. Negative controls: corrupted observations must be rejected by the comparison, a corrupted universe (name dropped
   from a list, phantom name, duplicated id, dead href, missing article, misnamed link, dead console hint) by TLC.
"""
import hashlib
import json
import os
import random
import re
import shutil
import subprocess

from harness import core

PHASES = ['conf', 'setup', 'act', 'before-assert', 'assert', 'cleanup']   # documented: `help case spec`
INSTR_PHASES = ['conf', 'setup', 'before-assert', 'assert', 'cleanup']    # `help concept instruction`: all but [act]
# documented: `help suite spec` - [cases], [suites], and one section per test-case phase
SECTIONS = ['cases', 'suites', 'conf', 'setup', 'act', 'before-assert', 'assert', 'cleanup']
SECTION_PHASE = {s: (s if s in PHASES else '-') for s in SECTIONS}
KEYWORDS = ['help', 'htmldoc', 'case', 'spec', 'instructions', 'suite', 'symbol']   # `help help`
DECOY = 'verif-no-such-name'
# entity types whose members the program accepts through an interface of its own (the others are documentation only)
ACCEPT_TYPES = ['type', 'builtin', 'reporter', 'directive', 'actor']

USAGE_ERROR = 64


# ====================================================================================================
# worker side: run the real program, project the output to an abstract page
# ====================================================================================================
def norm(s: str) -> str:
    return ' '.join(s.split())


def squash(s: str) -> str:
    return ''.join(s.split())


def blocks_of(text: str):
    """Blocks of consecutive non-blank lines."""
    out, cur = [], []
    for line in text.split('\n'):
        line = line.rstrip()
        if line.strip():
            cur.append(line)
        elif cur:
            out.append(cur)
            cur = []
    if cur:
        out.append(cur)
    return out


_ROW = re.compile(r'^( *)(\S+(?: \S+)*?)( {2,})(\S.*)$')


def grid_table(block):
    """A block is a table iff every line is a row `<indent>NAME<2+ blanks>DESCRIPTION` with one and the same name
    indent and description column, or a continuation line starting in the description column.
    -> [(name, description)] or None."""
    rows = []
    n0 = c0 = None
    for line in block:
        m = _ROW.match(line)
        ind = len(line) - len(line.lstrip(' '))
        if m and (n0 is None or (len(m.group(1)) == n0 and m.start(4) == c0)):
            if n0 is None:
                n0, c0 = len(m.group(1)), m.start(4)
            rows.append([m.group(2), m.group(4).strip()])
        elif n0 is not None and ind == c0:
            rows[-1][1] += ' ' + line.strip()
        else:
            return None
    return [(n, norm(d)) for n, d in rows] if rows else None


_REF = re.compile(r'\(>help ([^()]*)\)')
_BULLET = re.compile(r'^\s*\* ')


def console_refs(text: str):
    """`TITLE (>help ARG...)` hints: [(title or '', [args])]."""
    refs = []
    seen = set()
    # bullets: lines from one `* ` line up to the next bullet / blank line
    items, cur = [], None
    for line in text.split('\n'):
        if _BULLET.match(line):
            if cur:
                items.append(cur)
            cur = [line]
        elif cur is not None and line.strip():
            cur.append(line)
        else:
            if cur:
                items.append(cur)
            cur = None
    if cur:
        items.append(cur)
    for it in items:
        s = norm(' '.join(it))
        m = re.match(r'^\* (.*) \(>help ([^()]*)\)$', s)
        if m:
            key = (m.group(1), m.group(2))
            if key not in seen:
                seen.add(key)
                refs.append([m.group(1), m.group(2).split()])
    flat = norm(text)
    titled = set(r[1] for r in seen)
    for m in _REF.finditer(flat):
        if m.group(1) not in titled:
            titled.add(m.group(1))
            refs.append(['', m.group(1).split()])
    return refs


def project_page(stdout: str) -> dict:
    bl = blocks_of(stdout)
    tables = []
    bracket = ''
    parsed = [grid_table(b) for b in bl]
    # the trailing part of the page that consists of tables and one-line blocks (headers of the tables) only
    tail_from = len(bl)
    while tail_from > 0 and (parsed[tail_from - 1] is not None or len(bl[tail_from - 1]) == 1):
        tail_from -= 1
    for j, b in enumerate(bl):
        if len(b) == 1 and re.fullmatch(r'\[[^\]]+\]', b[0]):
            bracket = b[0][1:-1]
        t = parsed[j]
        if t is not None:
            prev = norm(' '.join(bl[j - 1])) if j else ''
            tables.append(dict(after=prev, rows=t, last=(j == len(bl) - 1), bracket=bracket, tail=(j >= tail_from)))
    heads = [norm(' '.join(b)) for b in bl[:3]]
    return dict(len=len(stdout), sha=hashlib.sha1(stdout.encode('utf-8', 'replace')).hexdigest()[:16],
                heads=heads, tables=tables,
                brackets=[m.group(1) for m in re.finditer(r'^\[([^\]\n]+)\]$', stdout, re.M)],
                refs=console_refs(stdout),
                html=stdout.lstrip()[:200].lower().startswith(('<!doctype html', '<html')))


def w_help(task, cd):
    """One help request given to the real program."""
    from harness import inproc
    r = inproc.run_main(['help'] + list(task['argv']), cd)
    obs = dict(exit=r['exit'], exception=r['exception'], err=r['stderr'][:300], page=project_page(r['stdout']),
               cwd_ok=r['cwd_after'] == r['cwd_before'], env_changed=r['env_changed'],
               left=sorted(os.listdir(cd.home)) + cd.sandboxes())
    if task.get('raw'):
        obs['stdout'] = r['stdout']
    return obs


def w_help_subprocess(task, cd):
    from harness import runner
    env = dict(os.environ, PYTHONPATH=os.path.join(runner.REPO, 'src'), TMPDIR=cd.tmp, PYTHONWARNINGS='ignore')
    env.pop('EXACTLY_VERIF_TRACE', None)
    p = subprocess.run(['/venv/bin/python', os.path.join(runner.REPO, 'src', 'default-main-program-runner.py'), 'help']
                       + list(task['argv']), cwd=cd.home, env=env, stdout=subprocess.PIPE, stderr=subprocess.PIPE,
                       text=True, timeout=120)
    return dict(exit=p.returncode, exception=None, err=p.stderr[:300], page=project_page(p.stdout), cwd_ok=True,
                env_changed=[], left=sorted(os.listdir(cd.home)) + cd.sandboxes())


def _report(r):
    """What the program reports: exit code, first line of stdout (the exit identifier), stderr."""
    return [r['exit'], (r['stdout'].splitlines() or [''])[0], r['stderr']]


def w_accept(task, cd):
    """Minimal use of a name through the interface of its kind; returns what is reported."""
    from harness import inproc
    k, name = task['kind'], task['name']
    if k == 'instr':
        cd.write({'c.case': '[%s]\n%s\n' % (task['where'], name)})
        argv = ['c.case']
    elif k == 'suite-instr':
        cd.write({'s.suite': '[%s]\n%s\n' % (task['where'], name)})
        argv = ['suite', 's.suite']
    elif k == 'phase':
        cd.write({'c.case': '[%s]\n' % name})
        argv = ['c.case']
    elif k == 'section':
        cd.write({'s.suite': '[%s]\n' % name})
        argv = ['suite', 's.suite']
    elif k == 'type':
        cd.write({'c.case': '[setup]\ndef %s\n' % name})
        argv = ['c.case']
    elif k == 'builtin':
        # passes iff the reference is replaced by a value (hard quotes: no substitution); an undefined symbol is a
        # VALIDATION_ERROR, a word that is no symbol name stays as it is and `test` fails
        cd.write({'c.case': "[setup]\n%% test @[%s]@ != '@[%s]@'\n" % (name, name)})
        argv = ['c.case']
    elif k == 'builtin-calibration':
        # vacuity control of the probe above: a symbol that IS defined must make it pass
        cd.write({'c.case': "[setup]\ndef string %s = value\n%% test @[%s]@ != '@[%s]@'\n" % (name, name, name)})
        argv = ['c.case']
    elif k == 'reporter':
        cd.write({'s.suite': ''})
        argv = ['suite', '--reporter', name, 's.suite']
    elif k == 'actor':
        cd.write({'c.case': '[conf]\nactor = %s\n' % name})
        argv = ['c.case']
    else:
        raise ValueError(k)
    r = inproc.run_main(argv, cd)
    if r['exception']:
        return dict(report=['exception', r['exception'], ''], exit=None)
    return dict(report=_report(r), exit=r['exit'])


def w_registry(task, cd):
    """Candidate names from the public tables of the program (candidates only: acceptance is always observed)."""
    import importlib
    out = dict(instr=[], builtin=[], consts=[])
    try:
        dis = importlib.import_module('exactly_lib.cli_default.program_modes.test_case.default_instructions_setup')
        for d in dis.INSTRUCTIONS_SETUP:
            out['instr'] += list(d)
    except Exception as ex:
        out['err_instr'] = repr(ex)
    try:
        ts = importlib.import_module('exactly_lib.cli_default.program_modes.test_suite')
        out['instr'] += list(ts.CONFIGURATION_SECTION_INSTRUCTIONS)
    except Exception as ex:
        out['err_suite'] = repr(ex)
    for modname in ('exactly_lib.definitions.test_case.instructions.instruction_names',
                    'exactly_lib.definitions.test_suite.instruction_names'):
        try:
            m = importlib.import_module(modname)
            out['consts'] += [v for k, v in vars(m).items() if isinstance(v, str) and not k.startswith('_')]
        except Exception as ex:
            out['err_' + modname.rsplit('.', 2)[-2]] = repr(ex)
    try:
        bs = importlib.import_module('exactly_lib.cli_default.program_modes.test_case.builtin_symbols')
        out['builtin'] = [b.name for b in bs.ALL]
    except Exception as ex:
        out['err_builtin'] = repr(ex)
    return out


# ---------------------------------------------------------------------------------------------------- HTML
class _Node:
    __slots__ = ('tag', 'attrs', 'children', 'parent')

    def __init__(self, tag, attrs, parent):
        self.tag, self.attrs, self.children, self.parent = tag, attrs, [], parent

    def text(self):
        return ''.join(c if isinstance(c, str) else c.text() for c in self.children)

    def iter(self):
        yield self
        for c in self.children:
            if not isinstance(c, str):
                yield from c.iter()

    def child(self, *tags):
        for c in self.children:
            if not isinstance(c, str) and c.tag in tags:
                return c
        return None


def parse_html(html: str) -> _Node:
    from html.parser import HTMLParser
    void = {'br', 'hr', 'meta', 'link', 'img', 'input', 'col', 'area', 'base', 'wbr'}
    root = _Node('#root', {}, None)

    class P(HTMLParser):
        def __init__(self):
            super().__init__(convert_charrefs=True)
            self.cur = root
            self.unbalanced = 0

        def handle_starttag(self, tag, attrs):
            n = _Node(tag, dict(attrs), self.cur)
            self.cur.children.append(n)
            if tag not in void:
                self.cur = n

        def handle_startendtag(self, tag, attrs):
            self.cur.children.append(_Node(tag, dict(attrs), self.cur))

        def handle_endtag(self, tag):
            if tag in void:
                return
            n = self.cur
            while n is not None and n.tag != tag:
                n = n.parent
            if n is None or n.parent is None:
                self.unbalanced += 1
                return
            if n is not self.cur:
                self.unbalanced += 1
            self.cur = n.parent

        def handle_data(self, data):
            self.cur.children.append(data)

    p = P()
    p.feed(html)
    p.close()
    root.attrs['unbalanced'] = p.unbalanced
    return root


_HN = ('h1', 'h2', 'h3', 'h4', 'h5', 'h6')


def _title(n: _Node):
    h = n.child('header')
    if h is None:
        return None, None
    t = h.child(*_HN)
    d = h.child('p')
    return (norm(t.text()) if t is not None else None), (norm(d.text()) if d is not None else None)


def project_html(html: str) -> dict:
    root = parse_html(html)
    ids, refs, links, anchors, external = [], [], [], [], []
    for n in root.iter():
        if 'id' in n.attrs:
            ids.append(n.attrs['id'])
            title, descr = _title(n)
            cls = sorted((n.attrs.get('class') or '').split())
            # nearest enclosing section / article whose title is `[name]`
            encl = ''
            a = n.parent
            while a is not None:
                if a.tag in ('section', 'article'):
                    t, _ = _title(a)
                    if t and re.fullmatch(r'\[[^\]]+\]', t):
                        encl = t[1:-1]
                        break
                a = a.parent
            anchors.append(dict(id=n.attrs['id'], tag=n.tag, cls=cls, title=title, descr=descr, encl=encl))
        if 'name' in n.attrs and n.tag == 'a':
            ids.append(n.attrs['name'])
            anchors.append(dict(id=n.attrs['name'], tag='a', cls=[], title=None, descr=None, encl=''))
        if n.tag == 'a' and 'href' in n.attrs:
            h = n.attrs['href']
            if h.startswith('#'):
                refs.append(h[1:])
                links.append([h[1:], norm(n.text())])
            else:
                external.append(h)
    return dict(ids=ids, refs=refs, links=links, anchors=anchors, external=external,
                unbalanced=root.attrs['unbalanced'], len=len(html))


def w_html(task, cd):
    from harness import inproc
    r = inproc.run_main(['help', 'htmldoc'], cd)
    obs = dict(exit=r['exit'], exception=r['exception'], err=r['stderr'][:300])
    if r['exit'] == 0 and not r['exception']:
        obs.update(project_html(r['stdout']))
    return obs


# ====================================================================================================
# supervisor side: the observed universe
# ====================================================================================================
def _ok(o):
    return o is not None and o.get('exit') == 0 and not o.get('exception') and 'page' in o


def _names(tables):
    return sorted({r[0] for t in tables for r in t['rows']})


def tail_tables(page):
    return [t for t in page['tables'] if t.get('tail')]


class Universe:
    """Everything observed; `data` is what is written into HelpMC (JSON-able, deterministic)."""

    def __init__(self):
        self.data = {}
        self.desc = {}       # ('instr', phase, name) / ('suite-instr', section, name) / ('entity', type, 'na me') -> text
        self.notes = []
        self.pages = {}      # canonical request (tuple) -> observation


def observe(pool, tier: str, seed: int) -> Universe:
    U = Universe()
    H = 'harness.props.c20:w_help'

    def ask(reqs, **kw):
        obs = pool.map(H, [dict(argv=list(r), **kw) for r in reqs], deadline=120, chunk=4)
        for r, o in zip(reqs, obs):
            U.pages[tuple(r)] = o
        return obs

    reg = pool.map('harness.props.c20:w_registry', [{}], deadline=120)[0]
    U.registry = reg
    # ---- round 1: the pages that list things
    (hh,) = ask([['help']])
    ent_types = []
    if _ok(hh) and hh['page']['tables'] and hh['page']['tables'][-1]['last']:
        ent_types = [r[0] for r in hh['page']['tables'][-1]['rows']]
    reqs = [['instructions']] + [[p] for p in PHASES] + [[p, 'instructions'] for p in INSTR_PHASES] \
        + [['suite', s] for s in SECTIONS] + [[t] for t in ent_types]
    ask(reqs)
    listed, listed_all, phase_page, suite_listed, ent_listed = {}, {}, {}, {}, {}
    o = U.pages[('instructions',)]
    for p in INSTR_PHASES:
        listed_all[p] = sorted({r[0] for t in o['page']['tables'] if t['bracket'] == p for r in t['rows']}) \
            if _ok(o) else []
        lo = U.pages[(p, 'instructions')]
        listed[p] = _names(lo['page']['tables']) if _ok(lo) else []
        if _ok(lo):
            for t in lo['page']['tables']:
                for n, d in t['rows']:
                    U.desc[('instr', p, n)] = d
    for p in PHASES:
        po = U.pages[(p,)]
        phase_page[p] = _names(tail_tables(po['page'])) if _ok(po) else []
    for s in SECTIONS:
        so = U.pages[('suite', s)]
        suite_listed[s] = _names(tail_tables(so['page'])) if _ok(so) else []
        if _ok(so):
            for t in tail_tables(so['page']):
                for n, d in t['rows']:
                    U.desc[('suite-instr', s, n)] = d
    for t in ent_types:
        eo = U.pages[(t,)]
        ent_listed[t] = _names(eo['page']['tables']) if _ok(eo) else []
        if _ok(eo):
            for tb in eo['page']['tables']:
                for n, d in tb['rows']:
                    U.desc[('entity', t, n)] = d
    # ---- acceptance
    directive_names = [n for n in ent_listed.get('directive', []) if ' ' not in n]
    instr_cands = sorted(set(reg['instr']) | set(reg['consts']) | {n for v in listed.values() for n in v}
                         | {n for v in listed_all.values() for n in v} | {n for v in phase_page.values() for n in v}
                         | {n for v in suite_listed.values() for n in v} | set(directive_names)
                         | {'instructions', 'spec', 'help'})
    instr_cands = [c for c in instr_cands if c and c == c.strip() and '\n' not in c]
    words = set(instr_cands) | set(KEYWORDS) | set(PHASES) | set(SECTIONS) | set(ent_types) | set(reg['builtin'])
    for t, ns in ent_listed.items():
        for n in ns:
            words.add(n)
            words.update(n.split())
    words = sorted(w for w in words if ' ' not in w)
    actor_kw, actor_doc_ok = actor_keywords(pool, U, ent_listed.get('actor', []))
    suite_sections = [s for s in SECTIONS if SECTION_PHASE[s] in INSTR_PHASES]
    tasks = [dict(kind='instr', where=p, name=n) for p in INSTR_PHASES for n in instr_cands + [DECOY]]
    tasks += [dict(kind='suite-instr', where=s, name=n) for s in suite_sections for n in instr_cands + [DECOY]]
    header_probes = sorted(set(PHASES) | set(SECTIONS) | set(KEYWORDS) | set(ent_types) | {'Setup', 'CONF', 'case'})
    tasks += [dict(kind='phase', name=n) for n in header_probes + [DECOY]]
    tasks += [dict(kind='section', name=n) for n in header_probes + [DECOY]]
    tasks += [dict(kind='type', name=n) for n in words + [DECOY]]
    tasks += [dict(kind='builtin', name=n) for n in words + [DECOY, 'VERIF_NO_SUCH']]
    tasks += [dict(kind='builtin-calibration', name='VERIF_DEFINED')]
    tasks += [dict(kind='reporter', name=n) for n in words + [DECOY] if not n.startswith('-')]
    actor_cands = sorted(set(actor_kw) | {n.split()[0] for n in ent_listed.get('actor', [])} | {n for n in
                         ent_listed.get('actor', []) if ' ' not in n})
    tasks += [dict(kind='actor', name=n) for n in actor_cands + [DECOY]]
    res = pool.map('harness.props.c20:w_accept', tasks, deadline=120, chunk=8)
    decoy = {}
    for t, r in zip(tasks, res):
        if t['name'] == DECOY:
            decoy[(t['kind'], t.get('where'))] = r
    for k, r in decoy.items():
        if not r or r.get('exit') in (0, None):
            raise core.MachineryFailure('acceptance probe: the decoy name is not refused: %s %s' % (k, r))

    def accepted(t, r):
        """The report is not the report for the decoy with the decoy's name replaced by this name (i.e. it is not the
        same kind of refusal)."""
        if r is None or 'report' not in r:
            raise core.MachineryFailure('acceptance probe failed: %s %s' % (t, r))
        if t['kind'] in ('builtin', 'reporter'):
            return r['exit'] == 0          # the symbol resolves / the suite is run and reported
        d = decoy[(t['kind'], t.get('where'))]['report']
        return r['report'] != [d[0], d[1], d[2].replace(DECOY, t['name'])]

    acc = {}
    for t, r in zip(tasks, res):
        if t['kind'] == 'builtin-calibration':
            if not r or r.get('exit') != 0:
                raise core.MachineryFailure('acceptance probe: a reference to a defined symbol is not seen as '
                                            'accepted (is `test` on the PATH?): %s' % r)
            continue
        if t['name'] in (DECOY, 'VERIF_NO_SUCH'):
            if t['name'] == 'VERIF_NO_SUCH' and accepted(t, r):
                raise core.MachineryFailure('acceptance probe: an undefined symbol is accepted')
            continue
        if accepted(t, r):
            acc.setdefault((t['kind'], t.get('where')), []).append(t['name'])
    U.accept_tasks = len(tasks)
    ent_accepted = {
        'type': [[n] for n in acc.get(('type', None), [])],
        'builtin': [[n] for n in acc.get(('builtin', None), [])],
        'reporter': [[n] for n in acc.get(('reporter', None), [])],
    }
    accept_types = [t for t in ('type', 'builtin', 'reporter') if t in ent_types]
    if actor_doc_ok and 'actor' in ent_types:
        ent_accepted['actor'] = sorted(actor_kw.get(k, k).split() for k in acc.get(('actor', None), []))
        accept_types.append('actor')
    else:
        U.notes.append('actor keywords could not be related to actor names through `help conf actor`: '
                       'acceptance of actors is not compared')
    # ---- canonical pages (their `(>help ...)` hints), the manual
    canon = [[], ['htmldoc'], ['case'], ['case', 'spec'], ['suite'], ['suite', 'spec'], ['symbol']]
    canon += [[p, n] for p in INSTR_PHASES for n in sorted(set(listed[p]) | set(acc.get(('instr', p), [])))]
    canon += [['suite', s, n] for s in SECTIONS for n in suite_listed[s]]
    canon += [[t] + n.split() for t in ent_types for n in ent_listed[t]]
    canon += [[n] for n in sorted({n for p in INSTR_PHASES for n in listed[p]})]
    ask([c for c in canon if tuple(c) not in U.pages])
    refs = {}
    for r, o in U.pages.items():
        if _ok(o):
            for title, argv in o['page']['refs']:
                refs.setdefault(tuple(argv), set()).add(title)
    U.ref_titles = {k: sorted(v) for k, v in refs.items()}
    html = pool.map('harness.props.c20:w_html', [{}], deadline=300)[0]
    U.html = html
    if html.get('exit') != 0 or html.get('exception') or 'ids' not in html:
        html = dict(html, ids=[], refs=[], links=[], anchors=[], external=[], unbalanced=0)
        U.notes.append('help htmldoc failed')
    manual_instr, manual_ent, anchor_titles = [], [], []
    for a in html['anchors']:
        if a['title'] is not None:
            anchor_titles.append([a['id'], a['title']])
        if a['tag'] == 'article' and 'instruction' in a['cls'] and a['title'] is not None:
            manual_instr.append([a['encl'], a['title']])
        if a['tag'] == 'article' and 'entity' in a['cls'] and a['title'] is not None:
            ts = [c for c in a['cls'] if c not in ('entity', 'toc')]
            manual_ent.append([ts[0] if len(ts) == 1 else '?', a['title'].split()])
    link_names = []
    for href, text in html['links']:
        nm = link_target_name(text)
        if nm is not None:
            link_names.append([href, nm])
    # ---- request domain
    items = {(w,) for w in KEYWORDS + PHASES + SECTIONS + ent_types}
    items |= {(n,) for n in instr_cands}
    items |= {tuple(n.split()) for ns in ent_listed.values() for n in ns}
    items |= {tuple(n) for ns in ent_accepted.values() for n in ns}
    items |= {(n,) for n in reg['builtin']}
    names_instr = sorted({n for v in listed.values() for n in v} | {n for (k, w), v in acc.items() if k == 'instr'
                                                                    for n in v})
    decoys = [(DECOY,), ('fil',), ('e',), ('HELP',), ('Setup',), ('TYPE',), ('CONF',), ('preproc',), ('STRING',),
              ('directory',), ('sandbox',), ('command',)]
    items |= set(decoys)
    rnd = random.Random(seed)
    fixed = sorted(set(KEYWORDS) | set(ent_types) | set(PHASES) | set(SECTIONS))
    variants, heads = set(), set()
    if tier != 'quick':
        for it in sorted(items):
            s = ' '.join(it)
            for v in (s.upper(), s.capitalize()):
                if v != s:
                    variants.add(tuple(v.split()))
            if len(s) >= 3:
                for _ in range(3):
                    a = rnd.randrange(0, len(s) - 1)
                    b = rnd.randrange(a + 2, len(s) + 1)
                    sub = s[a:b].strip()
                    if sub and sub == ' '.join(sub.split()) and not sub.startswith('-'):
                        variants.add(tuple(sub.split()))
        variants -= items
        for w in fixed:
            heads |= {w, w.upper(), w.capitalize()}
    variants = sorted(v for v in variants if v and all(tla_ok(w) for w in v))
    heads = sorted(heads)
    items = sorted(i for i in items if i and all(tla_ok(w) for w in i))
    probes = sorted({('instructions',), ('spec',), (DECOY,), ('file',), ('type',)} & set(items) | {(DECOY,)})
    extra = set(refs)
    if tier != 'quick':
        pool_words = [w for it in items for w in it]
        for _ in range(3000):
            n = rnd.choice((3, 3, 4, 5))
            extra.add(tuple(rnd.choice(pool_words) for _ in range(n)))
    extra = sorted(e for e in extra if all(tla_ok(w) for w in e))
    # ---- loose relations
    name_seqs = {(n,) for n in names_instr} | {tuple(n.split()) for ns in ent_listed.values() for n in ns} \
        | {tuple(n) for ns in ent_accepted.values() for n in ns} | {(n,) for v in suite_listed.values() for n in v} \
        | {(n,) for (k, w), v in acc.items() if k == 'suite-instr' for n in v}
    cand_seqs = set(items) | set(variants) | {e[1:] for e in extra if len(e) > 1} | {e[2:] for e in extra if len(e) > 2} \
        | {(w,) for e in extra for w in e}
    low_names = [(n, ' '.join(n).lower()) for n in sorted(name_seqs)]
    loose = []
    for w in sorted(cand_seqs):
        lw = ' '.join(w).lower()
        if not lw:
            continue
        for n, ln in low_names:
            if w != n and lw in ln:
                loose.append([list(w), list(n)])
    first_words = {it[0] for it in items} | {e[0] for e in extra if e} | {e[1] for e in extra if len(e) > 1} \
        | set(heads) | {v[0] for v in variants}
    case_eq = sorted([w, k] for w in first_words for k in fixed if w != k and w.lower() == k.lower())
    U.data = dict(
        Phases=PHASES, InstrPhases=INSTR_PHASES, Sections=SECTIONS, SectionPhase=SECTION_PHASE,
        EntityTypes=ent_types, AcceptTypes=accept_types,
        Accepted={p: sorted(acc.get(('instr', p), [])) for p in INSTR_PHASES},
        SuiteAccepted={s: sorted(acc.get(('suite-instr', s), [])) for s in suite_sections},
        EntAccepted={t: sorted(ent_accepted[t]) for t in accept_types},
        HeaderProbes=header_probes,
        AcceptedPhaseHeaders=sorted(acc.get(('phase', None), [])),
        AcceptedSectionHeaders=sorted(acc.get(('section', None), [])),
        Listed=listed, ListedAll=listed_all, PhasePageListed=phase_page, SuiteListed=suite_listed,
        EntListed={t: sorted(n.split() for n in ent_listed[t]) for t in ent_types},
        ManualInstr=manual_instr, ManualEnt=manual_ent, Ids=html['ids'], Refs=html['refs'],
        LinkNames=link_names, AnchorTitles=anchor_titles,
        ConsoleRefs=sorted(list(r) for r in refs if all(tla_ok(w) for w in r)),
        Items=[list(i) for i in items], Probes=[list(p) for p in probes], ExtraRequests=[list(e) for e in extra],
        Heads=heads, Variants=[list(v) for v in variants],
        Loose=loose, CaseEq=case_eq)
    return U


def actor_keywords(pool, U, actor_names):
    """`help conf actor`: `actor = KEYWORD ...` followed by a paragraph that quotes the name of the actor."""
    o = pool.map('harness.props.c20:w_help', [dict(argv=['conf', 'actor'], raw=True)], deadline=120)[0]
    if not _ok(o):
        return {}, False
    bl = blocks_of(o['stdout'])
    kw = {}
    for j, b in enumerate(bl[:-1]):
        m = re.match(r'^\s+actor = (\S+)(?: .*)?$', b[0])
        if m and len(b) == 1:
            quoted = re.findall(r'"([^"]+)"', norm(' '.join(bl[j + 1])))
            named = [q for q in quoted if q in actor_names]
            if len(named) == 1:
                kw[m.group(1)] = named[0]
    return kw, bool(actor_names) and set(kw.values()) == set(actor_names)


_LINK_FORMS = [
    re.compile(r'^[A-Z][A-Za-z ]* "([^"]+)"$'),                          # Concept "actor", Syntax element "PATH"
    re.compile(r'^Instruction "([^"]+)" \(in phase \[[^\]]+\]\)$'),
    re.compile(r'^Suite instruction "([^"]+)" \(in section \[[^\]]+\]\)$'),
    re.compile(r'^Phase (\[[^\]]+\])$'),
    re.compile(r'^Suite section (\[[^\]]+\])$'),
]


def link_target_name(text: str):
    """The title of the target that the text of a cross reference states (forms of a "See also" item)."""
    for rx in _LINK_FORMS:
        m = rx.match(text)
        if m:
            return m.group(1)
    return None


# ====================================================================================================
# the generated module
# ====================================================================================================
def tla_ok(s: str) -> bool:
    return isinstance(s, str) and s != '' and all(32 <= ord(c) < 127 for c in s)


def tla_str(s: str) -> str:
    if not all(32 <= ord(c) < 127 for c in s):
        s = ''.join(c if 32 <= ord(c) < 127 else '?' for c in s)
    return '"' + s.replace('\\', '\\\\').replace('"', '\\"') + '"'


def tla(v) -> str:
    if isinstance(v, bool):
        return 'TRUE' if v else 'FALSE'
    if isinstance(v, str):
        return tla_str(v)
    if isinstance(v, (list, tuple)):
        return '<<' + ', '.join(tla(x) for x in v) + '>>'
    raise TypeError(v)


def tla_set(vs) -> str:
    return '{' + ', '.join(sorted({tla(x) for x in vs})) + '}'


def tla_map(d, val=tla_set, key=tla_str) -> str:
    """A function as a balanced tree of @@ (a long chain is slow to parse and to evaluate)."""
    if not d:
        return '[x \\in {} |-> {}]'
    leaves = ['%s :> %s' % (key(k), val(v)) for k, v in sorted(d.items())]

    def tree(lo, hi):
        if hi - lo == 1:
            return leaves[lo]
        mid = (lo + hi) // 2
        return '(%s @@ %s)' % (tree(lo, mid), tree(mid, hi))

    return '(' + tree(0, len(leaves)) + ')'


SET_CONSTS = ['Phases', 'InstrPhases', 'Sections', 'EntityTypes', 'AcceptTypes', 'HeaderProbes',
              'AcceptedPhaseHeaders', 'AcceptedSectionHeaders', 'ConsoleRefs', 'Items', 'Probes', 'ExtraRequests',
              'Heads', 'Variants', 'CaseEq']
MAP_CONSTS = ['Accepted', 'SuiteAccepted', 'EntAccepted', 'Listed', 'ListedAll', 'PhasePageListed', 'SuiteListed',
              'EntListed']
SEQ_CONSTS = ['ManualInstr', 'ManualEnt', 'Ids', 'Refs', 'LinkNames', 'AnchorTitles']


def write_mc(data: dict, spec_dir: str):
    """spec_dir: scratch copy of Help.tla / HelpExport.tla plus the generated HelpMC.tla."""
    os.makedirs(spec_dir, exist_ok=True)
    for f in ('Help.tla', 'HelpExport.tla'):
        shutil.copy(os.path.join(core.VERIF, 'spec', f), spec_dir)
    lines = ['------------------------------- MODULE HelpMC -------------------------------',
             '(* GENERATED by harness/props/c20.py: the universe observed from the program under test. *)',
             'EXTENDS HelpExport']
    for c in SET_CONSTS:
        lines.append('mc_%s == %s' % (c, tla_set(data[c])))
    for c in MAP_CONSTS:
        lines.append('mc_%s == %s' % (c, tla_map(data[c])))
    lines.append('mc_SectionPhase == %s' % tla_map(data['SectionPhase'], val=tla_str))
    loose_to = {}
    for w, n in data['Loose']:
        loose_to.setdefault(tuple(w), []).append(n)
    lines.append('mc_LooseTo == %s' % tla_map(loose_to, key=tla))
    for c in SEQ_CONSTS:
        lines.append('mc_%s == %s' % (c, tla(data[c])))
    lines += ['mc_TRUE == TRUE', 'mc_FALSE == FALSE', 'mc_OnlyEmptyRequest == {<<>>}',
              '=============================================================================']
    with open(os.path.join(spec_dir, 'HelpMC.tla'), 'w') as fh:
        fh.write('\n'.join(lines) + '\n')


ALL_CONSTS = SET_CONSTS + MAP_CONSTS + ['SectionPhase', 'LooseTo'] + SEQ_CONSTS + ['AllRequests']
STATIC_INVARIANTS = ['DocumentedIffAccepted', 'ListsAgree', 'SuiteDocumentedIffAccepted', 'EntitiesDocumentedIffAccepted',
                     'DirectivesAccepted', 'ConfParamsAreConfInstructions', 'EntityTypesDocumented',
                     'HeadersDocumentedIffAccepted', 'ManualCoversInstructions', 'ManualCoversEntities',
                     'AnchorsUnique', 'EveryRefHasAnchor', 'RefTargetExactlyOnce', 'LinkNamesItsTarget']
MACHINE_INVARIANTS = ['TypeOK', 'ResolveTotal', 'PagesOnlyForWhatExists', 'EveryInstructionResolves',
                      'EverySuiteInstructionResolves', 'EveryEntityResolves', 'EveryListResolves',
                      'AmbiguousFirstWord', 'EveryConsoleRefResolves']
ACTIONS = ['Empty', 'Classify', 'FoldCase', 'HelpPage', 'HtmlDoc', 'CaseCli', 'CaseSpec', 'SymbolCli',
           'AllInstructions', 'SuiteCli', 'SuiteSpec', 'SuiteSection', 'SuiteNoSuchSection', 'SuiteInstruction',
           'SuiteInstrLoose', 'SuiteInstrNone', 'EntityList', 'EntityExact', 'EntityLoose', 'EntityNone',
           'PhasePage', 'PhaseInstructionList', 'PhaseInstrExact', 'PhaseInstrLoose', 'PhaseInstrNone',
           'SearchFound', 'SearchLoose', 'SearchNone', 'NoSuchPhase', 'LooseReject', 'OutsideSynopsis']


def cfg(invariants, domain='all'):
    """domain: 'all' = the whole request domain, 'extra' = ExtraRequests only, 'static' = the empty request only."""
    subst = {c: 'mc_' + c for c in ALL_CONSTS}
    subst['AllRequests'] = 'mc_TRUE' if domain == 'all' else 'mc_FALSE'
    if domain == 'static':
        subst['ExtraRequests'] = 'mc_OnlyEmptyRequest'
    return ('SPECIFICATION Spec\n' + ''.join('CONSTANT %s <- %s\n' % (c, subst[c]) for c in ALL_CONSTS)
            + ''.join('INVARIANT %s\n' % i for i in invariants) + 'CHECK_DEADLOCK FALSE\n')


# ====================================================================================================
# spec -> code: every request of TLC's domain is given to the real program
# ====================================================================================================
def concretize(req, ent_types):
    """request (sequence of words) -> argv variants.  An entity name of several words may be given as several
    arguments or as one (the documentation writes `help ENTITY-TYPE [ENTITY-NAME]`)."""
    vs = [list(req)]
    if len(req) >= 3 and req[0].lower() in ent_types:
        vs.append([req[0], ' '.join(req[1:])])
    return vs


def enrich(res, U: 'Universe'):
    """The expected result plus the text that identifies its page (description shown by the list pages)."""
    e = dict(res)
    k = res['kind']
    if k == 'instr':
        e['desc'] = U.desc.get(('instr', res['a'][0], res['b'][0]))
    elif k == 'suite-instr':
        e['desc'] = U.desc.get(('suite-instr', res['a'][0], res['b'][0]))
    elif k == 'entity':
        e['desc'] = U.desc.get(('entity', res['a'][0], ' '.join(res['b'])))
    return e


def _pairs(tables):
    return sorted({(t['bracket'], r[0]) for t in tables for r in t['rows']})


def match_one(e, o):
    """None if the observation is what the expected result describes, else the name of the failing clause."""
    page = o['page']
    success = o['exit'] == 0 and page['len'] > 0
    refusal = o['exit'] not in (0, None) and page['len'] == 0
    k = e['kind']
    if k == 'invalid':
        return None if refusal else 'InvalidRequestRefused: exit %s, %d characters on stdout' % (o['exit'], page['len'])
    if k == 'unspecified':
        return None if (success or refusal) else 'PageOrRefusal: exit %s, %d characters on stdout' % (o['exit'],
                                                                                                     page['len'])
    if not success:
        return 'PageDisplayed: exit %s, %d characters on stdout, stderr %r' % (o['exit'], page['len'], o.get('err'))
    items = sorted(tuple(i) for i in e['items'])
    if k == 'htmldoc':
        return None if page['html'] else 'HtmlDocument'
    if page['html']:
        return 'ConsolePage: an HTML document is printed'
    if k == 'help':
        got = sorted((r[0],) for t in page['tables'][-1:] for r in t['rows'])
        return None if got == items else 'HelpListsEntityTypes: %s' % got
    if k == 'instr-all':
        got = _pairs(page['tables'])
        return None if got == items else 'AllInstructionsListed: %s, specification %s' % (got, items)
    if k == 'instr-list':
        got = sorted((n,) for n in _names(page['tables']))
        return None if got == items and not page['brackets'] else 'InstructionsOfPhaseListed: %s, specification %s' % (
            got, items)
    if k in ('phase', 'section'):
        got = sorted((n,) for n in _names(tail_tables(page)))
        return None if got == items else 'PageListsInstructions: %s, specification %s' % (got, items)
    if k == 'entity-list':
        got = sorted(tuple(n.split()) for n in _names(page['tables']))
        return None if got == items else 'EntitiesListed: %s, specification %s' % (got, items)
    if k == 'search':
        got = sorted((b,) for b in set(page['brackets']))
        return None if got == items else 'InstructionInPhases: %s, specification %s' % (got, items)
    if k in ('instr', 'suite-instr', 'entity'):
        d = e.get('desc')
        if d is None:
            return None          # not listed anywhere: reported by the static relations
        name = ' '.join(e['b'])
        h = page['heads']
        # (the console renderer may break a line after a hyphen: compare without white space)
        if squash(h[0] if h else '') == squash(d) or (h[:1] == [name] and squash(h[1] if len(h) > 1 else '') == squash(d)):
            return None
        return 'PageIsTheEntryOf(%s %s): starts with %r, listed as %r' % (k, name, h[:2], d)
    return None          # program, case-cli, case-spec, suite-cli, suite-spec, symbol-cli: identity via PageIdentity


def judge_request(exps, o):
    if o is None or o.get('no_termination') or o.get('worker_died') or o.get('harness_exception') \
            or o.get('exception'):
        return 'Terminates/NoEscapingException'
    if not o['cwd_ok'] or o['env_changed'] or o['left']:
        return 'NoSideEffects: %s %s' % (o['env_changed'], o['left'])
    clauses = [match_one(e, o) for e in exps]
    if any(c is None for c in clauses):
        return None
    return clauses[0]


def identity(res):
    return json.dumps([res['kind'], res['a'], res['b']])


def content_key(ident_exp):
    """What a page is about, apart from where it is asked for: one and the same page may be the entry of an
    instruction in several phases, and two phases may have the same list of instructions."""
    e = ident_exp
    return json.dumps([e['kind'], e['b'], sorted(map(tuple, e['items'])), squash(e.get('desc') or '')])


def sig_of(req):
    return ' '.join(req) if req else '(no argument)'


def replay_requests(ctx, pool, U, cases, label, subprocess_sample=0):
    groups = {}
    for c in cases:
        groups.setdefault(tuple(c['req']), []).append(enrich(c['res'], U))
    ent_types = set(U.data['EntityTypes'])
    tasks, owner = [], []
    for req in sorted(groups):
        for argv in concretize(req, ent_types):
            tasks.append(dict(argv=argv))
            owner.append(req)
    obs = pool.map('harness.props.c20:w_help', tasks, deadline=120, chunk=16)
    sub = []
    if subprocess_sample:
        rnd = random.Random(ctx.seed + 7)
        idx = rnd.sample(range(len(tasks)), min(subprocess_sample, len(tasks)))
        sobs = pool.map('harness.props.c20:w_help_subprocess', [tasks[j] for j in idx], deadline=180, chunk=1)
        sub = list(zip(idx, sobs))
    bad = 0
    by_identity = {}
    contents = {}
    for how, j, o in [('in-process', j, o) for j, o in enumerate(obs)] + [('subprocess', j, o) for j, o in sub]:
        req = owner[j]
        exps = groups[req]
        ctx.count()
        kinds = sorted({e['kind'] for e in exps})
        if kinds != ['invalid'] and kinds != ['unspecified']:
            ctx.nontrivial(json.dumps([list(req), tasks[j]['argv']]))
        clause = judge_request(exps, o)
        if clause:
            bad += 1
            ctx.fail('%s: help %s' % (clause.split(':')[0], sig_of(req)),
                     dict(kind='request', how=how, req=list(req), argv=tasks[j]['argv'], expected=exps, observed=o,
                          clause=clause))
        elif len(exps) == 1 and exps[0]['kind'] in PAGE_KINDS and exps[0]['exact'] and how == 'in-process':
            by_identity.setdefault(identity(exps[0]), {}).setdefault(o['page']['sha'], []).append(tasks[j]['argv'])
            contents[identity(exps[0])] = content_key(exps[0])
    # one page per identity, different identities - different pages
    sha_owner = {}
    for ident, shas in sorted(by_identity.items()):
        if len(shas) > 1:
            bad += 1
            ctx.fail('PageIdentity: different pages for %s' % ident,
                     dict(kind='identity', identity=ident, pages={s: a[:3] for s, a in shas.items()}))
        for s in shas:
            sha_owner.setdefault(s, set()).add(ident)
    for s, idents in sorted(sha_owner.items()):
        if len({contents[i] for i in idents}) > 1:
            bad += 1
            ctx.fail('PageIdentity: one page for %s' % sorted(idents),
                     dict(kind='identity', identities=sorted(idents), argv=[by_identity[i][s][0] for i in sorted(idents)]))
    ctx.cov['traces_validated_against_impl'] += len(tasks) + len(sub)
    ctx.cov.setdefault('replay', {})[label] = dict(requests=len(groups), concrete_argv=len(tasks),
                                                   subprocess=len(sub), disagreements=bad,
                                                   distinct_pages=len(sha_owner))
    return groups, tasks, owner, obs


PAGE_KINDS = {'program', 'help', 'htmldoc', 'case-cli', 'case-spec', 'suite-cli', 'suite-spec', 'symbol-cli',
              'instr-all', 'phase', 'instr-list', 'instr', 'search', 'section', 'suite-instr', 'entity-list', 'entity'}


# ====================================================================================================
# TLC's judgement of the static relations
# ====================================================================================================
DIFFS_OF = {
    'DocumentedIffAccepted': ['MissingHelp', 'PhantomHelp'],
    'ListsAgree': ['ListedAllDiffers', 'PhasePageDiffers'],
    'SuiteDocumentedIffAccepted': ['SuiteNotAsPhase', 'SuiteExtraDiffers'],
    'EntitiesDocumentedIffAccepted': ['EntityMissingHelp', 'EntityPhantomHelp'],
    'DirectivesAccepted': ['DirectiveRefused'],
    'ConfParamsAreConfInstructions': ['ConfParamDiffers'],
    'EntityTypesDocumented': ['EntityTypesMissing'],
    'HeadersDocumentedIffAccepted': ['PhaseHeaders', 'SectionHeaders'],
    'ManualCoversInstructions': ['ManualInstrBad'],
    'ManualCoversEntities': ['ManualEntBad'],
    'AnchorsUnique': ['DuplicateIds'],
    'EveryRefHasAnchor': ['DeadRefs'],
    'RefTargetExactlyOnce': ['DuplicateIds', 'DeadRefs'],
    'LinkNamesItsTarget': ['MisnamedLinks'],
}


def violated_invariants(res):
    return sorted(set(re.findall(r'Invariant (\w+) is violated', res.out)))


def static_judgement(ctx, data, name, count=True):
    """-> (violated invariants, {relation: discrepancy set}) as TLC sees the universe `data`."""
    spec_dir = os.path.join(ctx.scratch, 'spec-' + name)
    write_mc(data, spec_dir)
    res = ctx.tlc('HelpMC', cfg(STATIC_INVARIANTS + ['ExportStatic'], 'static'), workers=1, name=name, spec_dir=spec_dir,
                  extra=['-continue'], must_hold=False, count=count)
    rep = res.printed_json('STATIC')
    if not rep:
        raise core.MachineryFailure('TLC did not print its judgement of the static relations:\n' + res.error_excerpt(40))
    viol = [v for v in violated_invariants(res) if v in DIFFS_OF]
    diffs = {k: v for k, v in rep[0].items() if v}
    # the two formulations (invariant, discrepancy set) must agree
    for inv, keys in DIFFS_OF.items():
        nonempty = any(k in diffs for k in keys)
        if inv == 'RefTargetExactlyOnce':
            continue
        if (inv in viol) != nonempty:
            raise core.MachineryFailure('TLC: invariant %s %s but discrepancy sets %s = %s'
                                        % (inv, 'violated' if inv in viol else 'holds', keys,
                                           [diffs.get(k) for k in keys]))
    return viol, diffs, res


def report_static(ctx, viol, diffs):
    inv_of = {}
    for inv, keys in DIFFS_OF.items():
        for k in keys:
            inv_of.setdefault(k, inv)
    for k, elems in sorted(diffs.items()):
        for el in elems[:50]:
            ctx.fail('%s/%s: %s' % (inv_of[k], k, json.dumps(el)),
                     dict(kind='static', relation=k, invariant=inv_of[k], element=el, all=elems[:50]))


# ====================================================================================================
# console cross references: the title states what the request leads to
# ====================================================================================================
_TITLE_FORMS = [
    (re.compile(r'^Instruction "([^"]+)" \(in phase \[([^\]]+)\]\)$'), 'instr'),
    (re.compile(r'^Suite instruction "([^"]+)" \(in section \[([^\]]+)\]\)$'), 'suite-instr'),
    (re.compile(r'^Phase \[([^\]]+)\]$'), 'phase'),
    (re.compile(r'^Suite section \[([^\]]+)\]$'), 'section'),
    (re.compile(r'^[A-Z][A-Za-z ]* "([^"]+)"$'), 'entity'),
]


def title_mismatch(title, res):
    for rx, kind in _TITLE_FORMS:
        m = rx.match(title)
        if not m:
            continue
        if res['kind'] != kind:
            return 'kind %s' % res['kind']
        if kind in ('instr', 'suite-instr'):
            ok = res['b'] == [m.group(1)] and res['a'] == [m.group(2)]
        elif kind in ('phase', 'section'):
            ok = res['a'] == [m.group(1)]
        else:
            ok = ' '.join(res['b']) == m.group(1)
        return None if ok else 'leads to %s %s %s' % (res['kind'], res['a'], res['b'])
    return None


def check_ref_titles(ctx, U, groups):
    n = 0
    for argv, titles in sorted(U.ref_titles.items()):
        exps = groups.get(tuple(argv))
        if not exps or len(exps) != 1:
            continue                      # unresolved / ambiguous: EveryConsoleRefResolves reports it
        for t in titles:
            n += 1
            ctx.count()
            bad = title_mismatch(t, exps[0]) if t else None
            if bad:
                ctx.fail('CrossReferenceTitle: %r (>help %s)' % (t, ' '.join(argv)),
                         dict(kind='ref-title', title=t, argv=list(argv), expected=exps[0], clause=bad))
    return n


# ====================================================================================================
# negative controls
# ====================================================================================================
def negative_controls(ctx, U, groups, tasks, owner, obs):
    rnd = random.Random(ctx.seed + 1)
    tried = rejected = 0
    by_kind = {}
    for j, t in enumerate(tasks):
        exps = groups[owner[j]]
        if len(exps) == 1 and judge_request(exps, obs[j]) is None:
            by_kind.setdefault(exps[0]['kind'], []).append(j)
    other_heads = {}
    for k in ('instr', 'entity'):
        for j in by_kind.get(k, []):
            other_heads.setdefault(k, []).append(obs[j]['page']['heads'])
    for k, js in sorted(by_kind.items()):
        for j in rnd.sample(js, min(4, len(js))):
            e = groups[owner[j]]
            o = json.loads(json.dumps(obs[j]))
            corruptions = []
            if k == 'invalid':
                corruptions.append(('page instead of refusal', dict(exit=0, page=dict(o['page'], len=10))))
                corruptions.append(('exit 0', dict(exit=0)))
            elif k == 'unspecified':
                corruptions.append(('exit 0 without a page', dict(exit=0, page=dict(o['page'], len=0))))
            else:
                corruptions.append(('refusal', dict(exit=USAGE_ERROR, page=dict(o['page'], len=0))))
                corruptions.append(('empty page', dict(page=dict(o['page'], len=0))))
                corruptions.append(('escaping exception', dict(exception='ValueError: x')))
                if k in ('instr', 'entity'):
                    alt = [h for h in other_heads[k] if h[:2] != o['page']['heads'][:2]
                           and squash(h[0]) != squash(e[0].get('desc') or '')]
                    if alt:
                        corruptions.append(('page of another entry', dict(page=dict(o['page'], heads=alt[0]))))
                if k in ('instr-list', 'entity-list', 'instr-all', 'phase', 'section', 'help') and e[0]['items']:
                    pg = json.loads(json.dumps(o['page']))
                    tb = [t for t in pg['tables'] if (t.get('tail') or k not in ('phase', 'section'))]
                    if k == 'help':
                        tb = pg['tables'][-1:]
                    if tb and tb[-1]['rows']:
                        tb[-1]['rows'].pop()
                        corruptions.append(('a listed name dropped', dict(page=pg)))
                    pg2 = json.loads(json.dumps(o['page']))
                    tb2 = [t for t in pg2['tables'] if (t.get('tail') or k not in ('phase', 'section'))]
                    if k == 'help':
                        tb2 = pg2['tables'][-1:]
                    if tb2:
                        tb2[-1]['rows'].append(['verif-phantom', 'x'])
                        corruptions.append(('a phantom name listed', dict(page=pg2)))
                if k == 'search':
                    corruptions.append(('a further phase', dict(page=dict(o['page'], brackets=o['page']['brackets']
                                                                         + ['verif-phase']))))
                if k == 'htmldoc':
                    corruptions.append(('not html', dict(page=dict(o['page'], html=False))))
            for what, ch in corruptions:
                tried += 1
                if judge_request(e, dict(o, **ch)) is not None:
                    rejected += 1
                else:
                    raise core.MachineryFailure('negative control accepted: %s for help %s (%s)'
                                                % (what, sig_of(owner[j]), k))
    if tried < 10:
        raise core.MachineryFailure('negative controls: only %d corrupted observations could be made' % tried)
    ctx.cov['negative_controls_rejected'] += rejected


def negative_universe_static(ctx, U):
    """A corrupted universe must be rejected by TLC: -> (what was corrupted, invariants violated, discrepancy sets)."""
    d = json.loads(json.dumps(U.data))
    want = {}
    ph = next((p for p in INSTR_PHASES if set(d['Listed'][p]) & set(d['Accepted'][p])), None)
    if ph:
        gone = sorted(set(d['Listed'][ph]) & set(d['Accepted'][ph]))[-1]
        d['Listed'][ph].remove(gone)
        want['MissingHelp'] = [[ph, gone]]
        d['Listed'][ph].append('verif-phantom')
        want['PhantomHelp'] = [[ph, 'verif-phantom']]
    if d['Ids']:
        d['Ids'].append(d['Ids'][0])
        want['DuplicateIds'] = [d['Ids'][0]]
    d['Refs'].append('verif.dead.ref')
    want['DeadRefs'] = ['verif.dead.ref']
    if d['ManualInstr']:
        x = d['ManualInstr'].pop()
        want['ManualInstrBad'] = [x]
    t0 = next((t for t in d['AcceptTypes'] if [n for n in d['EntListed'][t] if n in d['EntAccepted'][t]]), None)
    if t0:
        y = [n for n in d['EntListed'][t0] if n in d['EntAccepted'][t0]][-1]
        d['EntListed'][t0].remove(y)
        want['EntityMissingHelp'] = [[t0, y]]
    if d['LinkNames']:
        l0 = d['LinkNames'][0]
        d['LinkNames'].append([l0[0], l0[1] + '-verif'])
        want['MisnamedLinks'] = [[l0[0], l0[1] + '-verif']]
    if 'cleanup' in d['AcceptedPhaseHeaders']:
        d['AcceptedPhaseHeaders'] = [h for h in d['AcceptedPhaseHeaders'] if h != 'cleanup']
        want['PhaseHeaders'] = ['cleanup']
    viol, diffs, _ = static_judgement(ctx, d, 'negative-static', count=False)
    return want, viol, diffs


def negative_universe_ref(ctx, U):
    """A `(>help ...)` hint that leads nowhere must violate EveryConsoleRefResolves."""
    d = json.loads(json.dumps(U.data))
    bogus = [d['EntityTypes'][0] if d['EntityTypes'] else 'concept', DECOY]
    d['ConsoleRefs'] = d['ConsoleRefs'] + [bogus]
    d['ExtraRequests'] = [bogus]
    spec_dir = os.path.join(ctx.scratch, 'spec-negative-ref')
    write_mc(d, spec_dir)
    r = ctx.tlc('HelpMC', cfg(MACHINE_INVARIANTS, 'extra'), workers=1, name='negative-ref', spec_dir=spec_dir,
                must_hold=False, count=False)
    if r.violated != 'EveryConsoleRefResolves':
        raise core.MachineryFailure('negative control: a dead console cross reference is not rejected by TLC (%s)'
                                    % r.violated)
    return 1


def negative_universe_compare(ctx, want, viol, diffs, base_diffs):
    for k, v in want.items():
        have = set(map(json.dumps, diffs.get(k, [])))
        if not set(map(json.dumps, v)) <= have:
            raise core.MachineryFailure('negative control: corrupted universe, TLC reports %s = %s, expected %s in it'
                                        % (k, diffs.get(k), v))
    need = {'MissingHelp': 'DocumentedIffAccepted', 'DuplicateIds': 'AnchorsUnique', 'DeadRefs': 'EveryRefHasAnchor'}
    for k, inv in need.items():
        if k in want and inv not in viol:
            raise core.MachineryFailure('negative control: TLC does not report %s violated (%s)' % (inv, viol))
    if 'RefTargetExactlyOnce' not in viol:
        raise core.MachineryFailure('negative control: TLC does not report RefTargetExactlyOnce violated (%s)' % viol)
    ctx.cov['negative_controls_rejected'] += len(want)


# ====================================================================================================
def machine_run(ctx, U, domain, name):
    """Model-check the request machine and export every (request, acceptable result) - one TLC run, one worker
    (PrintT export), with coverage."""
    spec_dir = os.path.join(ctx.scratch, 'spec-' + name)
    write_mc(U.data, spec_dir)
    res = ctx.tlc('HelpMC', cfg(MACHINE_INVARIANTS + ['Export'], domain), workers=1, coverage=True, name=name,
                  spec_dir=spec_dir, must_hold=False, timeout=3000)
    exp = res
    if res.violated is not None:
        if res.violated not in MACHINE_INVARIANTS or res.violated == 'TypeOK':
            raise core.MachineryFailure('TLC: %s\n%s' % (res.violated, res.error_excerpt(60)))
        # the universe of the program violates a property of the help grammar (e.g. a cross reference that leads
        # nowhere, an entity shadowed by another form): a finding about the program, with TLC's counterexample
        m = re.search(r'/\\ req = (<<.*?>>)\n', res.out[res.out.find('is violated'):] + '\n')
        ctx.fail('%s: %s' % (res.violated, m.group(1) if m else '?'),
                 dict(kind='model', invariant=res.violated, counterexample=res.error_excerpt(45)))
        exp = None
    elif not res.ok:
        raise core.MachineryFailure('TLC run did not succeed:\n' + res.error_excerpt(50))
    if exp is None:
        exp = ctx.tlc('HelpMC', cfg(['Export'], domain), workers=1, name=name + '-export', spec_dir=spec_dir,
                      count=False)
    cases = exp.printed_json('CASE')
    if not cases:
        raise core.MachineryFailure('TLC exported no case')
    return res, cases


def run(ctx):
    quick = ctx.tier == 'quick'
    with ctx.pool() as pool:
        U = observe(pool, ctx.tier, ctx.seed)
        for n in U.notes:
            ctx.note(n)
        # ---- TLC: the request machine (model checking + export); meanwhile the static relations and the
        #      corrupted universes of the negative controls
        from concurrent.futures import ThreadPoolExecutor
        ex = ThreadPoolExecutor(3)
        f_static = ex.submit(static_judgement, ctx, U.data, 'static')
        f_neg1 = ex.submit(negative_universe_static, ctx, U)
        f_neg2 = ex.submit(negative_universe_ref, ctx, U)
        try:
            res, cases = machine_run(ctx, U, 'all', 'mc')
        finally:
            ex.shutdown(wait=True)
        ctx.cov['checker_cmd'] = res.cmd.replace(res.run_dir, '<scratch>')
        viol, diffs, sres = f_static.result()
        report_static(ctx, viol, diffs)
        if res.violated is None:
            required = [a for a in ACTIONS]
            ctx.require_coverage(res, required)
        # ---- replay
        groups, tasks, owner, obs = replay_requests(ctx, pool, U, cases, 'request domain',
                                                    subprocess_sample=(16 if quick else 300))
        # `(>help ...)` hints on pages that were not among the canonical ones
        seen = {}
        for o in obs:
            if o and o.get('page'):
                for title, argv in o['page']['refs']:
                    if tuple(argv) not in U.ref_titles:
                        seen.setdefault(tuple(argv), set()).add(title)
        seen = {k: v for k, v in seen.items() if all(tla_ok(w) for w in k)}
        if seen:
            ctx.note('%d cross references appear only on non-canonical pages: judged in a second round' % len(seen))
            U2 = Universe()
            U2.desc, U2.data = U.desc, dict(U.data, ExtraRequests=sorted(list(k) for k in seen),
                                            ConsoleRefs=sorted(list(k) for k in seen))
            _, cases2 = machine_run(ctx, U2, 'extra', 'mc-refs')
            g2, _, _, _ = replay_requests(ctx, pool, U2, cases2, 'further cross references')
            U.ref_titles.update({k: sorted(v) for k, v in seen.items()})
            groups.update(g2)
    n_titles = check_ref_titles(ctx, U, groups)
    negative_controls(ctx, U, groups, tasks, owner, obs)
    want, nviol, ndiffs = f_neg1.result()
    negative_universe_compare(ctx, want, nviol, ndiffs, diffs)
    ctx.cov['negative_controls_rejected'] += f_neg2.result()
    # ---- evidence
    d = U.data
    ctx.cov['universe'] = dict(
        instructions={p: len(set(d['Accepted'][p]) - {x[0] for x in d['EntListed'].get('directive', [])})
                      for p in INSTR_PHASES},
        suite_additional={s: d['SuiteListed'][s] for s in SECTIONS if d['SuiteListed'][s]},
        entities={t: len(d['EntListed'][t]) for t in d['EntityTypes']},
        acceptance_compared_for=d['AcceptTypes'], acceptance_probes=U.accept_tasks,
        manual=dict(ids=len(d['Ids']), internal_hrefs=len(d['Refs']), instruction_articles=len(d['ManualInstr']),
                    entity_articles=len(d['ManualEnt']), titled_links=len(d['LinkNames']),
                    external_links=len(U.html.get('external', [])), unbalanced_tags=U.html.get('unbalanced')),
        console_cross_references=len(U.ref_titles), titles_checked=n_titles,
        vocabulary=len(d['Items']), loose_pairs=len(d['Loose']))
    ambiguous = sorted(' '.join(r) for r, es in groups.items()
                       if len({identity(e) for e in es if e['kind'] in PAGE_KINDS and e['exact']}) > 1)
    if ambiguous:
        ctx.note('requests with more than one documented reading (any is accepted): ' + ', '.join(ambiguous[:20]))
    picks = [('setup', 'file'), ('suite', 'conf', 'preprocessor'), ('actor', 'command', 'line'), ('instructions',),
             ('assert', 'stdin'), ('setup', 'fil')]
    for j, t in enumerate(tasks):
        if owner[j] in picks:
            picks.remove(owner[j])
            es = groups[owner[j]]
            ctx.sample(dict(argv=['help'] + t['argv'],
                            acceptable=[dict(kind=e['kind'], a=e['a'], b=e['b'], exact=e['exact'],
                                             items=len(e['items'])) for e in es],
                            observed=dict(exit=obs[j]['exit'], stdout_characters=obs[j]['page']['len'],
                                          starts_with=obs[j]['page']['heads'][:2])), limit=6)
    ctx.cov['exhaustive'] = True
    ctx.cov['rule'] = (
        'universe observed from the program (every candidate name x every phase / suite section / `def` / `@[..]@` / '
        '--reporter / `actor =`; every list page; every article, id and href of the manual); static relations '
        'judged by TLC; every request of the domain {(), x, x y, suite SECTION x : x, y in the vocabulary of %d word '
        'sequences (all keywords, phases, sections, entity types, instruction and entity names, decoys%s)} + every '
        '`(>help ...)` hint%s given to the real `exactly help` and compared with the acceptable results of '
        'Help.tla; non-trivial = a request (and argv form) for which some acceptable result is a page'
        % (len(d['Items']), '' if quick else ', other letter case, seeded random parts of names',
           '' if quick else ' + 3000 seeded random requests of 3-5 words'))
    ctx.assumptions += [
        'accepted = the report for a minimal use of the name differs from the report for a decoy name in the same '
        'place (builtin symbol: a reference is replaced by a value; reporter: the suite is run)',
        'the identity of an entry page is the one-line description that the list pages show for the same name; '
        'pages without such a description (program, CLI syntax, specifications) are identified by being pairwise different',
        'names given in another letter case or as a part of a name, superfluous arguments, and words that are both an '
        'ENTITY-TYPE and an INSTRUCTION are not settled by `help help`: every reading is accepted (nondeterminism of '
        'Help.tla)',
        'which accepted names are directives (not instructions) is taken from `help directive`',
        'instruction and entity articles of the manual are recognised by their class attribute (instruction / entity '
        'TYPE) and title; link titles by the forms of "See also" items',
    ]


def replay(ctx, rec):
    r = rec['record']
    kind = r.get('kind')
    if kind == 'request':
        with ctx.pool(workers=1) as pool:
            f = 'harness.props.c20:w_help' if r.get('how') != 'subprocess' else 'harness.props.c20:w_help_subprocess'
            o = pool.map(f, [dict(argv=r['argv'])], deadline=180)[0]
        clause = judge_request(r['expected'], o)
        print(json.dumps(dict(argv=['help'] + r['argv'], expected=r['expected'], observed=o, clause=clause), indent=1))
        if clause:
            print('VIOLATION property=C20 replay=(given)')
            return 1
        return 0
    # everything else depends on the universe: observe it again and let TLC judge again
    with ctx.pool() as pool:
        U = observe(pool, 'quick', ctx.seed)
        viol, diffs, _ = static_judgement(ctx, U.data, 'static')
        bad = False
        if kind == 'static':
            still = [e for e in diffs.get(r['relation'], []) if json.dumps(e) == json.dumps(r['element'])]
            print(json.dumps(dict(relation=r['relation'], element=r['element'], now=diffs.get(r['relation'], [])),
                             indent=1))
            bad = bool(still)
        else:
            res, cases = machine_run(ctx, U, 'all', 'mc')
            groups, tasks, owner, obs = replay_requests(ctx, pool, U, cases, 'request domain')
            check_ref_titles(ctx, U, groups)
            for sig in ctx.violations:
                print(sig)
            bad = any(sig.split(':')[0] == rec['signature'].split(':')[0] for sig in ctx.violations)
    ctx.violations.clear()
    if bad:
        print('VIOLATION property=C20 replay=(given)')
        return 1
    return 0
