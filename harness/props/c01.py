"""C01  Phased execution protocol.

spec -> code: every terminal state of spec/PhaseExec.tla (every fault sequence of every shape) is replayed
through exactly_lib.execution.full_execution.execution.execute with scripted stub instructions / actor and
the recorded call sequence, reported status and failing step are compared with the model's.
code -> spec: hook traces of real test cases (corpus + fault-heavy generated cases) are validated by
spec/PhaseExecTrace.tla (see harness/trace_exec.py).
"""
import json
import os
import random

from harness import core

INVARIANTS = ['TypeOK', 'StepOrder', 'ValidateBeforeMain', 'HaltAtFirstFailure', 'CleanupExactlyOnce',
              'CleanupToldPrevious', 'OutcomeNamesFailure', 'NeverPassAfterFailure', 'SkipRunsNothing',
              'ConfFailureRunsNothing', 'NoEffectWhenInvalid', 'RemovedAtEnd', 'ProcessStateRestored',
              'SandboxBeforeEffects', 'CwdInSandboxWhileLive']
ACTIONS = ['SkipStep', 'SkipCase', 'CreateSandbox', 'ForwardStep', 'ForwardDone', 'CleanupStep', 'CleanupDone',
           'Report']


def cfg(max_n: int, invariants=INVARIANTS, spec='Spec', props=(), constraint=None) -> str:
    s = 'SPECIFICATION %s\nCONSTANT MaxN = %d\n' % (spec, max_n)
    s += ''.join('INVARIANT %s\n' % i for i in invariants)
    s += ''.join('PROPERTY %s\n' % p for p in props)
    if constraint:
        s += 'CONSTRAINT %s\n' % constraint
    s += 'CHECK_DEADLOCK FALSE\n'
    return s


def export_cases(ctx, max_n: int, name: str):
    res = ctx.tlc('PhaseExecExport', cfg(max_n, invariants=['Export']), workers=1, name=name, count=False,
                  timeout=3600)
    return res.printed_json('CASE')


# ---------------------------------------------------------------- worker side
def exec_case(task, cd):
    from harness import stubs
    case = task
    script = {}
    for e in case['log']:
        step, phase, idx, o = e[0], e[1], e[2], e[3]
        if o != 'ok':
            script.setdefault((phase, idx), {})[step] = o
    obs = stubs.run_case(case['n'], script, case['st'], case['mode'], cd.tmp, cd.home, out_dir=cd.out)
    obs['sandboxes_left'] = cd.sandboxes()
    if case['mode'] == 'act':
        obs['atc_out'] = open(os.path.join(cd.out, 'atc-out')).read()
    return obs


# ---------------------------------------------------------------- comparison
def expected_calls(case):
    calls = []
    for e in case['log']:
        if e[0] == 'exeinput' and case['n']['setup'] == 0:
            continue  # not observable with stubs: no setup instruction to install the scripted stdin
        d = dict(step=e[0], phase=e[1], idx=e[2])
        if len(e) > 4:
            d['prev'] = e[4]
        calls.append(d)
    return calls


def concretizable(case) -> bool:
    for e in case['log']:
        if e[0] == 'exeinput' and e[3] != 'ok' and case['n']['setup'] == 0:
            return False
    return True


def compare(case, obs):
    """Returns None or the name of the first failing clause."""
    from harness.stubs_names import STEP_NAME
    if obs.get('no_termination') or obs.get('worker_died') or obs.get('harness_exception'):
        return 'Terminates: ' + json.dumps(obs)[:300]
    if obs.get('exception'):
        return 'NoEscapingException: ' + obs['exception']
    if obs['log'] != expected_calls(case):
        return 'CallSequence (StepOrder/HaltAtFirstFailure/CleanupExactlyOnce/CleanupToldPrevious)'
    ok = False
    for step, phase, status, verdict in case['acc']:
        exp_step = None if status == 'PASS' else STEP_NAME[(step, phase)]
        if obs['status'] == verdict and obs['step'] == exp_step:
            ok = True
    if not ok:
        return 'OutcomeNamesFailure/NeverPassAfterFailure: reported %s at %s' % (obs['status'], obs['step'])
    if not obs['cwd_restored'] or not obs['env_restored']:
        return 'ProcessStateRestored'
    want_sds = case['sds']
    if want_sds == 'none':
        if obs['has_sds'] or obs['sandboxes_left']:
            return 'NoSandbox (sds = none in the model)'
    elif want_sds == 'removed':
        if not obs['has_sds'] or obs['sds_exists'] or obs['sandboxes_left']:
            return 'RemovedAtEnd'
    elif want_sds == 'kept':
        if not obs['has_sds'] or not obs['sds_exists'] or len(obs['sandboxes_left']) != 1:
            return 'KeptAtEnd'
    executed = any(e[0] == 'execute' and e[3] == 'ok' for e in case['log'])
    if executed != (obs['atc'] is not None):
        return 'AtcOutcomeIffExecuted'
    if case['mode'] == 'act' and executed and obs.get('atc_out') != 'atc-out\n':
        return 'ActModePassThrough'
    return None


def nontrivial_key(case):
    return json.dumps([case['n'], case['st'], case['mode'], case['log']], sort_keys=True)


def replay_cases(ctx, cases, label):
    cases = [c for c in cases if concretizable(c)]
    with ctx.pool() as pool:
        obs = pool.map('harness.props.c01:exec_case', cases, deadline=30, chunk=32)
    bad = 0
    for c, o in zip(cases, obs):
        ctx.count()
        clause = compare(c, o)
        if any(e[3] != 'ok' for e in c['log']):
            ctx.nontrivial(nontrivial_key(c))
        if clause is not None:
            bad += 1
            sig = '%s n=%s st=%s mode=%s script=%s' % (
                clause.split(':')[0], json.dumps(c['n'], sort_keys=True), c['st'], c['mode'],
                [e for e in c['log'] if e[3] != 'ok'])
            ctx.fail(sig, dict(case=c, observed=o, clause=clause, kind='stub-replay'))
    ctx.cov['traces_validated_against_impl'] += len(cases)
    ctx.cov.setdefault('replay', {})[label] = dict(cases=len(cases), disagreements=bad)
    return cases, obs


def negative_controls(ctx, cases, obs):
    """The comparison must reject corrupted expectations / observations."""
    rnd = random.Random(ctx.seed)
    idx = [i for i, c in enumerate(cases) if len(c['log']) >= 6 and c['sds'] != 'none']
    rejected = 0
    tried = 0
    for i in rnd.sample(idx, min(20, len(idx))):
        c, o = cases[i], obs[i]
        for mut in ('drop_call', 'swap_calls', 'forge_pass', 'wrong_prev'):
            o2 = json.loads(json.dumps(o))
            if mut == 'drop_call':
                del o2['log'][rnd.randrange(len(o2['log']))]
            elif mut == 'swap_calls':
                j = rnd.randrange(len(o2['log']) - 1)
                if o2['log'][j] == o2['log'][j + 1]:
                    continue
                o2['log'][j], o2['log'][j + 1] = o2['log'][j + 1], o2['log'][j]
            elif mut == 'forge_pass':
                if o2['status'] == 'PASS':
                    continue
                o2['status'], o2['step'] = 'PASS', None
            elif mut == 'wrong_prev':
                cl = [e for e in o2['log'] if 'prev' in e]
                if not cl:
                    continue
                cl[0]['prev'] = 'ACT' if cl[0]['prev'] != 'ACT' else 'SETUP'
            tried += 1
            if compare(c, o2) is not None:
                rejected += 1
    if tried == 0 or rejected != tried:
        raise core.MachineryFailure('negative controls: %d of %d corrupted observations rejected' % (rejected, tried))
    ctx.cov['negative_controls_rejected'] += rejected


def run(ctx):
    from harness import trace_exec
    quick = ctx.tier == 'quick'
    # 1. model checking of the design
    res = ctx.tlc('PhaseExec', cfg(1 if quick else 2), coverage=True, name='mc')
    ctx.require_coverage(res, ACTIONS)
    live = ctx.tlc('PhaseExec', cfg(1, invariants=[], spec='FairSpec', props=['Termination', 'CleanupEventually']),
                   name='liveness', count=False)
    ctx.cov['liveness_checked'] = ['Termination', 'CleanupEventually']
    # 2. spec -> code: replay every behaviour
    cases = export_cases(ctx, 1, 'export-n1')
    cases, obs = replay_cases(ctx, cases, 'MaxN=1 (all behaviours)')
    negative_controls(ctx, cases, obs)
    for c, o in list(zip(cases, obs))[:: max(1, len(cases) // 3)][:3]:
        ctx.sample(dict(n=c['n'], status=c['st'], mode=c['mode'], fault_script=[e for e in c['log'] if e[3] != 'ok'],
                        acceptable=c['acc'], observed_status=o.get('status'), observed_step=o.get('step'),
                        calls=len(o.get('log', []))))
    if not quick:
        cases2 = export_cases(ctx, 2, 'export-n2')
        replay_cases(ctx, cases2, 'MaxN=2 (all behaviours)')
    # 3. code -> spec: trace validation of real executions
    trace_exec.validate_corpus(ctx, quick=quick)
    trace_exec.validate_corpus_mutants(ctx, 1500 if quick else 30000)
    ctx.cov['exhaustive'] = True
    ctx.cov['rule'] = ('every behaviour of PhaseExec.tla for MaxN=%s (TLC, exhaustive) replayed with scripted stubs; '
                       'non-trivial = distinct (shape, status, mode, fault script) with at least one non-ok step; '
                       'plus hook traces of real test cases - the corpus and seeded random mutants of it - validated by PhaseExecTrace.tla'
                       % ('1' if quick else '1 and 2'))
    ctx.assumptions += ['stub instructions observe the executor through the public base-class methods only',
                        'TLC results hold for the stated MaxN',
                        'exe-input faults need a setup instruction to install the scripted stdin (cases with none are not replayed)']


def replay(ctx, rec):
    r = rec['record']
    if r.get('kind') == 'stub-replay':
        with ctx.pool(workers=1) as pool:
            o = pool.map('harness.props.c01:exec_case', [r['case']], deadline=30)[0]
        clause = compare(r['case'], o)
        print(json.dumps(dict(case=r['case'], observed=o, clause=clause), indent=1, default=str))
        if clause:
            print('VIOLATION property=C01 replay=(given)')
            return 1
        return 0
    from harness import trace_exec
    return trace_exec.replay(ctx, r)
