"""C14  A text has one value however it is consumed.

spec/StringSource.tla: the (deliberately trivial) specification - every access returns THE value, whose lines are
divided at new-line characters only - over every text of a list (control characters that str.splitlines breaks
on, CR LF, no final new-line, texts larger than the memory buffer), source kind, value-preserving transformer
chain, buffer-size class and every sequence of observers.  Each case is one real assertion built from observers
that read the text in different ways (line by line, as one string, as a file, through a process' stdin) and that
all hold exactly for the one value; it is run with a MainProgram constructed with the case's memory buffer size.
"""
import json
import os
import random

from harness import core

CH = {0: '\n', 1: 'a', 2: '\r', 3: '\x0c', 4: ' ', 5: 'b'}
RX = {0: '\\n', 1: 'a', 2: '\\r', 3: '\\f', 4: '\\u2028', 5: 'b'}
CHAIN = {'none': None, 'identity': 'identity', 'lower': 'char-case -to-lower', 'filter': 'filter constant true',
         'run': '( run % cat )', 'replace': "replace 'zzz' 'y'", 'seq': '( identity | char-case -to-lower | identity )',
         'strip-nothing': "replace -preserve-new-lines 'zzz' 'y'",
         # a line-wise transformer on top of one whose output is produced on demand
         'filter-lower': '( filter constant true | char-case -to-lower )',
         'run-identity': '( ( run % cat ) | identity | char-case -to-lower )'}


def cfg(max_obs, text_ids, chains, mems, export=False):
    c = ('SPECIFICATION Spec\nCONSTANTS MaxObs = %d\n TextIds = {%s}\n Chains = {%s}\n MemClasses = {%s}\n'
         % (max_obs, ', '.join(map(str, text_ids)), ', '.join('"%s"' % x for x in chains),
            ', '.join('"%s"' % x for x in mems)))
    c += 'INVARIANT Export\n' if export else 'INVARIANT OneValue\nINVARIANT FrozenBeforeShared\nINVARIANT ReprOnlyWhenFrozen\n'
    return c + 'CHECK_DEADLOCK FALSE\n'


def observer(o, c, home, wrong=False):
    if o == 'lines':
        return 'num-lines == %d' % (c['numLines'] + (1 if wrong else 0))
    if o == 'str':
        unit = ''.join(RX[x] for x in c['unit'])
        rx = unit if c['reps'] == 1 else '(%s){%d}' % (unit, c['reps'])
        return "matches -full '%s%s'" % (rx, 'x' if wrong else '')
    if o == 'file':
        return 'equals -contents-of -rel-home %s' % ('wrong.txt' if wrong else 'value.txt')
    if o == 'stdin':
        return '( run % cmp -s - ' + os.path.join(home, 'wrong.txt' if wrong else 'value.txt') + ' )'
    # consumers that read the head of the text in one pass over its lines and the rest in another
    if o == 'tail':
        return '-transformed-by filter -line-nums 2:\n    num-lines == %d' % (c['tailLines'] + (1 if wrong else 0))
    if o == 'head':
        return '-transformed-by filter -line-nums 1\n    num-lines == %d' % (c['headLines'] + (1 if wrong else 0))
    if o == 'peek':       # reads the first line only
        if c['numLines'] == 0:
            return 'any line : constant true' if wrong else 'every line : constant false'
        return 'any line : line-num == %d' % (c['numLines'] + 1 if wrong else 1)
    if o == 'notfirst':
        # compared with a text held in memory: its own first line (expressible when that line is made of a / b)
        fl = c['firstLine']
        if not fl or any(x not in (0, 1, 5) for x in fl):
            return observer('lines', c, home, wrong)
        lit = '"%s"' % ''.join('@[NEW_LINE]@' if x == 0 else CH[x] for x in fl)
        same = bool(c['onlyFirst']) != wrong
        return ('equals %s' if same else '! equals %s') % lit
    raise ValueError(o)


def case_text(c, home, wrong_at=None):
    obs = [observer(o, c, home, wrong=(j == wrong_at)) for j, o in enumerate(c['obs'])]
    expr = obs[0] if len(obs) == 1 else '( ' + ' && '.join(obs) + ' )'
    t = CHAIN[c['chain']]
    if t:
        expr = '-transformed-by %s %s' % (t, expr)
    if c['kind'] == 'file':
        return '[assert]\ncontents -rel-home in.txt : %s\n' % expr
    return '[act]\n$ cat %s\n[assert]\nstdout %s\n' % (os.path.join(home, 'in.txt'), expr)


def mem_size(c):
    n = c['len']
    return {'1': 1, 'len': max(n, 1), 'len+1': n + 1, 'len-1': max(n - 1, 1), 'default': None}[c['mem']]


_MP = {}


def exec_case(task, cd):
    from harness import inproc
    c = task['case']
    value = ''.join(CH[x] for x in c['unit']) * c['reps']
    for name, v in (('in.txt', value), ('value.txt', value), ('wrong.txt', value + 'x')):
        with open(os.path.join(cd.home, name), 'w', encoding='utf-8', newline='') as fh:
            fh.write(v)
    home = os.path.realpath(cd.home)
    cd.write({'c.case': case_text(c, home, task.get('wrong_at'))})
    m = mem_size(c)
    if m not in _MP:
        _MP[m] = inproc.main_program_with(m)
    r = inproc.run_main(['c.case'], cd, main_program=_MP[m])
    return dict(exit=r['exit'], exception=r['exception'], ident=(r['stdout'].splitlines() or [''])[0],
                stderr=r['stderr'][:500])


def sig(c):
    return 'text=%r x%d kind=%s chain=%s mem=%s obs=%s' % (''.join(CH[x] for x in c['unit']), c['reps'], c['kind'],
                                                           c['chain'], c['mem'], '+'.join(c['obs']))


def run(ctx):
    quick = ctx.tier == 'quick'
    rnd = random.Random(ctx.seed)
    text_ids = list(range(1, 22))
    chains = ['none', 'identity', 'lower', 'filter', 'run', 'replace', 'seq', 'filter-lower', 'run-identity']
    mems = ['1', 'len', 'len+1', 'default'] if quick else ['1', 'len', 'len+1', 'len-1', 'default']
    max_obs = 2 if quick else 3
    mc = ctx.tlc('StringSource', cfg(max_obs + 1, text_ids, chains, mems), coverage=True, name='mc', timeout=3000)
    ctx.require_coverage(mc, ['Freeze', 'Access'])
    ex = ctx.tlc('StringSourceExport', cfg(max_obs, text_ids, chains, mems, export=True), workers=1, name='export',
                 count=False, timeout=3000)
    cases = ex.printed_json('CASE')
    reprs = {}
    for c in cases:
        reprs[c['repr']] = reprs.get(c['repr'], 0) + 1
    if not (reprs.get('memory') and reprs.get('disk') and reprs.get('none')):
        raise core.MachineryFailure('buffer-size branches not all exercised: %s' % reprs)
    if quick:
        big = [c for c in cases if c['reps'] > 1]
        small = [c for c in cases if c['reps'] == 1]
        cases = small + rnd.sample(big, min(len(big), 200))
    tasks = [dict(case=c) for c in cases]
    # controls: an observer made wrong at one position must make the assertion FAIL
    ctl_cases = rnd.sample(cases, min(len(cases), 150 if quick else 1500))
    ctl = [dict(case=c, wrong_at=rnd.randrange(len(c['obs']))) for c in ctl_cases]
    with ctx.pool() as pool:
        obs = pool.map('harness.props.c14:exec_case', tasks, deadline=120, chunk=8)
        cobs = pool.map('harness.props.c14:exec_case', ctl, deadline=120, chunk=8)
    bad = 0
    by_text = {}
    for c, o in zip(cases, obs):
        ctx.count()
        ctx.nontrivial(sig(c))
        if o.get('exit') == 0 and o.get('ident') == 'PASS':
            continue
        bad += 1
        key = '%r %s' % (''.join(CH[x] for x in c['unit']), c['kind'])
        by_text[key] = by_text.get(key, 0) + 1
        has_cr = 2 in c['unit']
        ctx.fail('OneValue ' + sig(c), dict(kind='case', case=c, observed=o), explained_by='D5-CRLF' if has_cr else None)
    ctx.cov['traces_validated_against_impl'] += len(cases)
    ctx.cov['replay'] = dict(cases=len(cases), disagreements=bad, representation_classes=reprs,
                             disagreements_by_text=by_text)
    rejected = 0
    main_ok = {sig(c) for c, o in zip(cases, obs) if o.get('exit') == 0 and o.get('ident') == 'PASS'}
    for t, o in zip(ctl, cobs):
        if sig(t['case']) not in main_ok:
            continue            # the case itself disagrees (reported above): it cannot serve as a control
        if 2 in t['case']['unit']:
            rejected += 1       # texts with CR are subject to the known finding: not usable as controls
            continue
        if o.get('exit') == 32 and o.get('ident') == 'FAIL':
            rejected += 1
        else:
            raise core.MachineryFailure('vacuity control: a wrong observer did not make the assertion FAIL: %s %s'
                                        % (sig(t['case']), o))
    ctx.cov['negative_controls_rejected'] += rejected
    for c in (cases[3], cases[len(cases) // 2], cases[-1]):
        ctx.sample(dict(case=sig(c), test_case=case_text(c, '<home>'), memory_buffer=mem_size(c), expected='PASS'))
    ctx.cov['exhaustive'] = True
    ctx.cov['rule'] = ('every case of StringSource.tla: 16 texts (empty, a long second line, no final new-line, FF, U+2028, CR LF, > default '
                       'buffer) x {file, program output} x 7 value-preserving transformer chains x %d buffer-size classes x '
                       'every sequence of <= %d observers (as lines, as string, as file, through stdin); non-trivial = '
                       'every distinct case' % (len(mems), max_obs))
    ctx.assumptions += ['the transformer chains used are value preserving, so that the one expected value is the text itself',
                        'which access method an observer uses internally is not assumed: only that all observers see '
                        'the same value',
                        'texts containing CR are subject to known finding D5-CRLF (universal-newline translation when a '
                        'file is read as text, byte comparison when it is compared as a file)']


def replay(ctx, rec):
    r = rec['record']
    with ctx.pool(workers=1) as pool:
        o = pool.map('harness.props.c14:exec_case', [dict(case=r['case'])], deadline=120)[0]
    print(json.dumps(dict(case=r['case'], test_case=case_text(r['case'], '<home>'), observed=o), indent=1))
    if not (o.get('exit') == 0 and o.get('ident') == 'PASS'):
        print('VIOLATION property=C14 replay=(given)')
        return 1
    return 0
