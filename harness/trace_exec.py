"""code -> spec: executions of the real program, recorded by the hooks (EXACTLY_VERIF_TRACE), are validated
against spec/PhaseExecTrace.tla.  Used by C01 (corpus) and by every check that runs real test cases in process.
"""
import json
import os
import shutil
import subprocess

from harness import core
from harness.stubs_names import NAME_STEP

CORPORA = ['test/exactly-cases', 'err-msg-tests', 'examples']


# ------------------------------------------------------------------ projection (hook events -> abstract events)
class Unprojectable(Exception):
    pass


def split_executions(events):
    """A process may execute several cases (suites): split at case-begin."""
    cur = None
    out = []
    for e in events:
        if e['ev'] == 'case-begin':
            cur = [e]
            out.append(cur)
        elif cur is not None:
            cur.append(e)
    return out


def project(events, cwd0=None):
    """events of ONE execution (starting with case-begin) -> abstract trace for PhaseExecTrace.

    Deterministic and total on the hook vocabulary; never repairs anything."""
    b = events[0]
    if b['ev'] != 'case-begin':
        raise Unprojectable('first event is %s' % b['ev'])
    nn = b['n']
    if nn[2] < 0:
        raise Unprojectable('bad count')
    st = 'PASS'
    for e in events:
        if e['ev'] == 'conf-done':
            st = e['status']
    mode = 'act' if b['act_mode'] else ('keep' if b['keep'] else 'normal')
    tr = [dict(ev='begin', n=dict(conf=nn[0], setup=nn[1], ba=nn[3], assert_=0), st=st, mode=mode)]
    tr[0]['n'] = {'conf': nn[0], 'setup': nn[1], 'ba': nn[3], 'assert': nn[4], 'cleanup': nn[5]}
    root = None
    pending_fail = None
    for e in events[1:]:
        ev = e['ev']
        if 'hook_error' in e:
            raise Unprojectable('hook error: %s' % e['hook_error'])
        if ev == 'conf-done':
            continue
        if ev == 'step':
            s = NAME_STEP.get(e['step'])
            if s is None:
                raise Unprojectable('unknown step %s' % e['step'])
            tr.append(dict(ev='step', step=s[0], phase=s[1]))
        elif ev == 'instr':
            tr.append(dict(ev='instr', status=e['status'], line=e['line']))
        elif ev == 'act-step-failed':
            pending_fail = e
        elif ev == 'act-step-done':
            s = NAME_STEP.get(e['step'])
            if s is None:
                raise Unprojectable('unknown step %s' % e['step'])
            status = 'ok'
            if pending_fail is not None:
                if pending_fail['step'] != e['step']:
                    raise Unprojectable('act-step-failed/done mismatch')
                status = pending_fail['status']
                pending_fail = None
            tr.append(dict(ev='act', step=s[0], phase=s[1], status=status))
        elif ev == 'sds-create':
            root = e['root']
            tr.append(dict(ev='sds'))
        elif ev == 'chdir':
            tr.append(dict(ev='chdir', ok=(root is not None and e['cwd'] == os.path.join(root, 'act'))))
        elif ev == 'cleanup':
            tr.append(dict(ev='cleanup', prev=e['previous_phase']))
        elif ev == 'proc':
            tr.append(dict(ev='proc', ok=True))
        elif ev == 'sds-remove':
            tr.append(dict(ev='rm', exists=bool(e['exists_after'])))
        elif ev == 'partial-end':
            ok = True if cwd0 is None else (os.path.realpath(e['cwd']) == os.path.realpath(cwd0))
            tr.append(dict(ev='pend', ok=ok, hassds=bool(e['has_sds'])))
        elif ev == 'full-result':
            vstep = ['-', '-']
            if e['step'] is not None:
                s = NAME_STEP.get(e['step'])
                if s is None:
                    raise Unprojectable('unknown step %s' % e['step'])
                vstep = [s[0], s[1]]
            tr.append(dict(ev='end', status=e['status'], vstep=vstep, hassds=bool(e['has_sds'])))
        else:
            raise Unprojectable('unmodelled event %s' % ev)
    return tr


# ------------------------------------------------------------------ TLC
CFG = """SPECIFICATION TraceSpec
CONSTANT MaxN = 1000
INVARIANT Reached
INVARIANT StepOrder
INVARIANT ValidateBeforeMain
INVARIANT HaltAtFirstFailure
INVARIANT CleanupExactlyOnce
INVARIANT CleanupToldPrevious
INVARIANT OutcomeNamesFailure
INVARIANT NeverPassAfterFailure
INVARIANT SkipRunsNothing
INVARIANT ConfFailureRunsNothing
INVARIANT NoEffectWhenInvalid
INVARIANT RemovedAtEnd
INVARIANT ProcessStateRestored
INVARIANT SandboxBeforeEffects
POSTCONDITION Accepted
CHECK_DEADLOCK FALSE
"""


def judge(ctx, traces, name='trace'):
    """traces: list of abstract traces.  Returns (accepted: set of indices, rejected: {index: longest prefix})."""
    if not traces:
        return set(), {}
    path = os.path.join(ctx.scratch, '%s-%d.ndjson' % (name, len(os.listdir(ctx.scratch))))
    with open(path, 'w') as fh:
        for t in traces:
            fh.write(json.dumps(t) + '\n')
    res = ctx.tlc('PhaseExecTrace', CFG, workers=1, env={'TRACE_FILE': path}, name=name, count=True,
                  must_hold=False, timeout=3600)
    if res.violated is not None:
        # an invariant of PhaseExec was violated along a real execution: find which trace
        return None, {'invariant': res.violated, 'excerpt': res.error_excerpt(80)}
    acc = res.printed('ACCEPTED')
    if not acc:
        raise core.MachineryFailure('trace validation did not report:\n' + res.error_excerpt(60))
    rejected = {int(r[0]) - 1: int(r[1]) for r in res.printed('REJECTED')}
    accepted = set(range(len(traces))) - set(rejected)
    if int(acc[0][0]) != len(accepted) or int(acc[0][1]) != len(traces):
        raise core.MachineryFailure('trace validation bookkeeping mismatch: %s' % acc)
    return accepted, rejected


def validate(ctx, items, label, prop=None):
    """items: list of dict(id=..., events=[hook events], cwd0=...).  Registers violations; returns number judged."""
    traces, owners = [], []
    unmodelled = {}
    for it in items:
        for ex in split_executions(it['events']):
            try:
                traces.append(project(ex, it.get('cwd0')))
                owners.append(it)
            except Unprojectable as e:
                unmodelled[str(e)] = unmodelled.get(str(e), 0) + 1
                ctx.fail('TraceProjection %s: %s' % (it['id'], e), dict(kind='trace', item=it, error=str(e)))
    accepted, rejected = judge(ctx, traces, name='trace-' + label.replace('/', '_').replace(' ', '_'))
    if accepted is None:
        # invariant violated: bisect by judging traces one by one would be slow; judge in halves
        bad = _bisect(ctx, traces)
        for j in bad:
            ctx.fail('TraceInvariant %s %s' % (rejected['invariant'], owners[j]['id']),
                     dict(kind='trace', id=owners[j]['id'], invariant=rejected['invariant'], trace=traces[j]))
        return len(traces)
    for j, upto in rejected.items():
        t = traces[j]
        nxt = t[upto - 1] if upto - 1 < len(t) else None
        ctx.fail('TraceRejected %s at event %d %s' % (owners[j]['id'], upto, json.dumps(nxt)),
                 dict(kind='trace', id=owners[j]['id'], matched_prefix=t[:upto - 1][-12:], next_event=nxt,
                      files=owners[j].get('files'), argv=owners[j].get('argv'), trace=t))
    ctx.cov['traces_validated_against_impl'] += len(traces)
    ctx.cov.setdefault('trace_validation', {})[label] = dict(
        executions=len(traces), events=sum(len(t) for t in traces), rejected=len(rejected),
        unmodelled_events=unmodelled)
    return len(traces)


def _bisect(ctx, traces):
    bad = []

    def rec(idx):
        if not idx:
            return
        acc, rej = judge(ctx, [traces[j] for j in idx], name='bisect')
        if acc is not None:
            return
        if len(idx) == 1:
            bad.append(idx[0])
            return
        h = len(idx) // 2
        rec(idx[:h])
        rec(idx[h:])

    rec(list(range(len(traces))))
    return bad


# ------------------------------------------------------------------ corpus
def prepare_corpus(ctx):
    """Copy the repository's .case corpora into the scratch directory (and build the examples' helper programs)."""
    base = os.path.join(ctx.scratch, 'corpus')
    if os.path.exists(base):
        return base
    for c in CORPORA:
        shutil.copytree(os.path.join(core.REPO, c), os.path.join(base, c), symlinks=True)
    ex = os.path.join(base, 'examples')
    p = subprocess.run(['/venv/bin/python', 'make-executables.py', 'all'], cwd=ex, stdout=subprocess.PIPE,
                       stderr=subprocess.STDOUT, text=True, env=dict(os.environ, PATH='/venv/bin:' + os.environ['PATH']))
    if p.returncode != 0:
        ctx.note('examples: make-executables failed: ' + p.stdout[-300:])
    return base


def corpus_cases(base, which=CORPORA):
    out = []
    for c in which:
        for dp, dns, fns in os.walk(os.path.join(base, c)):
            dns.sort()
            for f in sorted(fns):
                if f.endswith('.case'):
                    out.append(os.path.join(dp, f))
    return out


def run_corpus_case(task, cd):
    """worker side: run one corpus file standalone, with tracing."""
    from harness import inproc
    path = task['path']
    r = inproc.run_main([os.path.basename(path)], cd, cwd=os.path.dirname(path), trace=True)
    return dict(exit=r['exit'], exception=r['exception'], stdout=r['stdout'][:200], stderr=r['stderr'][:400],
                events=r.get('trace', []), cwd_after=r['cwd_after'], cwd_before=r['cwd_before'],
                env_changed=r['env_changed'], sandboxes_left=cd.sandboxes())


def run_corpus_suite(task, cd):
    """worker side: run one of the repository's suites in one process (many executions in one trace)."""
    from harness import inproc
    r = inproc.run_main(['suite', task['suite']], cd, cwd=task['cwd'], trace=True)
    return dict(exit=r['exit'], exception=r['exception'], stdout=r['stdout'][-300:], stderr=r['stderr'][-300:],
                events=r.get('trace', []), cwd_after=r['cwd_after'], cwd_before=r['cwd_before'],
                env_changed=r['env_changed'], sandboxes_left=cd.sandboxes())


def validate_corpus_suites(ctx, base):
    """The corpus run as SUITES: every case of a suite is executed in the same process, so the trace of one process
    holds many executions - each must be a behaviour of PhaseExec, and process state must be restored in between."""
    suites = [('test/exactly-cases', 'exactly.suite'), ('examples', 'exactly.suite')]
    tasks = [dict(cwd=os.path.join(base, d), suite=f) for d, f in suites if os.path.exists(os.path.join(base, d, f))]
    with ctx.pool(workers=len(tasks) or 1) as pool:
        obs = pool.map('harness.trace_exec:run_corpus_suite', tasks, deadline=900, chunk=1)
    items = []
    for t, o in zip(tasks, obs):
        name = os.path.relpath(t['cwd'], base) + '/' + t['suite']
        if o.get('no_termination') or o.get('worker_died') or o.get('harness_exception') or o.get('exception'):
            ctx.fail('CorpusSuiteDidNotFinish ' + name, dict(kind='corpus-suite', suite=name, obs=str(o)[:600]))
            continue
        if o['cwd_after'] != o['cwd_before'] or o['env_changed'] or o['sandboxes_left']:
            ctx.fail('ProcessStateRestored corpus suite ' + name, dict(kind='corpus-suite', suite=name,
                                                                      obs={k: o[k] for k in ('cwd_after', 'cwd_before',
                                                                                             'env_changed',
                                                                                             'sandboxes_left')}))
        items.append(dict(id='suite:' + name, events=o['events'], argv=['suite', t['suite']]))
        ctx.cov.setdefault('corpus', {})['suite ' + name] = dict(exit=o['exit'], last_line=o['stdout'].strip().split('\n')[-1])
    validate(ctx, items, 'corpus as suites')


def validate_corpus(ctx, quick=True):
    base = prepare_corpus(ctx)
    which = ['test/exactly-cases', 'err-msg-tests'] if quick else CORPORA
    paths = corpus_cases(base, which)
    with ctx.pool() as pool:
        obs = pool.map('harness.trace_exec:run_corpus_case', [dict(path=p) for p in paths], deadline=60, chunk=4)
    items = []
    mix = {}
    for p, o in zip(paths, obs):
        rel = os.path.relpath(p, base)
        if o.get('no_termination') or o.get('worker_died') or o.get('harness_exception'):
            ctx.fail('CorpusCaseDidNotFinish ' + rel, dict(kind='corpus', path=rel, obs=o))
            continue
        if o['exception']:
            ctx.fail('CorpusCaseException ' + rel, dict(kind='corpus', path=rel, obs=o))
            continue
        ident = (o['stdout'].strip().splitlines() or ['?'])[-1]
        mix[ident] = mix.get(ident, 0) + 1
        if o['cwd_after'] != o['cwd_before'] or o['env_changed']:
            ctx.fail('ProcessStateRestored corpus ' + rel, dict(kind='corpus', path=rel, obs=o))
        if o['sandboxes_left']:
            ctx.fail('RemovedAtEnd corpus ' + rel, dict(kind='corpus', path=rel, obs=o))
        if o['events']:
            items.append(dict(id=rel, events=o['events'], cwd0=os.path.dirname(p), argv=[os.path.basename(p)]))
        ctx.count()
    ctx.cov.setdefault('corpus', {})['outcome_mix'] = mix
    ctx.cov['corpus']['files'] = len(paths)
    validate(ctx, items, 'corpus')
    if not quick:
        validate_corpus_suites(ctx, base)
    # negative controls: corrupted traces must be rejected
    good = []
    for it in items:
        for ex in split_executions(it['events']):
            try:
                t = project(ex, it.get('cwd0'))
            except Unprojectable:
                continue
            if len(t) > 25 and any(e['ev'] == 'cleanup' for e in t):
                good.append(t)
        if len(good) >= 8:
            break
    corrupted = []
    for j, t in enumerate(good[:8]):
        t = json.loads(json.dumps(t))
        m = j % 4
        if m == 0:
            e = next(e for e in t if e['ev'] == 'cleanup')
            e['prev'] = 'SETUP' if e['prev'] != 'SETUP' else 'ASSERT'
        elif m == 1:
            idx = next(i for i, e in enumerate(t) if e['ev'] == 'instr')
            del t[idx]
        elif m == 2:
            idx = [i for i, e in enumerate(t) if e['ev'] == 'step']
            a, b = idx[2], idx[3]
            t[a], t[b] = t[b], t[a]
        else:
            e = t[-1]
            e['status'] = 'FAIL' if e['status'] == 'PASS' else 'PASS'
            e['vstep'] = ['-', '-'] if e['status'] == 'PASS' else ['main', 'assert']
        corrupted.append(t)
    if corrupted:
        acc, rej = judge(ctx, corrupted, name='trace-negative-controls')
        n_rej = len(corrupted) if acc is None else len(rej)
        if n_rej != len(corrupted):
            raise core.MachineryFailure('trace negative controls: %d of %d corrupted traces rejected'
                                        % (n_rej, len(corrupted)))
        ctx.cov['negative_controls_rejected'] += n_rej


def run_mutant_case(task, cd):
    """worker side: a mutated corpus file, written beside the file it was made from, run with tracing."""
    from harness import inproc
    cwd = task['cwd']
    path = os.path.join(cwd, 'verif-mutant-%d.case' % os.getpid())
    with open(path, 'w', encoding='utf-8', errors='surrogateescape') as fh:
        fh.write(task['text'])
    try:
        r = inproc.run_main([os.path.basename(path)], cd, cwd=cwd, trace=True)
    finally:
        try:
            os.remove(path)
        except OSError:
            pass
    return dict(exit=r['exit'], exception=r['exception'], stdout=r['stdout'][:200], stderr=r['stderr'][-400:],
                events=r.get('trace', []), cwd_after=r['cwd_after'], cwd_before=r['cwd_before'],
                env_changed=r['env_changed'], sandboxes_left=cd.sandboxes())


def validate_corpus_mutants(ctx, n):
    """Fault-heavy real executions: seeded random mutants of the corpus files (token deleted / doubled / replaced by
    an extreme token / swapped / quoted, text cut short).  Whatever a mutant is - invalid at any stage, failing at
    any step, or still valid - its execution must be a behaviour of PhaseExec, leave no sandbox and restore the
    state of the process.  (Whether the OUTCOME is permitted for the mistake is C18's question, not asked here.)"""
    import random
    from harness.props import c18
    base = prepare_corpus(ctx)
    os.system('chmod -R a+rwX %s' % base)
    rnd = random.Random(ctx.seed + 11)
    seeds = []
    for p in corpus_cases(base, ['test/exactly-cases', 'err-msg-tests']):
        try:
            t = open(p, encoding='utf-8').read()
        except (OSError, UnicodeDecodeError):
            continue
        if 'python' in t.lower() or 'python' in p.lower():
            continue     # the interpreter is not executable for the unprivileged user
        seeds.append((p, t))
    tasks = []
    for _ in range(n):
        p, t = rnd.choice(seeds)
        tasks.append(dict(text=c18.mutate(rnd, t), cwd=os.path.dirname(p), seed=os.path.relpath(p, base)))
    with ctx.pool(unprivileged=True) as pool:
        obs = pool.map('harness.trace_exec:run_mutant_case', tasks, deadline=20, chunk=8)
    items, mix, skipped = [], {}, 0
    for j, (t, o) in enumerate(zip(tasks, obs)):
        if o.get('no_termination') or o.get('worker_died') or o.get('harness_exception') or o.get('exception'):
            skipped += 1         # (termination and internal errors of mutants: C18)
            continue
        ctx.count()
        ident = (o['stdout'].strip().splitlines() or ['?'])[0]
        mix[ident] = mix.get(ident, 0) + 1
        if ident not in ('PASS', 'SKIPPED'):
            ctx.nontrivial('mutant:' + t['text'])
        rec = dict(kind='mutant', seed_file=t['seed'], text=t['text'],
                   obs={k: o[k] for k in ('exit', 'stdout', 'stderr', 'cwd_after', 'cwd_before', 'env_changed',
                                          'sandboxes_left')})
        if ident == 'INTERNAL_ERROR':
            skipped += 1         # an implementation error is C18's finding; its trace ends wherever the exception struck
            continue
        if o['cwd_after'] != o['cwd_before'] or o['env_changed']:
            ctx.fail('ProcessStateRestored mutant of %s' % t['seed'], rec)
        if o['sandboxes_left']:
            ctx.fail('RemovedAtEnd mutant of %s' % t['seed'], rec)
        if o['events']:
            items.append(dict(id='mutant %d of %s' % (j, t['seed']), events=o['events'], cwd0=t['cwd'],
                              argv=['(mutant)'], files={'(mutant).case': t['text']}))
    ctx.cov.setdefault('corpus', {})['mutants'] = dict(generated=n, judged=n - skipped, outcome_mix=mix)
    validate(ctx, items, 'corpus mutants')


def replay(ctx, r):
    print(json.dumps(r, indent=1, default=str)[:6000])
    if 'trace' in r:
        acc, rej = judge(ctx, [r['trace']], name='replay')
        if acc is None or rej:
            print('recorded trace is rejected by PhaseExecTrace: %s' % (rej,))
            print('VIOLATION property=%s replay=(given)' % ctx.prop)
            return 1
    return 0
