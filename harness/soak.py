#!/venv/bin/python
"""Soak: every registered quick check with several seeds; reports any run that does not exit 0 (a flaky or
seed-dependent alarm on the unchanged tree would discredit every real one).  Not a registered check."""
import json
import os
import subprocess
import sys
import time

VERIF = os.path.dirname(os.path.dirname(os.path.abspath(__file__)))


def main():
    seeds = [int(x) for x in (sys.argv[1:] or ['1', '2', '3'])]
    m = json.load(open(os.path.join(VERIF, 'MANIFEST.json')))
    bad = []
    for s in seeds:
        for c in m['checks']:
            t = time.time()
            p = subprocess.run(c['quick_cmd'], shell=True, cwd=VERIF, env=dict(os.environ, VERIF_SEED=str(s)),
                               stdout=subprocess.PIPE, stderr=subprocess.STDOUT, text=True)
            last = p.stdout.strip().splitlines()[-1:] or ['']
            print('seed=%d %s exit=%d %.0fs %s' % (s, c['property_id'], p.returncode, time.time() - t, last[0][:140]),
                  flush=True)
            if p.returncode != 0:
                bad.append((s, c['property_id'], p.stdout[-1500:]))
    for s, pid, out in bad:
        print('==== seed %d %s\n%s' % (s, pid, out))
    print('SOAK: %d runs, %d not clean' % (len(seeds) * len(m['checks']), len(bad)))
    return 1 if bad else 0


if __name__ == '__main__':
    sys.exit(main())
