#!/venv/bin/python
"""Prints a markdown table of what the committed evidence files say (one row per property): TLC states, cases
replayed / judged against the implementation, distinct non-trivial cases, known-finding hits, wall time.
Not a registered check."""
import glob
import json
import os

VERIF = os.path.dirname(os.path.dirname(os.path.abspath(__file__)))


def main():
    print('| property | tier | TLC runs | distinct states | replayed / judged | non-trivial | known | controls rejected | wall s |')
    print('|---|---|---|---|---|---|---|---|---|')
    for f in sorted(glob.glob(os.path.join(VERIF, 'evidence', 'C*.json'))):
        e = json.load(open(f))
        c = e['coverage']
        print('| %s | %s | %d | %d | %d | %d | %d | %d | %.0f |' % (
            e['property_id'], e['tier'], len(c.get('tlc_runs', [])), c.get('states', 0),
            c.get('traces_validated_against_impl', 0), c.get('distinct_nontrivial', 0),
            sum((c.get('known_findings_hit') or {}).values()), c.get('negative_controls_rejected', 0), e.get('wall_s', 0)))


if __name__ == '__main__':
    main()
