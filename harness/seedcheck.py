#!/venv/bin/python
"""Confirm a seeded change and run checks against it:  seedcheck.py <seed dir> <patch file> <demo file> <name> [CHECK ...]

Creates a scratch worktree of /repo outside /repo and /verif, confirms that the demonstration passes without the
change and fails with it and that the pinned baseline still passes with it, runs the named checks (quick tier)
against the changed tree (VERIF_REPO), stores the change under /verif/seeded/<name>/ and removes the worktree.
Not a registered check."""
import json
import os
import shutil
import subprocess
import sys
import tempfile
import time

VERIF = os.path.dirname(os.path.dirname(os.path.abspath(__file__)))


def sh(cmd, **kw):
    return subprocess.run(cmd, shell=isinstance(cmd, str), stdout=subprocess.PIPE, stderr=subprocess.STDOUT, text=True, **kw)


def main():
    seed_dir, patch, demo, name = sys.argv[1:5]
    checks = sys.argv[5:]
    patch_p = os.path.join(seed_dir, patch)
    demo_p = os.path.join(seed_dir, demo)
    wt = tempfile.mkdtemp(prefix='vf-seedwt-')
    os.rmdir(wt)
    out = {'name': name, 'patch': patch, 'demo': demo}
    try:
        r = sh(['git', '-C', '/repo', 'worktree', 'add', '-q', '--detach', wt, 'HEAD'])
        assert r.returncode == 0, r.stdout
        runner = ['/venv/bin/python', demo_p, wt] if demo_p.endswith('.py') else ['sh', demo_p, wt]
        r0 = sh(runner, timeout=600)
        out['demo_clean_exit'] = r0.returncode
        r = sh(['git', '-C', wt, 'apply', patch_p])
        assert r.returncode == 0, 'patch does not apply: ' + r.stdout
        r1 = sh(runner, timeout=600)
        out['demo_patched_exit'] = r1.returncode
        out['demo_patched_output'] = r1.stdout[-600:]
        if os.environ.get('SEED_SKIP_BASELINE'):      # (re-verification of a stored change: confirmed before)
            class rb:
                returncode, stdout = 0, 'baseline not re-run (confirmed when the change was stored)'
        else:
            rb = sh(['/venv/bin/python', os.path.join(VERIF, 'harness', 'baseline.py')],
                    env=dict(os.environ, VERIF_REPO=wt, PYTHONPATH=os.path.join(wt, 'src')))
        out['baseline_passes'] = rb.returncode == 0
        out['baseline_output'] = rb.stdout.strip().splitlines()[-1:]
        out['confirmed'] = r0.returncode == 0 and r1.returncode != 0 and rb.returncode == 0
        out['checks'] = {}
        for c in checks:
            t = time.time()
            rc = sh([os.path.join(VERIF, 'check'), c, '--tier', os.environ.get('SEED_TIER', 'quick')],
                    env=dict(os.environ, VERIF_REPO=wt, VERIF_REPLAY_BASE=os.path.join(wt, '.verif-replay'),
                             VERIF_EVIDENCE_DIR=os.path.join(wt, '.verif-evidence')), cwd=VERIF)
            viol = [l for l in rc.stdout.splitlines() if l.startswith('VIOLATION')]
            detail = [l for l in rc.stdout.splitlines() if l.startswith('  ')][:3]
            out['checks'][c] = dict(exit=rc.returncode, violations=len(viol), first=detail, wall=round(time.time() - t, 1),
                                    tail=rc.stdout.strip().splitlines()[-1:] if rc.returncode not in (0, 1) else None)
        dst = os.path.join(VERIF, 'seeded', name)
        os.makedirs(dst, exist_ok=True)
        for src, name in ((patch_p, 'patch.diff'), (demo_p, 'demo' + os.path.splitext(demo_p)[1])):
            if os.path.realpath(src) != os.path.realpath(os.path.join(dst, name)):
                shutil.copy(src, os.path.join(dst, name))
        meta = {}
        mp = os.path.join(seed_dir, patch.replace('patch', 'meta').replace('.diff', '.json'))
        if os.path.realpath(seed_dir) == os.path.realpath(dst):
            mp = os.path.join(dst, 'meta.json')
        if os.path.exists(mp):
            try:
                meta = json.load(open(mp))
            except Exception:
                meta = {'raw': open(mp).read()}
        meta['verification'] = out
        with open(os.path.join(dst, 'meta.json'), 'w') as fh:
            json.dump(meta, fh, indent=1)
        print(json.dumps(out, indent=1))
    finally:
        sh(['git', '-C', '/repo', 'worktree', 'remove', '--force', wt])
        shutil.rmtree(wt, ignore_errors=True)


if __name__ == '__main__':
    main()
