"""Check context: scratch directory, verdict bookkeeping, known findings, evidence, replay files."""
import hashlib
import json
import os
import shutil
import sys
import tempfile
import time
from typing import Any, Dict, List, Optional

from harness import tlc as tlc_mod
from harness import runner

VERIF = os.path.dirname(os.path.dirname(os.path.abspath(__file__)))
REPO = runner.REPO


class MachineryFailure(Exception):
    pass


class Ctx:
    def __init__(self, prop: str, tier: str, seed: int, level: str = 'model_checking'):
        self.prop = prop
        self.tier = tier
        self.seed = seed
        self.level = level
        self.t0 = time.time()
        self.scratch = tempfile.mkdtemp(prefix='vf-%s-' % prop, dir=_scratch_base())
        os.chmod(self.scratch, 0o755)
        self.violations: Dict[str, dict] = {}
        self.known_hits: Dict[str, int] = {}
        self.known_examples: Dict[str, Any] = {}
        self.cov: Dict[str, Any] = {
            'states': 0, 'transitions': 0, 'traces_validated_against_impl': 0,
            'evaluations': 0, 'distinct_nontrivial': 0, 'samples': [], 'exhaustive': False,
            'tlc_runs': [], 'negative_controls_rejected': 0,
        }
        self.assumptions: List[str] = []
        self._nontrivial = set()
        self.findings = load_findings()
        self.notes: List[str] = []

    # ------------------------------------------------------------------ TLC
    def tlc(self, module: str, cfg: str, **kw) -> tlc_mod.TlcResult:
        count = kw.pop('count', True)
        must_hold = kw.pop('must_hold', True)
        res = tlc_mod.run(module, cfg, self.scratch, **kw)
        self.cov['tlc_runs'].append({
            'module': module, 'name': kw.get('name') or module, 'generated': res.generated,
            'distinct': res.distinct, 'depth': res.depth, 'wall_s': round(res.wall, 2),
            'violated': res.violated,
            'coverage': dict(sorted(res.coverage.items())) if res.coverage else None,
        })
        if count:
            self.cov['states'] += res.distinct
            self.cov['transitions'] += res.generated
        if 'checker_cmd' not in self.cov:
            self.cov['checker_cmd'] = res.cmd.replace(res.run_dir, '<scratch>')
        if must_hold and res.violated is not None:
            # the design (the model) violates its own invariant: this is a verdict about the model
            raise MachineryFailure('TLC reports %s violated in %s (model level):\n%s'
                                   % (res.violated, module, res.error_excerpt(50)))
        if must_hold and not res.ok:
            raise MachineryFailure('TLC run of %s did not succeed:\n%s' % (module, res.error_excerpt(50)))
        return res

    def require_coverage(self, res: tlc_mod.TlcResult, actions: List[str]):
        missing = [a for a in actions if res.coverage.get(a, 0) == 0]
        if missing:
            raise MachineryFailure('vacuity: actions never taken: %s' % missing)

    # ------------------------------------------------------------------ pool
    def pool(self, workers: int = 16, **kw) -> runner.Pool:
        return runner.Pool(self.scratch, workers=workers, **kw)

    # ------------------------------------------------------------------ verdicts
    def count(self, n: int = 1):
        self.cov['evaluations'] += n

    def nontrivial(self, key):
        self._nontrivial.add(key if isinstance(key, (str, int, tuple)) else json.dumps(key, sort_keys=True))

    def sample(self, rec, limit: int = 5):
        if len(self.cov['samples']) < limit:
            self.cov['samples'].append(rec)

    def fail(self, signature: str, record: dict, explained_by: Optional[str] = None):
        """Register a failing case.  explained_by: id of a finding whose named deviation predicts exactly
        this observation; it only counts if known_findings.json lists that finding as open."""
        if explained_by is not None:
            f = self.findings.get(explained_by)
            if f is not None and f.get('state') == 'open' and self.prop in _as_list(f.get('property')):
                self.known_hits[explained_by] = self.known_hits.get(explained_by, 0) + 1
                self.known_examples.setdefault(explained_by, record)
                return
        if signature not in self.violations:
            self.violations[signature] = record

    def note(self, s: str):
        self.notes.append(s)

    # ------------------------------------------------------------------ finish
    def finish(self) -> int:
        wall = time.time() - self.t0
        self.cov['distinct_nontrivial'] = len(self._nontrivial)
        for fid, n in sorted(self.known_hits.items()):
            print('KNOWN-FINDING: property=%s %s: %s (%d cases this run)'
                  % (self.prop, fid, self.findings[fid]['what'], n))
        # (runs against another tree - seeded changes - keep their replay files and evidence out of /verif)
        rdir = os.path.join(os.environ.get('VERIF_REPLAY_BASE') or os.path.join(VERIF, 'replay'), self.prop)
        paths = []
        if self.violations:
            os.makedirs(rdir, exist_ok=True)
        for sig, rec in list(self.violations.items())[:25]:
            h = hashlib.sha1(sig.encode()).hexdigest()[:12]
            p = os.path.join(rdir, '%s.json' % h)
            with open(p, 'w') as fh:
                json.dump({'property': self.prop, 'signature': sig, 'record': rec}, fh, indent=1, default=str)
            paths.append(p)
            print('VIOLATION property=%s replay=%s' % (self.prop, p))
            print('  ' + sig[:300])
        if len(self.violations) > 25:
            print('(%d further violating signatures not written)' % (len(self.violations) - 25))
        self.cov['known_findings_hit'] = dict(self.known_hits)
        if self.notes:
            self.cov['notes'] = self.notes
        ev = {
            'property_id': self.prop, 'tier': self.tier, 'seed': self.seed, 'level': self.level,
            'coverage': self.cov, 'assumptions': self.assumptions, 'wall_s': round(wall, 2),
            'violations': len(self.violations),
        }
        evdir = os.environ.get('VERIF_EVIDENCE_DIR') or os.path.join(VERIF, 'evidence')
        os.makedirs(evdir, exist_ok=True)
        with open(os.path.join(evdir, self.prop + '.json'), 'w') as fh:
            json.dump(ev, fh, indent=1, default=str)
            fh.write('\n')
        self.cleanup()
        print('%s %s: states=%d transitions=%d replayed/judged=%d evaluations=%d nontrivial=%d known=%d '
              'violations=%d wall=%.1fs' % (self.prop, self.tier, self.cov['states'], self.cov['transitions'],
                                            self.cov['traces_validated_against_impl'], self.cov['evaluations'],
                                            self.cov['distinct_nontrivial'], sum(self.known_hits.values()),
                                            len(self.violations), wall))
        return 1 if self.violations else 0

    def cleanup(self):
        if os.environ.get('VERIF_KEEP_SCRATCH'):
            print('scratch kept: ' + self.scratch)
            return
        for dp, dns, fns in os.walk(self.scratch):
            try:
                os.chmod(dp, 0o700)
            except OSError:
                pass
        shutil.rmtree(self.scratch, ignore_errors=True)


def _scratch_base() -> str:
    """A memory file system if there is one with room (the checks create and remove hundreds of thousands of small
    files and directories), else /tmp."""
    d = os.environ.get('VERIF_SCRATCH')
    if d:
        return d
    try:
        st = os.statvfs('/dev/shm')
        if os.access('/dev/shm', os.W_OK | os.X_OK) and st.f_bavail * st.f_frsize > 4 * 2 ** 30:
            return '/dev/shm'
    except OSError:
        pass
    return '/tmp'


def _as_list(x):
    return x if isinstance(x, list) else [x]


def load_findings() -> Dict[str, dict]:
    p = os.path.join(VERIF, 'known_findings.json')
    if not os.path.exists(p):
        return {}
    with open(p) as fh:
        data = json.load(fh)
    return {f['id']: f for f in data.get('findings', [])}
