"""A pool of forked worker processes that run the real program in process.

The supervisor gives every task a wall-clock deadline; a worker that misses it is killed and replaced
and the task's result is {'no_termination': True}.  Workers import exactly_lib from <REPO>/src of the
current working tree (fresh processes on every check run: nothing is cached between runs).
"""
import importlib
import multiprocessing as mp
import multiprocessing.connection as mpc
import os
import pkgutil
import shutil
import sys
import time
import traceback
import warnings
from typing import Callable, List, Optional

REPO = os.environ.get('VERIF_REPO', '/repo')
VERIF = os.path.dirname(os.path.dirname(os.path.abspath(__file__)))
NOBODY = 65534


def _resolve(func: str) -> Callable:
    mod, name = func.split(':')
    return getattr(importlib.import_module(mod), name)


def _preimport_everything():
    """Needed before dropping privileges: the interpreter's library is unreadable for 'nobody'."""
    import exactly_lib
    warnings.simplefilter('ignore')
    for m in pkgutil.walk_packages(exactly_lib.__path__, 'exactly_lib.'):
        try:
            importlib.import_module(m.name)
        except Exception:
            pass
    for name in ('shlex', 'glob', 'fnmatch', 'filecmp', 'difflib', 'stat', 'tempfile', 'shutil', 'subprocess',
                 'xml.etree.ElementTree', 'xml.dom.minidom', 'datetime', 'platform', 'signal', 'ast', 'textwrap',
                 'json', 'random', 'string', 'html', 'html.parser', 'types', 'enum', 'pathlib', 'argparse',
                 'encodings.idna', 'encodings.utf_8', 'encodings.latin_1', 'encodings.ascii', 'codecs',
                 'unicodedata', 'copy', 'io', 'functools', 'itertools', 'operator', 'collections', 'abc',
                 're', 'sre_compile', 'sre_parse', 'sre_constants', 'locale', 'time', 'errno', 'select',
                 'selectors', 'threading', '_posixsubprocess', 'contextlib', 'traceback', 'linecache', 'tokenize'):
        try:
            importlib.import_module(name)
        except Exception:
            pass


def _worker_main(conn, wid: int, scratch: str, unprivileged: bool, init: Optional[str]):
    try:
        sys.path.insert(0, os.path.join(REPO, 'src'))
        sys.path.insert(0, VERIF)
        warnings.simplefilter('ignore')
        sys.dont_write_bytecode = True
        os.environ.pop('EXACTLY_VERIF_TRACE', None)
        wdir = os.path.join(scratch, 'w%d' % wid)
        os.makedirs(wdir, exist_ok=True)
        from harness import inproc
        inproc.WORKER_DIR = wdir
        inproc.WORKER_ID = wid
        if init:
            _resolve(init)()
        if unprivileged:
            _preimport_everything()
            os.chmod(wdir, 0o777)
            p = wdir
            while p != '/':
                p = os.path.dirname(p)
                try:
                    os.chmod(p, os.stat(p).st_mode | 0o011)
                except OSError:
                    pass
            os.chown(wdir, NOBODY, NOBODY)
            os.setgroups([])
            os.setgid(NOBODY)
            os.setuid(NOBODY)
            os.environ['HOME'] = wdir
        inproc.UNPRIVILEGED = unprivileged
        funcs = {}
        conn.send(('ready', wid))
        while True:
            msg = conn.recv()
            if msg[0] == 'stop':
                break
            _, fname, chunk = msg
            f = funcs.get(fname)
            if f is None:
                f = funcs[fname] = _resolve(fname)
            for idx, task in chunk:
                try:
                    r = inproc.guarded(f, task)
                except BaseException:
                    r = {'harness_exception': traceback.format_exc()}
                conn.send(('res', idx, r))
            conn.send(('chunk-done',))
    except (EOFError, KeyboardInterrupt):
        pass
    except BaseException:
        try:
            conn.send(('fatal', traceback.format_exc()))
        except Exception:
            pass
    finally:
        os._exit(0)


class _W:
    def __init__(self, pool, wid):
        self.wid = wid
        parent, child = mp.Pipe()
        self.conn = parent
        self.proc = pool._ctx.Process(target=_worker_main,
                                      args=(child, wid, pool.scratch, pool.unprivileged, pool.init))
        self.proc.daemon = True
        self.proc.start()
        child.close()
        self.chunk = []  # remaining (idx, task) of the chunk in flight, in order
        self.last = time.time()
        self.ready = False

    def kill(self):
        try:
            self.proc.kill()
            self.proc.join(5)
        except Exception:
            pass
        try:
            self.conn.close()
        except Exception:
            pass


class Pool:
    def __init__(self, scratch: str, workers: int = 16, unprivileged: bool = False, init: Optional[str] = None):
        self.scratch = os.path.join(scratch, 'pool-%d' % int(time.time() * 1000))
        os.makedirs(self.scratch, exist_ok=True)
        if unprivileged:
            os.chmod(self.scratch, 0o755)
        self.n = workers
        self.unprivileged = unprivileged
        self.init = init
        self._ctx = mp.get_context('fork')
        self._next_wid = 0
        self.workers: List[_W] = []
        self.killed = 0
        for _ in range(workers):
            self._spawn()

    def _spawn(self):
        w = _W(self, self._next_wid)
        self._next_wid += 1
        self.workers.append(w)
        return w

    def map(self, func: str, tasks: list, deadline: float = 20.0, chunk: int = 8,
            progress: Optional[Callable[[int], None]] = None) -> list:
        n = len(tasks)
        results = [None] * n
        queue = list(enumerate(tasks))
        queue.reverse()  # pop from the end
        done = 0
        startup_deadline = 120.0 if self.unprivileged else 60.0
        while done < n:
            # hand out work
            for w in self.workers:
                if w.ready and not w.chunk and queue:
                    c = [queue.pop() for _ in range(min(chunk, len(queue)))]
                    w.chunk = c
                    w.last = time.time()
                    w.conn.send(('run', func, c))
            conns = {w.conn: w for w in self.workers}
            ready = mpc.wait(list(conns), timeout=0.25)
            for c in ready:
                w = conns[c]
                try:
                    while c.poll():
                        msg = c.recv()
                        w.last = time.time()
                        if msg[0] == 'ready':
                            w.ready = True
                        elif msg[0] == 'res':
                            _, idx, r = msg
                            results[idx] = r
                            done += 1
                            if w.chunk and w.chunk[0][0] == idx:
                                w.chunk.pop(0)
                            else:
                                w.chunk = [x for x in w.chunk if x[0] != idx]
                            if progress:
                                progress(done)
                        elif msg[0] == 'chunk-done':
                            w.chunk = []
                        elif msg[0] == 'fatal':
                            raise RuntimeError('worker failed: ' + msg[1])
                except (EOFError, ConnectionResetError, BrokenPipeError):
                    # the worker died (e.g. the program under test called os._exit or was killed)
                    self._replace(w, results, queue, reason='worker_died')
                    done = sum(1 for r in results if r is not None)
            now = time.time()
            for w in list(self.workers):
                if w.chunk and now - w.last > deadline:
                    self._replace(w, results, queue, reason='no_termination')
                    done = sum(1 for r in results if r is not None)
                elif not w.ready and now - w.last > startup_deadline:
                    raise RuntimeError('worker did not start')
                elif w.ready and not w.proc.is_alive() and not w.chunk:
                    self.workers.remove(w)
                    self._spawn()
        return results

    def _replace(self, w: _W, results, queue, reason: str):
        w.kill()
        self.killed += 1
        if w.chunk:
            idx, _ = w.chunk[0]
            if results[idx] is None:
                results[idx] = {reason: True}
            for it in reversed(w.chunk[1:]):
                if results[it[0]] is None:
                    queue.append(it)
        self.workers.remove(w)
        self._spawn()

    def close(self):
        for w in self.workers:
            try:
                w.conn.send(('stop',))
            except Exception:
                pass
        t = time.time()
        for w in self.workers:
            w.proc.join(max(0.1, 3 - (time.time() - t)))
            if w.proc.is_alive():
                w.kill()
        self.workers = []
        shutil.rmtree(self.scratch, ignore_errors=True)

    def __enter__(self):
        return self

    def __exit__(self, *a):
        self.close()
