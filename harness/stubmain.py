"""A MainProgram like the default one (public constructors only) whose instruction set has one more instruction in
every phase: `verif-stub ID [step=outcome ...]` - a scripted stub (harness/stubs.py).  This puts the section parser,
the processor and the reporter in the loop for fault scripts that real instructions cannot produce
(internal errors, raised hard errors, failures of any step at any position)."""
import io

from exactly_lib import program_info
from exactly_lib.cli import main_program
from exactly_lib.cli.test_case_def import TestCaseDefinitionForMainProgram
from exactly_lib.cli_default.program_modes import test_suite
from exactly_lib.cli_default.program_modes.test_case import builtin_symbols, default_instructions_setup, \
    test_case_handling_setup
from exactly_lib.common import instruction_name_and_argument_splitter
from exactly_lib.common.instruction_setup import SingleInstructionSetup
from exactly_lib.execution import sandbox_dir_resolving
from exactly_lib.processing.instruction_setup import TestCaseParsingSetup, InstructionsSetup
from exactly_lib.processing.parse.act_phase_source_parser import ActPhaseParser
from exactly_lib.section_document.element_parsers.instruction_parsers import InstructionParserThatConsumesCurrentLine
from exactly_lib.section_document.element_parsers.instruction_parser_exceptions import \
    SingleInstructionInvalidArgumentException

from harness import stubs

NAME = 'verif-stub'
ACTOR_NAME = 'verif-actor'
RECORDER = stubs.Recorder()
_CLASSES = {'conf': stubs.Conf, 'setup': stubs.Setup, 'ba': stubs.BA, 'assert': stubs.Assert, 'cleanup': stubs.Cleanup}


class _Parser(InstructionParserThatConsumesCurrentLine):
    def __init__(self, phase: str):
        self.phase = phase

    def _parse(self, rest_of_line: str):
        words = rest_of_line.split()
        if not words:
            raise SingleInstructionInvalidArgumentException('verif-stub: missing id')
        if words[0] == 'SYNTAX':
            raise SingleInstructionInvalidArgumentException('verif-stub: scripted syntax error')
        idx = int(words[0])
        script = dict(w.split('=') for w in words[1:])
        if self.phase == 'setup' and 'stdin' in script:
            return stubs.Setup(RECORDER, self.phase, idx, script, stdin_outcome=script['stdin'])
        return _CLASSES[self.phase](RECORDER, self.phase, idx, script)


class _ActorInstruction(stubs.ConfigurationPhaseInstruction):
    def __init__(self, script):
        self.script = script

    def main(self, builder):
        builder.set_actor(stubs.NameAndValue('verif stub actor', stubs.TheActor(RECORDER, self.script)))
        return stubs.svh.new_svh_success()


class _ActorParser(InstructionParserThatConsumesCurrentLine):
    def _parse(self, rest_of_line: str):
        return _ActorInstruction(dict(w.split('=') for w in rest_of_line.split()))


def _extend(d, phase):
    d = dict(d)
    d[NAME] = SingleInstructionSetup(_Parser(phase), None)
    if phase == 'conf':
        d[ACTOR_NAME] = SingleInstructionSetup(_ActorParser(), None)
    return d


def stub_main_program(mem_buff_size=None):
    d = default_instructions_setup.INSTRUCTIONS_SETUP
    setup = InstructionsSetup(_extend(d.config_instruction_set, 'conf'),
                              _extend(d.setup_instruction_set, 'setup'),
                              _extend(d.before_assert_instruction_set, 'ba'),
                              _extend(d.assert_instruction_set, 'assert'),
                              _extend(d.cleanup_instruction_set, 'cleanup'))
    return main_program.MainProgram(test_case_handling_setup.setup(),
                                    sandbox_dir_resolving.mk_tmp_dir_with_prefix(program_info.PROGRAM_NAME + '-'),
                                    TestCaseDefinitionForMainProgram(
                                        TestCaseParsingSetup(instruction_name_and_argument_splitter.splitter,
                                                             setup,
                                                             ActPhaseParser()),
                                        builtin_symbols.ALL,
                                    ),
                                    test_suite.test_suite_definition(),
                                    io.DEFAULT_BUFFER_SIZE if mem_buff_size is None else mem_buff_size)
