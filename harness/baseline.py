#!/venv/bin/python
"""Runs the repository's pinned baseline with the hook guard OFF and compares with /root/.vp/BASELINE.json:
every test listed under stable_pass must pass."""
import json
import os
import subprocess
import sys
import tempfile
import xml.etree.ElementTree as ET

REPO = os.environ.get('VERIF_REPO', '/repo')


def main() -> int:
    base = json.load(open('/root/.vp/BASELINE.json'))
    env = dict(os.environ)
    env.pop('EXACTLY_VERIF_TRACE', None)
    d = tempfile.mkdtemp(prefix='vf-baseline-')
    xml = os.path.join(d, 'junit.xml')
    env['TMPDIR'] = d
    cmd = base['cmd'].replace('<file>', xml).replace('cd /repo', 'cd ' + REPO)
    p = subprocess.run(cmd, shell=True, env=env, stdout=subprocess.PIPE, stderr=subprocess.STDOUT, text=True)
    passed = set()
    try:
        for tc in ET.parse(xml).getroot().iter('testcase'):
            if not any(ch.tag in ('failure', 'error', 'skipped') for ch in tc):
                passed.add('%s::%s' % (tc.get('classname'), tc.get('name')))
    except Exception as ex:
        print(p.stdout[-2000:])
        print('cannot read junit xml: %s' % ex)
        return 2
    finally:
        subprocess.run(['rm', '-rf', d])
    missing = [t for t in base['stable_pass'] if t not in passed]
    print('baseline with guard off: %d of %d stable tests pass' % (len(base['stable_pass']) - len(missing),
                                                                    len(base['stable_pass'])))
    for t in missing[:20]:
        print('  NOT PASSING: ' + t)
    return 1 if missing else 0


if __name__ == '__main__':
    sys.exit(main())
