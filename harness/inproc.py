"""Worker-side helpers: run the real program in process, confined to a fresh directory."""
import io
import os
import shutil
import stat
import sys
import tempfile
import traceback
from typing import Dict, List, Optional

WORKER_DIR = None
WORKER_ID = 0
UNPRIVILEGED = False
_case_counter = 0


class CaseDir:
    """Fresh directory for one task: <root>/home (test case files), <root>/tmp (TMPDIR, sandboxes),
    <root>/out (markers written by probes)."""

    def __init__(self, root: str):
        self.root = root
        self.home = os.path.join(root, 'home')
        self.tmp = os.path.join(root, 'tmp')
        self.out = os.path.join(root, 'out')
        for d in (self.home, self.tmp, self.out):
            os.makedirs(d)

    def write(self, files: Dict[str, str], base: Optional[str] = None, mode: Optional[Dict[str, int]] = None):
        base = base or self.home
        for rel, text in files.items():
            p = os.path.join(base, rel)
            os.makedirs(os.path.dirname(p), exist_ok=True)
            if isinstance(text, bytes):
                with open(p, 'wb') as fh:
                    fh.write(text)
            else:
                with open(p, 'w', encoding='utf-8', newline='') as fh:
                    fh.write(text)
            if mode and rel in mode:
                os.chmod(p, mode[rel])

    def sandboxes(self) -> List[str]:
        return sorted(x for x in os.listdir(self.tmp) if x.startswith('exactly-'))


def _force_rmtree(path: str):
    def onerror(func, p, exc):
        try:
            os.chmod(os.path.dirname(p), 0o700)
            os.chmod(p, 0o700)
            func(p)
        except Exception:
            pass

    try:
        shutil.rmtree(path)
        return
    except OSError:
        pass
    for dp, dns, fns in os.walk(path):
        try:
            os.chmod(dp, 0o700)
        except OSError:
            pass
    shutil.rmtree(path, onerror=onerror)


def guarded(f, task):
    """Run one task function in a fresh CaseDir; restore process state afterwards."""
    global _case_counter
    _case_counter += 1
    root = os.path.join(WORKER_DIR, 'c%d' % _case_counter)
    os.makedirs(root)
    cd = CaseDir(root)
    cwd0 = os.getcwd()
    env0 = dict(os.environ)
    tmp0 = tempfile.tempdir
    tempfile.tempdir = cd.tmp
    os.environ['TMPDIR'] = cd.tmp
    try:
        return f(task, cd)
    finally:
        tempfile.tempdir = tmp0
        try:
            os.chdir(cwd0)
        except OSError:
            os.chdir('/')
        os.environ.clear()
        os.environ.update(env0)
        try:
            _force_rmtree(root)
        except Exception:
            pass


_MAIN_PROGRAM = None


def default_main_program(fresh: bool = True):
    global _MAIN_PROGRAM
    from exactly_lib.cli_default.default_main_program_setup import default_main_program as dmp
    if fresh or _MAIN_PROGRAM is None:
        _MAIN_PROGRAM = dmp()
    return _MAIN_PROGRAM


def main_program_with(mem_buff_size: Optional[int] = None):
    """A MainProgram built with the public constructors, as default_main_program does, with another buffer size."""
    from exactly_lib import program_info
    from exactly_lib.cli import main_program
    from exactly_lib.cli.test_case_def import TestCaseDefinitionForMainProgram
    from exactly_lib.cli_default.program_modes import test_suite
    from exactly_lib.cli_default.program_modes.test_case import builtin_symbols, default_instructions_setup, \
        test_case_handling_setup
    from exactly_lib.common import instruction_name_and_argument_splitter
    from exactly_lib.execution import sandbox_dir_resolving
    from exactly_lib.processing.instruction_setup import TestCaseParsingSetup
    from exactly_lib.processing.parse.act_phase_source_parser import ActPhaseParser
    return main_program.MainProgram(test_case_handling_setup.setup(),
                                    sandbox_dir_resolving.mk_tmp_dir_with_prefix(program_info.PROGRAM_NAME + '-'),
                                    TestCaseDefinitionForMainProgram(
                                        TestCaseParsingSetup(instruction_name_and_argument_splitter.splitter,
                                                             default_instructions_setup.INSTRUCTIONS_SETUP,
                                                             ActPhaseParser()),
                                        builtin_symbols.ALL,
                                    ),
                                    test_suite.test_suite_definition(),
                                    io.DEFAULT_BUFFER_SIZE if mem_buff_size is None else mem_buff_size)


def run_main(argv: List[str], cd: CaseDir, cwd: Optional[str] = None, main_program=None,
             trace: bool = False, env: Optional[Dict[str, str]] = None, tag: str = '', bare: bool = False) -> dict:
    """Run MainProgram.execute(argv) in process with real files as output streams.

    Returns exit code, stdout, stderr, an escaping exception (if any), and what the process state looked
    like afterwards (cwd, changed environment variables)."""
    from exactly_lib.util.file_utils.std import StdOutputFiles
    mp = main_program if main_program is not None else default_main_program()
    out_p = os.path.join(cd.root, 'stdout%s.txt' % tag)
    err_p = os.path.join(cd.root, 'stderr%s.txt' % tag)
    cwd = cwd or cd.home
    os.chdir(cwd)
    env_before = dict(os.environ)
    saved_env = None
    if bare:                  # the environment of the process is `env` and nothing else
        saved_env = dict(os.environ)
        os.environ.clear()
        env_before = {}
    trace_p = None
    if env:
        os.environ.update(env)
        env_before = dict(os.environ)
    if trace:
        trace_p = os.path.join(cd.root, 'trace%s.ndjson' % tag)
        os.environ['EXACTLY_VERIF_TRACE'] = trace_p
        env_before = dict(os.environ)
    res = {'exit': None, 'exception': None}
    with open(out_p, 'w', encoding='utf-8') as out, open(err_p, 'w', encoding='utf-8') as err:
        try:
            res['exit'] = mp.execute(list(argv), StdOutputFiles(out, err))
        except SystemExit as ex:
            res['exception'] = 'SystemExit(%r)' % (ex.code,)
        except BaseException as ex:
            res['exception'] = '%s: %s' % (type(ex).__name__, str(ex)[:300])
            res['traceback'] = traceback.format_exc()[-1500:]
    try:
        res['cwd_after'] = os.getcwd()
    except FileNotFoundError:          # the process was left in a directory that no longer exists
        res['cwd_after'] = '(removed directory)'
    res['cwd_before'] = os.path.realpath(cwd)
    env_after = dict(os.environ)
    res['env_changed'] = sorted(k for k in set(env_before) | set(env_after)
                                if env_before.get(k) != env_after.get(k))
    os.environ.pop('EXACTLY_VERIF_TRACE', None)
    if saved_env is not None:
        os.environ.clear()
        os.environ.update(saved_env)
    with open(out_p, encoding='utf-8', errors='replace', newline='') as fh:
        res['stdout'] = fh.read()
    with open(err_p, encoding='utf-8', errors='replace', newline='') as fh:
        res['stderr'] = fh.read()
    if trace_p:
        res['trace'] = read_trace(trace_p)
    return res


def read_trace(path: str) -> list:
    import json
    evs = []
    if os.path.exists(path):
        with open(path) as fh:
            for line in fh:
                line = line.strip()
                if line:
                    evs.append(json.loads(line))
    return evs


def tree_snapshot(root: str, with_contents: bool = True, max_bytes: int = 4096) -> dict:
    """{relative path: 'd' | 'l:<target>' | 'f:<contents>'} for everything under root."""
    snap = {}
    for dp, dns, fns in os.walk(root):
        for n in list(dns):
            p = os.path.join(dp, n)
            rel = os.path.relpath(p, root)
            if os.path.islink(p):
                snap[rel] = 'l:' + os.readlink(p)
                dns.remove(n)
            else:
                snap[rel] = 'd'
        for n in fns:
            p = os.path.join(dp, n)
            rel = os.path.relpath(p, root)
            if os.path.islink(p):
                snap[rel] = 'l:' + os.readlink(p)
            elif with_contents:
                try:
                    with open(p, 'rb') as fh:
                        snap[rel] = 'f:' + fh.read(max_bytes).decode('utf-8', 'replace')
                except OSError as ex:
                    snap[rel] = 'f?'
            else:
                snap[rel] = 'f'
    return snap
