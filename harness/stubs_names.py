"""Names of executor steps as the real program prints them (str(PhaseStep)); no exactly_lib import needed."""
STEP_NAME = {
    ('main', 'conf'): 'conf/9:main',
    ('parse', 'act'): 'act/0:act-parse',
    ('exeinput', 'act'): 'act/4:act-validate-exe-input',
    ('prepare', 'act'): 'act/5:act-prepare',
    ('execute', 'act'): 'act/6:act-execute',
}
PHASE_NAME = {'setup': 'setup', 'act': 'act', 'ba': 'before-assert', 'assert': 'assert', 'cleanup': 'cleanup',
              'conf': 'conf'}
for _p, _pn in PHASE_NAME.items():
    if _p == 'conf':
        continue
    STEP_NAME[('sym', _p)] = _pn + '/1:validate-symbols'
    STEP_NAME[('pre', _p)] = _pn + '/2:validate-pre-sds'
    STEP_NAME[('post', _p)] = _pn + '/3:validate-post-setup'
    if _p != 'act':
        STEP_NAME[('main', _p)] = _pn + '/9:main'
NAME_STEP = {v: k for k, v in STEP_NAME.items()}
