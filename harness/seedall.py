#!/venv/bin/python
"""Regression over the stored seeded changes: every seeded/<name> is applied to a scratch worktree again and the
checks that caught it are re-run (quick tier); reports every change that is no longer caught.
  seedall.py [LANES] [NAME-PREFIX ...]       Not a registered check."""
import glob
import json
import os
import subprocess
import sys
from concurrent.futures import ThreadPoolExecutor

VERIF = os.path.dirname(os.path.dirname(os.path.abspath(__file__)))


def one(d):
    name = os.path.basename(d)
    m = json.load(open(os.path.join(d, 'meta.json')))
    checks = [c for c, x in m.get('verification', {}).get('checks', {}).items() if x['exit'] == 1] or \
        list(m.get('verification', {}).get('checks', {}))
    demo = 'demo.py' if os.path.exists(os.path.join(d, 'demo.py')) else 'demo.sh'
    p = subprocess.run(['/venv/bin/python', os.path.join(VERIF, 'harness', 'seedcheck.py'), d, 'patch.diff', demo, name]
                       + checks[:1], stdout=subprocess.PIPE, stderr=subprocess.STDOUT, text=True,
                       env=dict(os.environ, SEED_SKIP_BASELINE='1'))
    try:
        o = json.loads(p.stdout[p.stdout.index('{'):])
        caught = [c for c, x in o['checks'].items() if x['exit'] == 1]
        line = '%s confirmed=%s caught_by=%s %s' % (name, o['confirmed'], caught,
                                                     {c: x['exit'] for c, x in o['checks'].items() if x['exit'] != 1})
        ok = bool(caught) and o['confirmed']
    except Exception as ex:
        line, ok = '%s ERROR %s %s' % (name, ex, p.stdout[-300:]), False
    print(('OK   ' if ok else 'LOST ') + line, flush=True)
    return ok


def main():
    lanes = int(sys.argv[1]) if len(sys.argv) > 1 else 3
    prefixes = sys.argv[2:]
    dirs = [d for d in sorted(glob.glob(os.path.join(VERIF, 'seeded', '*')))
            if not prefixes or any(os.path.basename(d).startswith(p) for p in prefixes)]
    with ThreadPoolExecutor(lanes) as ex:
        res = list(ex.map(one, dirs))
    print('SEEDALL: %d changes, %d no longer caught' % (len(res), res.count(False)))
    return 1 if False in res else 0


if __name__ == '__main__':
    sys.exit(main())
