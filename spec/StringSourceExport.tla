------------------------- MODULE StringSourceExport -------------------------
EXTENDS StringSource, Json
Export == Done =>
   PrintT(<<"CASE", ToJson([unit |-> text.unit, reps |-> text.reps, kind |-> kind, chain |-> chain, mem |-> mem,
                            obs |-> [j \in 1..Len(hist) |-> hist[j][1]], numLines |-> NumLines(Value), tailLines |-> TailLines(Value), headLines |-> HeadLines(Value), firstLine |-> FirstLine(Value), onlyFirst |-> IsOnlyFirstLine(Value),
                            len |-> TextLen(Value), repr |-> repr])>>)
=============================================================================
