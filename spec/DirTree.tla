------------------------------ MODULE DirTree ------------------------------
(***************************************************************************)
(* C15: directory trees - populating a directory from a FILE-LIST and      *)
(* matching directory contents with files-matchers / file-matchers.        *)
(*                                                                         *)
(* The file system is a function from paths to nodes.  A path is a         *)
(* sequence of name components (small naturals); <<>> is the directory in  *)
(* which the populated / tested directory D = <<DName>> lives.             *)
(*                                                                         *)
(* Processes (state + named actions, one action per step the code takes):  *)
(*   Populate   `dir D (=|+=) FILES-SOURCE`: validation of all file names, *)
(*              then one action per FILE-SPEC, nested lists on a stack,    *)
(*              HardError on a clash / missing target                      *)
(*   Generate   the breadth-first generator of `-recursive` with min / max *)
(*              depth and pruning: one action per visited directory entry  *)
(* Data (recursive operators): the denotation of a FILE-LIST (a fold), the *)
(* reference set of files of a model, the files-matchers and file-matchers *)
(* (four valued: T, F, H = HARD_ERROR, U = depends on the unspecified      *)
(* directory iteration order), glob patterns and file name parts.          *)
(*                                                                         *)
(* Scenario families (chosen in Init):                                     *)
(*   populate  a FILE-LIST of at most MaxEntries entries, then the         *)
(*             generator on the result (round trip)                        *)
(*             (also: into a directory that already holds files and links) *)
(*   invalid   a FILE-LIST with an invalid name somewhere                  *)
(*   match     a prepared tree (regular files, directories, symbolic links)*)
(*             x options x pruning / selection                             *)
(*   given     as match, for trees read from a file (randomised tier);     *)
(*             givenlist: as populate, for FILE-LISTs read from a file     *)
(*   exists    a prepared tree x a path, for the `exists` instruction      *)
(*   names     a file name text, for name / stem / suffixes / suffix       *)
(***************************************************************************)
EXTENDS Naturals, Integers, Sequences, FiniteSets, TLC, SequencesExt, FiniteSetsExt, Json, IOUtils

CONSTANTS
  NN,           \* file names in prepared trees are 1..NN
  MaxLevels,    \* prepared trees: at most this many levels below D
  MaxNodes,     \* prepared trees: every tree with at most this many nodes
  ExtraNodes,   \* ... plus a slice of the trees with exactly this many nodes (0: none)
  ExtraMod, ExtraPick,   \* the slice: index % ExtraMod = ExtraPick
  LeafKinds,    \* kinds a leaf of a prepared tree may have: subset of {"f","g","d","lf","ld","lb"}
  MaxLinks,     \* at most this many symbolic links per prepared tree
  MaxEntries,   \* FILE-LISTs with at most this many entries (nested entries counted) ...
  ListMod, ListPick,     \* ... of those with exactly MaxEntries entries the slice hash % ListMod = ListPick
  MaxTail,      \* ... of those that fail: at most this many entries after the failing one
  MaxNameLen,   \* names family: texts over {a, b, .} up to this length
  WrapLevel,    \* 1: the basic pruning / selection combinations, 2: all of them
  Families,     \* scenario families explored by this run
  NShards, Shard,   \* export in slices: only scenarios whose key % NShards = Shard
  AnyOrder,     \* TRUE: the generator visits the entries of a directory in every order
  Deviations    \* named deviations (empty whenever a property is checked)

\* ---------------------------------------------------------------------------------------------
\* paths, nodes, trees
\* ---------------------------------------------------------------------------------------------
DName   == 7      \* the populated / tested directory
DotDot  == 0      \* the component `..` of a FILE-NAME
AbsMark == 9      \* a leading `/` of a FILE-NAME; <<9>> is also "somewhere outside"
ScName  == 6      \* the file whose name is the scenario's text (names family)
Absent  == 5      \* a name that no prepared tree contains
D       == <<DName>>

DirNode        == [k |-> "d", c |-> <<>>]
FileNode(text) == [k |-> "f", c |-> text]
NodeOfKind(kd) == CASE kd = "f"  -> FileNode(<<>>)
                    [] kd = "g"  -> FileNode(<<1>>)
                    [] kd = "d"  -> DirNode
                    [] kd = "lf" -> [k |-> "lf", c |-> <<7>>]    \* link to a regular file with contents "7"
                    [] kd = "ld" -> [k |-> "ld", c |-> <<>>]     \* link to a directory outside the tree
                    [] kd = "lb" -> [k |-> "lb", c |-> <<>>]     \* broken link
LinkKinds == {"lf", "ld", "lb"}
IsDirLike(n) == n.k \in {"d", "ld"}      \* symbolic links followed
IsRegLike(n) == n.k \in {"f", "lf"}
IsLink(n)    == n.k \in LinkKinds

Prefix(p, i)    == SubSeq(p, 1, i)
IsPrefixOf(r, p) == Len(r) <= Len(p) /\ Prefix(p, Len(r)) = r
Under(t, r)     == {p \in DOMAIN t : Len(p) > Len(r) /\ IsPrefixOf(r, p)}
Children(t, r)  == {p \in DOMAIN t : Len(p) = Len(r) + 1 /\ IsPrefixOf(r, p)}
RelOf(r, p)     == SubSeq(p, Len(r) + 1, Len(p))
DepthIn(r, p)   == Len(p) - Len(r) - 1           \* depth 0 = the direct contents of r
Between(r, p)   == {Prefix(p, i) : i \in (Len(r) + 1)..(Len(p) - 1)}   \* proper ancestors of p below r

\* ---------------------------------------------------------------------------------------------
\* matcher syntax (abstract): records; families are SEQUENCES (records of different shapes are never
\* put into one set)
\* ---------------------------------------------------------------------------------------------
Opt(rec, mn, mx) == [rec |-> rec, min |-> mn, max |-> mx]     \* -1: no limit
NonRec == Opt(FALSE, -1, -1)
RecAll == Opt(TRUE, -1, -1)

TmEmpty     == [op |-> "is-empty"]
TmEquals(t) == [op |-> "equals", t |-> t]

FmNone            == [op |-> "none"]
FmConst(b)        == [op |-> "const", b |-> b]
FmType(t)         == [op |-> "type", t |-> t]
FmPart(pt, kd, pat) == [op |-> "part", part |-> pt, kind |-> kd, pat |-> pat]   \* kind: "glob" | "re" (= the literal)
FmName(n)         == FmPart("name", "glob", <<n>>)
FmPath(rel)       == [op |-> "path", rel |-> rel]
\* path GLOB-PATTERN with a pattern of several components, written D/g1/../gn: the LAST n + 1 components of the path
\* match it component by component - a wildcard never matches the separator
FmPathG(pat)      == [op |-> "pathg", pat |-> pat]
FmContents(tm)    == [op |-> "contents", tm |-> tm]
FmDirContents(o, m) == [op |-> "dir-contents", opt |-> o, m |-> m]
FmNot(a)          == [op |-> "not", a |-> a]
FmAnd(a, b)       == [op |-> "and", a |-> a, b |-> b]
FmOr(a, b)        == [op |-> "or", a |-> a, b |-> b]

FsEmpty           == [op |-> "is-empty"]
FsNum(cmp, n)     == [op |-> "num-files", cmp |-> cmp, n |-> n]
FsMatches(full, cond) == [op |-> "matches", full |-> full, cond |-> cond]   \* cond: Seq([rel, fm])
FsEvery(fm)       == [op |-> "every", fm |-> fm]
FsAny(fm)         == [op |-> "any", fm |-> fm]
FsSel(fm, m)      == [op |-> "selection", fm |-> fm, m |-> m]
FsPruned(fm, m)   == [op |-> "pruned", fm |-> fm, m |-> m]
FsNot(a)          == [op |-> "not", a |-> a]
FsAnd(a, b)       == [op |-> "and", a |-> a, b |-> b]      \* every operand looks at the same set of files
FsOr(a, b)        == [op |-> "or", a |-> a, b |-> b]

\* ---------------------------------------------------------------------------------------------
\* glob patterns and file name parts (texts are sequences of characters 1 a, 2 b, 3 c, 4 ".", 5 z)
\* ---------------------------------------------------------------------------------------------
Chars == 1..5
Dot   == 4
Star  == 10     \* "*"   any number of any characters including none
QMark == 11     \* "?"   any single character
SetAB == 12     \* "[ab]"
NotA  == 13     \* "[!a]"
GSet(e) == CASE e \in Chars -> {e} [] e = QMark -> Chars [] e = SetAB -> {1, 2} [] e = NotA -> Chars \ {1}

RECURSIVE GM(_, _, _, _)
GM(pat, i, s, j) ==
  IF i > Len(pat) THEN j > Len(s)
  ELSE IF pat[i] = Star THEN \E k \in j..(Len(s) + 1) : GM(pat, i + 1, s, k)
  ELSE j <= Len(s) /\ s[j] \in GSet(pat[i]) /\ GM(pat, i + 1, s, j + 1)
Glob(pat, s) == GM(pat, 1, s, 1)

Dots(s)      == {i \in 1..Len(s) : s[i] = Dot}
FirstDot(s)  == CHOOSE i \in Dots(s) : \A j \in Dots(s) : i <= j
LastDot(s)   == CHOOSE i \in Dots(s) : \A j \in Dots(s) : i >= j
\* the manual's table: a.tar.gz -> a / .tar.gz / .gz;  f -> f / "" / "";  f. -> f / . / .;  .x.y -> "" / .x.y / .y
NStem(s)      == IF Dots(s) = {} THEN s ELSE SubSeq(s, 1, FirstDot(s) - 1)
NSuffixes(s)  == IF Dots(s) = {} THEN <<>> ELSE SubSeq(s, FirstDot(s), Len(s))
NSuffix(s)    == IF Dots(s) = {} THEN <<>> ELSE SubSeq(s, LastDot(s), Len(s))
PartOf(pt, s) == CASE pt = "name" -> s [] pt = "stem" -> NStem(s) [] pt = "suffixes" -> NSuffixes(s)
                   [] pt = "suffix" -> NSuffix(s)

\* ---------------------------------------------------------------------------------------------
\* state
\* ---------------------------------------------------------------------------------------------
VARIABLES
  fam,      \* scenario family
  sc,       \* the scenario's parameters (constant during a behaviour)
  tree,     \* the file system
  phase,    \* "validate" | "populate" | "idle" | "generate" | "done"
  stack,    \* Populate: frames [base, rest] of the lists being applied
  cnt,      \* Populate: number of FILE-SPECs applied so far (the next one writes the text <<cnt>>)
  result,   \* Populate: "-" | "PASS" | "HARD_ERROR" | "VALIDATION_ERROR"
  exact,    \* Populate: FALSE if the tree left behind by a HARD_ERROR depends on directory iteration order
  queue,    \* Generate: directories still to be read [p, d]
  cur,      \* Generate: the directory being read
  pend,     \* Generate: entries of cur not yet visited
  out       \* Generate: the files generated so far
vars == <<fam, sc, tree, phase, stack, cnt, result, exact, queue, cur, pend, out>>

NameText(n) == IF n = ScName /\ fam = "names" THEN sc.text ELSE <<n>>

\* ---------------------------------------------------------------------------------------------
\* reference semantics of the matchers: "T" | "F" | "H" (HARD_ERROR) | "U" (order dependent)
\* ---------------------------------------------------------------------------------------------
B4(b) == IF b THEN "T" ELSE "F"
Not4(v) == CASE v = "T" -> "F" [] v = "F" -> "T" [] OTHER -> v
\* every element is looked at, in an unspecified order, until the first that is not T
Every4(V) == IF V \subseteq {"T"} THEN "T" ELSE IF V \subseteq {"T", "F"} THEN "F"
             ELSE IF V \subseteq {"T", "H"} THEN "H" ELSE "U"
Any4(V)   == IF V \subseteq {"F"} THEN "F" ELSE IF V \subseteq {"T", "F"} THEN "T"
             ELSE IF V \subseteq {"F", "H"} THEN "H" ELSE "U"

EvalTM(tm, text) == CASE tm.op = "is-empty" -> B4(text = <<>>)
                      [] tm.op = "equals"   -> B4(text = tm.t)

Cmp(cmp, a, b) == CASE cmp = "==" -> a = b [] cmp = "!=" -> a # b [] cmp = "<=" -> a <= b [] cmp = ">=" -> a >= b
                    [] cmp = "<" -> a < b [] cmp = ">" -> a > b

WithinLimits(o, d) == (o.min = -1 \/ d >= o.min) /\ (o.max = -1 \/ d <= o.max)

\* a model: [root, opt, sel (conjunction, applied to every generated file), prune (disjunction, applied to
\* directories)]
Ctx(root, o, sel, prune) == [root |-> root, opt |-> o, sel |-> sel, prune |-> prune]

\* The mutually recursive definitions are ONE recursive operator with a selector (TLC's coverage model
\* unfolds every call path through distinct operators; through a single operator it stays small):
\*   Ev("fm", file-matcher, t, path)       the value of a file-matcher on a file
\*   Ev("fs", files-matcher, t, model)     the value of a files-matcher on a model
\*   Ev("pruned", matchers, t, path)       is the directory pruned (disjunction)
\*   Ev("gen", <<>>, t, model)             the files of the model before selection
\*   Ev("files", <<>>, t, model)           the files of the model
\*   Ev("defined", <<>>, t, model)         selection and pruning matchers give T or F wherever they are applied
\*                                         (the semantics is only stated for such models: invariant WrapsDefined)
RECURSIVE Ev(_, _, _, _)
Ev(w, m, t, x) ==
  CASE w = "pruned" -> \E i \in 1..Len(m) : Ev("fm", m[i], t, x) = "T"
    \* THE DEFINITION of the files of a model: depth limits, and no proper ancestor (below the root) is pruned;
    \* the contents of symbolic links to directories are included (links are followed)
    [] w = "gen" ->
         {p \in Under(t, x.root) :
            IF x.opt.rec
            THEN /\ WithinLimits(x.opt, DepthIn(x.root, p))
                 /\ \A a \in Between(x.root, p) : ~Ev("pruned", x.prune, t, a)
            ELSE DepthIn(x.root, p) = 0}
    \* nested selections select from what the outer ones have selected: the matchers are applied outermost first, and
    \* a file that one of them excludes is not shown to the inner ones (which may be undefined for it)
    [] w = "sel" -> IF m = <<>> THEN "T"
                    ELSE LET v == Ev("fm", Head(m), t, x) IN IF v = "T" THEN Ev("sel", Tail(m), t, x) ELSE v
    [] w = "files" -> {p \in Ev("gen", <<>>, t, x) : Ev("sel", x.sel, t, p) = "T"}
    [] w = "defined" ->
         /\ \A p \in Ev("gen", <<>>, t, x) : Ev("sel", x.sel, t, p) \in {"T", "F"}
         /\ x.opt.rec => \A p \in Under(t, x.root) : IsDirLike(t[p]) =>
                            \A i \in 1..Len(x.prune) : Ev("fm", x.prune[i], t, p) \in {"T", "F"}
    [] w = "fm" ->
         LET n == t[x] IN
         (CASE m.op = "const" -> B4(m.b)
           [] m.op = "type" -> B4(CASE m.t = "file" -> IsRegLike(n) [] m.t = "dir" -> IsDirLike(n)
                                    [] m.t = "symlink" -> IsLink(n))
           [] m.op = "part" -> LET s == PartOf(m.part, NameText(x[Len(x)]))
                               IN  B4(IF m.kind = "re" THEN s = m.pat ELSE Glob(m.pat, s))
           [] m.op = "path" -> B4(RelOf(D, x) = m.rel)
           [] m.op = "pathg" -> LET r == RelOf(D, x)
                                IN  B4(Len(r) = Len(m.pat) /\ \A i \in 1..Len(r) : Glob(m.pat[i], NameText(r[i])))
           [] m.op = "contents" -> IF IsRegLike(n) THEN EvalTM(m.tm, n.c) ELSE "H"
           [] m.op = "dir-contents" -> IF IsDirLike(n) THEN Ev("fs", m.m, t, Ctx(x, m.opt, <<>>, <<>>)) ELSE "H"
           [] m.op = "not" -> Not4(Ev("fm", m.a, t, x))
           [] m.op = "and" -> LET a == Ev("fm", m.a, t, x) IN IF a = "T" THEN Ev("fm", m.b, t, x) ELSE a
           [] m.op = "or"  -> LET a == Ev("fm", m.a, t, x) IN IF a = "F" THEN Ev("fm", m.b, t, x) ELSE a)
    [] w = "fs" ->
         CASE m.op = "selection" -> Ev("fs", m.m, t, [x EXCEPT !.sel = Append(@, m.fm)])
           [] m.op = "pruned"    -> Ev("fs", m.m, t, [x EXCEPT !.prune = Append(@, m.fm)])
           [] m.op = "not"       -> Not4(Ev("fs", m.a, t, x))
           [] m.op = "and"       -> LET a == Ev("fs", m.a, t, x) IN IF a = "T" THEN Ev("fs", m.b, t, x) ELSE a
           [] m.op = "or"        -> LET a == Ev("fs", m.a, t, x) IN IF a = "F" THEN Ev("fs", m.b, t, x) ELSE a
           [] m.op = "const"     -> B4(m.b)
           [] OTHER ->
              LET F == Ev("files", <<>>, t, x) IN
              IF \E p \in Ev("gen", <<>>, t, x) : Ev("sel", x.sel, t, p) = "H" THEN "H" ELSE
              CASE m.op = "is-empty"  -> B4(F = {})
                [] m.op = "num-files" -> B4(Cmp(m.cmp, Cardinality(F), m.n))
                [] m.op = "every"     -> Every4({Ev("fm", m.fm, t, p) : p \in F})
                [] m.op = "any"       -> Any4({Ev("fm", m.fm, t, p) : p \in F})
                [] m.op = "matches"   ->
                     LET FR    == {RelOf(x.root, p) : p \in F}
                         names == {m.cond[i].rel : i \in 1..Len(m.cond)}
                         vals  == {Ev("fm", m.cond[i].fm, t, x.root \o m.cond[i].rel) :
                                     i \in {j \in 1..Len(m.cond) : m.cond[j].rel \in FR /\ m.cond[j].fm.op # "none"}}
                         holds == IF m.full THEN names = FR ELSE names \subseteq FR
                     IN  IF holds THEN Every4(vals)
                         ELSE IF vals \subseteq {"T", "F"} THEN "F" ELSE "U"

EvalFM(fm, t, p)       == Ev("fm", fm, t, p)
EvalFs(m, t, c)        == Ev("fs", m, t, c)
PrunedDir(t, prune, p) == Ev("pruned", prune, t, p)
RefGen(t, c)           == Ev("gen", <<>>, t, c)
Files(t, c)            == Ev("files", <<>>, t, c)
CtxDefined(t, c)       == Ev("defined", <<>>, t, c)

\* ---------------------------------------------------------------------------------------------
\* FILE-LISTs: entries [t: "file"|"dir", name, mod: "none"|"set"|"app", src: "none"|"text"|"list"|"copy", sub]
\* ---------------------------------------------------------------------------------------------
Entry(t, name, mod, src, sub) == [t |-> t, name |-> name, mod |-> mod, src |-> src, sub |-> sub]
PNames == {<<1>>, <<2>>, <<1, 2>>}                     \* a, b, a/b
BadNames == {<<>>, <<DotDot>>, <<DotDot, 1>>, <<1, DotDot>>, <<1, DotDot, 2>>, <<AbsMark, 1>>}
FileLeaves(names) == {Entry("file", n, m, IF m = "none" THEN "none" ELSE "text", <<>>) :
                         n \in names, m \in {"none", "set", "app"}}
DirLeaves(names)  == {Entry("dir", n, "none", "none", <<>>) : n \in names}
                     \cup {Entry("dir", n, m, s, <<>>) : n \in names, m \in {"set", "app"}, s \in {"list", "copy"}}
Leaves == FileLeaves(PNames) \cup DirLeaves(PNames)
DirOf(L) == {Entry("dir", n, m, "list", l) : n \in PNames, m \in {"set", "app"}, l \in L}
ConsAll(E, L) == {<<e>> \o l : e \in E, l \in L}

RECURSIVE ListHash(_)
ListHash(l) == IF l = <<>> THEN 1
               ELSE LET e == Head(l)
                    IN (Len(e.name) + 2 * (IF e.name = <<>> THEN 0 ELSE e.name[1]) + (IF e.t = "file" THEN 3 ELSE 0)
                        + (IF e.mod = "app" THEN 5 ELSE IF e.mod = "set" THEN 11 ELSE 0)
                        + (IF e.src = "copy" THEN 13 ELSE 0)
                        + 7 * ListHash(e.sub) + 31 * ListHash(Tail(l))) % 10007

\* lists with exactly s entries (nested entries counted); written out so that TLC computes each set once
L0 == {<<>>}
L1 == IF "populate" \in Families THEN ConsAll(Leaves, L0) ELSE {}
L2 == IF MaxEntries < 2 THEN {} ELSE ConsAll(Leaves, L1) \cup ConsAll(DirOf(L1), L0)
L3 == IF MaxEntries < 3 THEN {} ELSE ConsAll(Leaves, L2) \cup ConsAll(DirOf(L1), L1) \cup ConsAll(DirOf(L2), L0)
L4 == IF MaxEntries < 4 THEN {} ELSE ConsAll(Leaves, L3) \cup ConsAll(DirOf(L1), L2) \cup ConsAll(DirOf(L2), L1)
                                     \cup ConsAll(DirOf(L3), L0)
Sliced(s, L) == IF s < MaxEntries THEN L ELSE {l \in L : ListHash(l) % ListMod = ListPick}
AllLists == IF "populate" \in Families
            THEN L0 \cup Sliced(1, L1) \cup Sliced(2, L2) \cup Sliced(3, L3) \cup Sliced(4, L4) ELSE {}

TopEntry(mod, src, l) == Entry("dir", D, mod, src, l)
\* lists with an invalid name: alone, before / after an entry that works or that fails, and nested
BadLeaves == {Entry("file", n, "none", "none", <<>>) : n \in BadNames}
             \cup {Entry("file", n, "app", "text", <<>>) : n \in BadNames}
             \cup {Entry("dir", n, "none", "none", <<>>) : n \in BadNames}
             \cup {Entry("dir", n, "app", "list", <<>>) : n \in BadNames}
CtxLeaves == {Entry("file", <<1>>, "set", "text", <<>>), Entry("dir", <<1>>, "none", "none", <<>>),
              Entry("file", <<2>>, "app", "text", <<>>)}          \* the last one fails (no such file)
BadLists == ConsAll(BadLeaves, L0)
            \cup {<<c, b>> : c \in CtxLeaves, b \in BadLeaves} \cup {<<b, c>> : c \in CtxLeaves, b \in BadLeaves}
            \cup {<<Entry("dir", <<1>>, m, "list", <<b>>)>> : m \in {"set", "app"}, b \in BadLeaves}
            \cup {<<c, Entry("dir", <<2>>, "set", "list", <<b>>)>> : c \in CtxLeaves, b \in BadLeaves}
BadScenarios == {[top |-> TopEntry("set", "list", l), pre |-> FALSE] : l \in BadLists}

RECURSIVE NamesOf(_)
NamesOf(l) == IF l = <<>> THEN {} ELSE {Head(l).name} \cup NamesOf(Head(l).sub) \cup NamesOf(Tail(l))
InvalidName(n) == n = <<>> \/ \E i \in 1..Len(n) : n[i] \in {DotDot, AbsMark}

\* the directory copied by `dir-contents-of`:  a (file "8"),  b/  b/a (file "8")
SrcTree == (<<1>> :> FileNode(<<8>>)) @@ (<<2>> :> DirNode) @@ (<<2, 1>> :> FileNode(<<8>>))
SrcTop  == {p \in DOMAIN SrcTree : Len(p) = 1}

\* where a FILE-NAME leads (`..` and a leading `/` are interpreted as the operating system does)
RECURSIVE Resolve(_, _)
Resolve(base, name) ==
  IF name = <<>> THEN base
  ELSE LET c == Head(name)
           b == IF c = AbsMark THEN <<AbsMark>>
                ELSE IF c = DotDot THEN (IF base = <<>> \/ base = <<AbsMark>> THEN <<AbsMark>>
                                         ELSE Prefix(base, Len(base) - 1))
                ELSE Append(base, c)
       IN Resolve(b, Tail(name))

Ancestors(p)      == {Prefix(p, i) : i \in 0..(Len(p) - 1)}
\* a new path can be created: it does not exist and every existing ancestor is a directory
CanCreate(t, p)   == p \notin DOMAIN t /\ \A a \in Ancestors(p) : a \in DOMAIN t => t[a].k = "d"
WithParents(t, p) == t @@ [a \in Ancestors(p) \ DOMAIN t |-> DirNode]
MkNode(t, p, n)   == (p :> n) @@ WithParents(t, p)
IsDirAt(t, p)     == p \in DOMAIN t /\ t[p].k = "d"
IsFileAt(t, p)    == p \in DOMAIN t /\ t[p].k = "f"
\* "exists" is existence of the directory entry (symbolic links are not followed: a dangling link exists).
\* Deviation CopyClashFollowsLinks: the check follows links, a dangling link is overlooked and a regular file of
\* the source is then written THROUGH it - the link's target <<AbsMark, 8>> comes into being, outside D.
Overlooked(t, q)  == "CopyClashFollowsLinks" \in Deviations /\ q \in DOMAIN t /\ t[q].k = "lb"
CopyClashes(t, p) == \E s \in SrcTop : (p \o s) \in DOMAIN t /\ ~Overlooked(t, p \o s)
CopyInto(t, p)    == LET copied == t @@ [q \in {p \o s : s \in DOMAIN SrcTree} |-> SrcTree[RelOf(p, q)]]
                     IN IF \E s \in SrcTop : Overlooked(t, p \o s) /\ SrcTree[s].k = "f"
                        THEN copied @@ (<<AbsMark, 8>> :> FileNode(<<8>>)) ELSE copied

\* what an entry needs in order to be applicable
Applicable(t, e, p) ==
  CASE e.mod \in {"none", "set"} -> CanCreate(t, p)
    [] e.mod = "app" /\ e.t = "file" -> IsFileAt(t, p)
    [] e.mod = "app" /\ e.t = "dir" /\ e.src = "list" -> IsDirAt(t, p)
    [] e.mod = "app" /\ e.t = "dir" /\ e.src = "copy" -> IsDirAt(t, p) /\ ~CopyClashes(t, p)

\* ---- the denotation of a list: a fold over the entries, in order, stopping at the first failure ---------
RECURSIVE DenList(_, _, _)
DenList(l, base, st) ==
  IF ~st.ok \/ l = <<>> THEN st
  ELSE LET e  == Head(l)
           p  == Resolve(base, e.name)
           t  == st.tree
           s1 == [st EXCEPT !.n = @ + 1]
           after ==
             IF ~Applicable(t, e, p)
             THEN [s1 EXCEPT !.ok = FALSE,
                             !.exact = ~(e.t = "dir" /\ e.mod = "app" /\ e.src = "copy" /\ IsDirAt(t, p))]
             ELSE CASE e.t = "file" /\ e.mod = "none" -> [s1 EXCEPT !.tree = MkNode(t, p, FileNode(<<>>))]
                    [] e.t = "file" /\ e.mod = "set"  -> [s1 EXCEPT !.tree = MkNode(t, p, FileNode(<<st.n>>))]
                    [] e.t = "file" /\ e.mod = "app"  -> [s1 EXCEPT !.tree = [t EXCEPT ![p].c = @ \o <<st.n>>]]
                    [] e.t = "dir" /\ e.src = "none"  -> [s1 EXCEPT !.tree = MkNode(t, p, DirNode)]
                    [] e.t = "dir" /\ e.src = "copy"  ->
                         [s1 EXCEPT !.tree = CopyInto(IF e.mod = "set" THEN MkNode(t, p, DirNode) ELSE t, p)]
                    [] e.t = "dir" /\ e.src = "list"  ->
                         DenList(e.sub, p, [s1 EXCEPT !.tree = IF e.mod = "set" THEN MkNode(t, p, DirNode) ELSE t])
       IN DenList(Tail(l), base, after)

BareTree == (<<>> :> DirNode) @@ (<<AbsMark>> :> DirNode)
InitialTree(pre) == IF pre THEN BareTree @@ (D :> DirNode) ELSE BareTree
\* a scenario may say what D contains before the instruction (field init: a set of [p, k]): regular files,
\* directories and symbolic links - to a file / to a directory outside D, or to nothing ("lb", dangling)
InitOf(s) == IF "init" \in DOMAIN s
             THEN InitialTree(TRUE) @@ [p \in {x.p : x \in s.init} |-> NodeOfKind((CHOOSE x \in s.init : x.p = p).k)]
             ELSE InitialTree(s.pre)
Denotation(s) ==
  IF "NoNameValidation" \notin Deviations /\ \E n \in NamesOf(s.top.sub) : InvalidName(n)
  THEN [res |-> "VALIDATION_ERROR", tree |-> InitOf(s), exact |-> TRUE]
  ELSE LET st == DenList(<<s.top>>, <<>>, [tree |-> InitOf(s), n |-> 0, ok |-> TRUE, exact |-> TRUE])
       IN [res |-> IF st.ok THEN "PASS" ELSE "HARD_ERROR", tree |-> st.tree, exact |-> st.exact]

RECURSIVE NEntries(_)
NEntries(l) == IF l = <<>> THEN 0 ELSE 1 + NEntries(Head(l).sub) + NEntries(Tail(l))
\* A list that fails long before its end behaves as its prefix does: of the failing lists those are explored in
\* which at most MaxTail entries follow the failing one (they must not be applied).
StopsLate(s) ==
  LET st == DenList(<<s.top>>, <<>>, [tree |-> InitOf(s), n |-> 0, ok |-> TRUE, exact |-> TRUE])
  IN st.ok \/ st.n + MaxTail >= NEntries(<<s.top>>)
\* the instruction: `dir D = { list }` on a fresh place for every list; the other forms for the short lists
PopScenarios == {s \in
  {[top |-> TopEntry("set", "list", l), pre |-> FALSE] : l \in AllLists}
  \cup {[top |-> TopEntry(m, "list", l), pre |-> pr] : m \in {"set", "app"}, pr \in BOOLEAN,
                                                        l \in L0 \cup (IF MaxEntries > 1 THEN L1 ELSE {})}
  \cup {[top |-> TopEntry(m, "copy", <<>>), pre |-> pr] : m \in {"set", "app"}, pr \in BOOLEAN}
  \cup {[top |-> TopEntry("none", "none", <<>>), pre |-> pr] : pr \in BOOLEAN}
  : StopsLate(s)}

\* ---- populating a directory that already has contents, among them symbolic links -------------------------
\* D holds a regular file c and ONE entry of every kind (regular file, directory, link to a file, link to a
\* directory, dangling link) named like something the instruction is about to create: a or b (the copied source
\* has the file a and the directory b), directly in D or in the directory D/b.  Every such entry EXISTS: the copy
\* must report the clash, `file n` / `dir n` must fail, nothing may be written through the link.
PreKinds == {"f", "d", "lf", "ld", "lb"}
Other    == [p |-> <<DName, 3>>, k |-> "f"]
PreInits == {{[p |-> <<DName, n>>, k |-> kd], Other} : n \in {1, 2}, kd \in PreKinds}
            \cup {{[p |-> <<DName, 2>>, k |-> "d"], [p |-> <<DName, 2, n>>, k |-> kd], Other} : n \in {1, 2}, kd \in PreKinds}
PreEntries == UNION {{Entry("file", <<n>>, "none", "none", <<>>), Entry("file", <<n>>, "set", "text", <<>>),
                      Entry("file", <<n>>, "app", "text", <<>>), Entry("dir", <<n>>, "none", "none", <<>>),
                      Entry("dir", <<n>>, "set", "list", <<>>), Entry("dir", <<n>>, "set", "copy", <<>>),
                      Entry("dir", <<n>>, "app", "list", <<>>), Entry("dir", <<n>>, "app", "copy", <<>>)} : n \in {1, 2}}
FlatTops == {TopEntry("app", "copy", <<>>)} \cup {TopEntry("app", "list", <<e>>) : e \in PreEntries}
DeepTops == {TopEntry("app", "list", <<Entry("dir", <<2>>, "app", "list", <<e>>)>>) : e \in PreEntries}
\* += on a link to an EXISTING file / directory works on the link's target (the links are followed, as documented
\* for the check of the path): such scenarios say nothing about D and are left out
AppPaths(s) ==
  LET l == s.top.sub
  IN {D \o l[i].name : i \in {j \in 1..Len(l) : l[j].mod = "app"}}
     \cup UNION {{D \o l[i].name \o l[i].sub[k].name : k \in {j \in 1..Len(l[i].sub) : l[i].sub[j].mod = "app"}}
                 : i \in 1..Len(l)}
FollowsLink(s) == \E x \in s.init : x.k \in {"lf", "ld"} /\ x.p \in AppPaths(s)
PreScenarios ==
  IF "populate" \notin Families THEN {} ELSE
  {s \in {[top |-> t, pre |-> TRUE, init |-> i] : t \in FlatTops, i \in PreInits}
          \cup {[top |-> t, pre |-> TRUE, init |-> i] :
                  t \in DeepTops, i \in {j \in PreInits : [p |-> <<DName, 2>>, k |-> "d"] \in j}}
   : ~FollowsLink(s)}

\* ---------------------------------------------------------------------------------------------
\* prepared trees
\* ---------------------------------------------------------------------------------------------
KindsFor(m) == IF m = 0 THEN LeafKinds ELSE LeafKinds \cap {"d", "ld"}
\* sets of [p, k] with exactly n nodes below pre, using the names i..NN at this level, lv levels left
RECURSIVE Forests(_, _, _, _)
Forests(pre, i, lv, n) ==
  IF n = 0 THEN {{}}
  ELSE IF i > NN \/ lv = 0 THEN {}
  ELSE Forests(pre, i + 1, lv, n)
       \cup UNION {UNION {{{[p |-> Append(pre, i), k |-> kd]} \cup s \cup r :
                             s \in Forests(Append(pre, i), 1, lv - 1, m), r \in Forests(pre, i + 1, lv, n - 1 - m)}
                          : kd \in KindsFor(m)}
                   : m \in 0..(n - 1)}
FewLinks(ns) == Cardinality({x \in ns : x.k \in LinkKinds}) <= MaxLinks
NodeSetsOf(n) == {ns \in Forests(D, 1, MaxLevels, n) : FewLinks(ns)}
ExtraSets == IF ExtraNodes = 0 \/ "match" \notin Families THEN {}
             ELSE LET sq == SetToSeq(NodeSetsOf(ExtraNodes))
                  IN {sq[i] : i \in {j \in 1..Len(sq) : j % ExtraMod = ExtraPick}}
MatchNodeSets == IF "match" \in Families THEN UNION {NodeSetsOf(n) : n \in 0..MaxNodes} \cup ExtraSets ELSE {}
TreeOf(ns) == (D :> DirNode) @@ [p \in {x.p : x \in ns} |-> NodeOfKind((CHOOSE x \in ns : x.p = p).k)]
KindCode(k) == CASE k = "f" -> 1 [] k = "g" -> 2 [] k = "d" -> 3 [] k = "lf" -> 4 [] k = "ld" -> 5 [] k = "lb" -> 6
TreeHash(ns) == FoldSet(LAMBDA x, acc : (acc + 3 * Len(x.p) + 5 * x.p[Len(x.p)] + 7 * KindCode(x.k)) % 10007, 0, ns)
MaxDepth(t) == IF Under(t, D) = {} THEN 0 ELSE Max({DepthIn(D, p) : p \in Under(t, D)})

\* -recursive with every combination of limits up to one more than the deepest level of the tree
Limits(t)  == {-1} \cup 0..(MaxDepth(t) + 1)
AllOpts(t) == <<NonRec>> \o SetToSeq({Opt(TRUE, a, b) : a \in Limits(t), b \in Limits(t)})
\* with pruning: the limits that interact with it; with selection only (a filter on what is generated): three
PruneOpts  == <<RecAll, Opt(TRUE, 1, -1), Opt(TRUE, -1, 1), Opt(TRUE, 1, 1)>>
MoreOpts   == <<NonRec, Opt(TRUE, -1, 0), Opt(TRUE, 2, -1), Opt(TRUE, 0, 2)>>
SelOpts    == <<NonRec, RecAll, Opt(TRUE, 1, 1)>>
FlatOpts   == <<NonRec, RecAll>>

\* pruning and selection matchers (they give T or F wherever they are applied)
P1 == FmName(1)                                            \* name a
P2 == FmType("symlink")
P3 == FmDirContents(NonRec, FsNum("==", 1))                \* directories with exactly one entry
P4 == FmNot(FmName(1))
S1 == FmType("file")
S2 == FmName(1)
S3 == FmNot(FmType("dir"))
S4 == FmAnd(FmType("dir"), FmDirContents(NonRec, FsEmpty)) \* empty directories
S5 == FmOr(FmType("symlink"), FmName(2))
S6 == FmAnd(FmType("file"), FmContents(TmEmpty))           \* empty regular files
S7 == FmPathG(<< <<Star>>, <<Star>> >>)                     \* path D/*/*: what is exactly two levels down
S8 == FmPathG(<< <<1, Star>> >>)                           \* path D/a*: direct entries whose name begins with a
W(pr, se) == [pr |-> pr, se |-> se]
WrapsBasic == << W(<<>>, <<>>), W(<<P1>>, <<>>), W(<<P2>>, <<>>), W(<<P3>>, <<>>), W(<<>>, <<S1>>),
                 W(<<>>, <<S4>>), W(<<P1>>, <<S3>>), W(<<P1, P2>>, <<S1, S2>>), W(<<>>, <<S7>>) >>
WrapsMore  == << W(<<P4>>, <<>>), W(<<>>, <<S2>>), W(<<>>, <<S3>>), W(<<>>, <<S5>>), W(<<>>, <<S6>>),
                 W(<<P2>>, <<S1>>), W(<<P3>>, <<S5>>), W(<<P4, P3>>, <<S3, S5>>), W(<<>>, <<S5, S3>>),
                 W(<<P2, P1>>, <<>>), W(<<>>, <<S7>>), W(<<>>, <<S8>>) >>
Wraps == IF WrapLevel >= 2 THEN WrapsBasic \o WrapsMore ELSE WrapsBasic

\* ---- trees read from a file (randomised tier): records [nodes: Seq([p, k]), opt: [rec, min, max], wi] ------
GivenSeq == IF "given" \in Families THEN ndJsonDeserialize(IOEnv.VERIF_GIVEN) ELSE <<>>
GivenTree(g) == (D :> DirNode) @@ [p \in {g.nodes[i].p : i \in 1..Len(g.nodes)} |->
                                     NodeOfKind(g.nodes[CHOOSE i \in 1..Len(g.nodes) : g.nodes[i].p = p].k)]

\* ---- exists family --------------------------------------------------------------------------
Single(kd)       == (D :> DirNode) @@ (<<DName, 1>> :> NodeOfKind(kd))
WithChild(kd, c) == Single(kd) @@ (<<DName, 1, 1>> :> NodeOfKind(c))
ExistsTrees == << Single("f"), Single("g"), Single("d"), Single("lf"), Single("ld"), Single("lb"),
                  WithChild("d", "f"), WithChild("ld", "d"), WithChild("d", "lb"),
                  WithChild("d", "f") @@ (<<DName, 1, 2>> :> DirNode) @@ (<<DName, 1, 2, 1>> :> FileNode(<<>>)) >>
ExistsTargets == << <<DName, 1>>, <<DName, 2>>, <<DName, 1, 1>> >>
ExistsFms == << FmNone, FmType("file"), FmType("dir"), FmType("symlink"), FmContents(TmEmpty),
                FmContents(TmEquals(<<7>>)), FmDirContents(NonRec, FsEmpty), FmDirContents(RecAll, FsNum("==", 1)),
                FmDirContents(Opt(TRUE, 1, -1), FsNot(FsEmpty)), FmName(1), FmNot(FmType("file")),
                FmAnd(FmType("symlink"), FmType("dir")), FmOr(FmType("dir"), FmContents(TmEmpty)),
                FmPath(<<1>>), FmPath(<<1, 1>>), FmConst(FALSE),
                FmPathG(<< <<Star>> >>), FmPathG(<< <<Star>>, <<1>> >>), FmPathG(<< <<1, Star>> >>),
                FmPathG(<< <<QMark>>, <<Star>> >>),
                FmDirContents(RecAll, FsEvery(FmType("file"))), FmDirContents(RecAll, FsAny(FmContents(TmEmpty))) >>

\* ---- names family ---------------------------------------------------------------------------
NameChars == {1, 2, Dot}
RECURSIVE TextsOfLen(_)
TextsOfLen(n) == IF n = 0 THEN {<<>>} ELSE {Append(s, c) : s \in TextsOfLen(n - 1), c \in NameChars}
NameTexts == UNION {TextsOfLen(n) : n \in 1..MaxNameLen} \ {<<Dot>>, <<Dot, Dot>>}
GlobFamily == << <<Star>>, <<QMark>>, <<1, Star>>, <<Star, Dot, 1>>, <<QMark, Star>>, <<SetAB, Star>>,
                 <<NotA, Star>>, <<Star, Dot, Star>>, <<Dot, QMark>>, <<Star, 2>>, <<QMark, QMark>> >>
Parts == <<"name", "stem", "suffixes", "suffix">>

\* ---------------------------------------------------------------------------------------------
\* scenarios
\* ---------------------------------------------------------------------------------------------
InShard(key) == key % NShards = Shard
Idle == /\ stack = <<>> /\ cnt = 0 /\ result = "-" /\ exact = TRUE
        /\ queue = <<>> /\ cur = [p |-> <<>>, d |-> 0] /\ pend = {} /\ out = {}

InitPopulate ==
  /\ fam \in {"populate", "invalid"} \cap Families
  /\ sc \in (IF fam = "populate" THEN PopScenarios ELSE BadScenarios)
  /\ InShard((ListHash(sc.top.sub) \div ListMod) + (IF sc.pre THEN 1 ELSE 0))
  /\ tree = InitOf(sc)
  /\ phase = "validate" /\ Idle

InitPreExisting ==
  /\ fam = "populate" /\ fam \in Families
  /\ sc \in PreScenarios
  /\ InShard(TreeHash(sc.init) + ListHash(sc.top.sub))
  /\ tree = InitOf(sc)
  /\ phase = "validate" /\ Idle

InitMatch ==
  /\ fam = "match" /\ fam \in Families
  /\ \E ns \in MatchNodeSets :
       /\ tree = TreeOf(ns)
       /\ \E wi \in 1..Len(Wraps) :
            LET os == IF wi = 1 THEN AllOpts(tree)
                      ELSE IF MaxDepth(tree) = 0 THEN (IF Wraps[wi].pr = <<>> THEN FlatOpts ELSE <<>>)
                      ELSE IF Wraps[wi].pr = <<>> THEN SelOpts
                      ELSE IF WrapLevel >= 2 THEN PruneOpts \o MoreOpts ELSE PruneOpts
            IN \E oi \in 1..Len(os) : /\ InShard(TreeHash(ns) + 3 * wi + oi)
                                      /\ sc = [opt |-> os[oi], wi |-> wi]
  /\ phase = "idle" /\ Idle

\* FILE-LISTs read from a file (randomised tier): records [top: the entry `dir D ...`, pre]
GivenLists == IF "givenlist" \in Families THEN ndJsonDeserialize(IOEnv.VERIF_GIVEN_LISTS) ELSE <<>>
InitGivenList ==
  /\ "givenlist" \in Families /\ fam = "populate"
  /\ \E gi \in 1..Len(GivenLists) :
       /\ InShard(gi)
       /\ sc = [top |-> GivenLists[gi].top, pre |-> GivenLists[gi].pre, gi |-> gi]
  /\ tree = InitOf(sc)
  /\ phase = "validate" /\ Idle

InitGiven ==
  /\ fam = "given" /\ fam \in Families
  /\ \E gi \in 1..Len(GivenSeq) :
       /\ InShard(gi)
       /\ tree = GivenTree(GivenSeq[gi])
       /\ sc = [opt |-> GivenSeq[gi].opt, wi |-> GivenSeq[gi].wi, gi |-> gi]
  /\ phase = "idle" /\ Idle

InitExists ==
  /\ fam = "exists" /\ fam \in Families
  /\ \E ti \in 1..Len(ExistsTrees), gi \in 1..Len(ExistsTargets) :
       /\ InShard(ti + gi) /\ tree = ExistsTrees[ti] /\ sc = [target |-> ExistsTargets[gi]]
  /\ phase = "idle" /\ Idle

InitNames ==
  /\ fam = "names" /\ fam \in Families
  /\ \E s \in NameTexts : InShard(Len(s) + s[1] + s[Len(s)]) /\ sc = [text |-> s]
  /\ tree = (D :> DirNode) @@ (<<DName, ScName>> :> FileNode(<<>>))
  /\ phase = "idle" /\ Idle

Init == InitPopulate \/ InitPreExisting \/ InitMatch \/ InitGiven \/ InitGivenList \/ InitExists \/ InitNames

\* ---------------------------------------------------------------------------------------------
\* Populate
\* ---------------------------------------------------------------------------------------------
GenVars == <<queue, cur, pend, out>>
Top     == stack[1]
HeadE   == Head(Top.rest)
Target  == Resolve(Top.base, HeadE.name)
PopRest == [stack EXCEPT ![1].rest = Tail(@)]
Applying == phase = "populate" /\ stack # <<>> /\ Top.rest # <<>>

\* all FILE-NAMEs are checked before anything is created
Validate ==
  /\ phase = "validate"
  /\ IF "NoNameValidation" \notin Deviations /\ \E n \in NamesOf(sc.top.sub) : InvalidName(n)
     THEN phase' = "done" /\ result' = "VALIDATION_ERROR" /\ UNCHANGED stack
     ELSE phase' = "populate" /\ stack' = <<[base |-> <<>>, rest |-> <<sc.top>>]>> /\ UNCHANGED result
  /\ UNCHANGED <<fam, sc, tree, cnt, exact, GenVars>>

Step(t2, st2) == /\ tree' = t2 /\ stack' = st2 /\ cnt' = cnt + 1
                 /\ UNCHANGED <<fam, sc, phase, result, exact, GenVars>>

CreateFile ==
  /\ Applying /\ HeadE.t = "file" /\ HeadE.mod \in {"none", "set"} /\ CanCreate(tree, Target)
  /\ Step(MkNode(tree, Target, FileNode(IF HeadE.mod = "set" THEN <<cnt>> ELSE <<>>)), PopRest)
AppendToFile ==
  /\ Applying /\ HeadE.t = "file" /\ HeadE.mod = "app" /\ IsFileAt(tree, Target)
  /\ Step([tree EXCEPT ![Target].c = @ \o <<cnt>>], PopRest)
CreateEmptyDir ==
  /\ Applying /\ HeadE.t = "dir" /\ HeadE.src = "none" /\ CanCreate(tree, Target)
  /\ Step(MkNode(tree, Target, DirNode), PopRest)
CreateDirFromList ==
  /\ Applying /\ HeadE.t = "dir" /\ HeadE.mod = "set" /\ HeadE.src = "list" /\ CanCreate(tree, Target)
  /\ Step(MkNode(tree, Target, DirNode), <<[base |-> Target, rest |-> HeadE.sub]>> \o PopRest)
CreateDirFromCopy ==
  /\ Applying /\ HeadE.t = "dir" /\ HeadE.mod = "set" /\ HeadE.src = "copy" /\ CanCreate(tree, Target)
  /\ Step(CopyInto(MkNode(tree, Target, DirNode), Target), PopRest)
ExtendDirFromList ==
  /\ Applying /\ HeadE.t = "dir" /\ HeadE.mod = "app" /\ HeadE.src = "list" /\ IsDirAt(tree, Target)
  /\ Step(tree, <<[base |-> Target, rest |-> HeadE.sub]>> \o PopRest)
ExtendDirFromCopy ==
  /\ Applying /\ HeadE.t = "dir" /\ HeadE.mod = "app" /\ HeadE.src = "copy" /\ IsDirAt(tree, Target)
  /\ ~CopyClashes(tree, Target)
  /\ Step(CopyInto(tree, Target), PopRest)
\* a clash while copying: what has been copied before it depends on the iteration order of the source
CopyClash ==
  /\ Applying /\ HeadE.t = "dir" /\ HeadE.mod = "app" /\ HeadE.src = "copy" /\ IsDirAt(tree, Target)
  /\ CopyClashes(tree, Target)
  /\ phase' = "done" /\ result' = "HARD_ERROR" /\ exact' = FALSE /\ cnt' = cnt + 1
  /\ UNCHANGED <<fam, sc, tree, stack, GenVars>>
\* the path to create exists / an ancestor is not a directory / the file or directory to modify is missing
HardError ==
  /\ Applying /\ ~Applicable(tree, HeadE, Target)
  /\ ~(HeadE.t = "dir" /\ HeadE.mod = "app" /\ HeadE.src = "copy" /\ IsDirAt(tree, Target))
  /\ phase' = "done" /\ result' = "HARD_ERROR" /\ cnt' = cnt + 1
  /\ UNCHANGED <<fam, sc, tree, stack, exact, GenVars>>
EndOfList ==
  /\ phase = "populate" /\ stack # <<>> /\ Top.rest = <<>>
  /\ stack' = Tail(stack)
  /\ UNCHANGED <<fam, sc, tree, phase, cnt, result, exact, GenVars>>
\* the instruction succeeded; the scenario goes on with the generator on the populated directory
Populated ==
  /\ phase = "populate" /\ stack = <<>>
  /\ result' = "PASS" /\ phase' = "idle"
  /\ UNCHANGED <<fam, sc, tree, stack, cnt, exact, GenVars>>

\* ---------------------------------------------------------------------------------------------
\* Generate: the files of the outermost model of the scenario
\* ---------------------------------------------------------------------------------------------
HasModel  == fam \in {"populate", "match", "given"}
TheWrap   == IF fam \in {"match", "given"} THEN Wraps[sc.wi] ELSE W(<<>>, <<>>)
TheOpt    == IF fam \in {"match", "given"} THEN sc.opt ELSE RecAll
TopCtx    == Ctx(D, TheOpt, TheWrap.se, TheWrap.pr)
PopVars   == <<stack, cnt, result, exact>>

\* without -recursive: the entries of the directory, nothing else is looked at
ListDirect ==
  /\ phase = "idle" /\ HasModel /\ ~TheOpt.rec
  /\ out' = Children(tree, D) /\ phase' = "done"
  /\ UNCHANGED <<fam, sc, tree, PopVars, queue, cur, pend>>
StartWalk ==
  /\ phase = "idle" /\ HasModel /\ TheOpt.rec
  /\ queue' = <<[p |-> D, d |-> 0]>> /\ phase' = "generate"
  /\ UNCHANGED <<fam, sc, tree, PopVars, cur, pend, out>>
\* the next directory of the queue (first in, first out: breadth first)
ReadDir ==
  /\ phase = "generate" /\ pend = {} /\ queue # <<>>
  /\ cur' = Head(queue) /\ queue' = Tail(queue) /\ pend' = Children(tree, Head(queue).p)
  /\ UNCHANGED <<fam, sc, tree, phase, PopVars, out>>
Visitable(e) == e \in pend /\ (AnyOrder \/ \A f \in pend : e[Len(e)] <= f[Len(f)])
Yielded  == TheOpt.min = -1 \/ cur.d >= TheOpt.min
Descends(e) == /\ ~(TheOpt.max # -1 /\ cur.d = TheOpt.max)
               /\ IsDirLike(tree[e])
               /\ ~PrunedDir(tree, TheWrap.pr, e)
Visit(e, y, ds) ==
  /\ phase = "generate" /\ Visitable(e) /\ Yielded = y /\ Descends(e) = ds
  /\ out' = IF y THEN out \cup {e} ELSE out
  /\ queue' = IF ds THEN Append(queue, [p |-> e, d |-> cur.d + 1]) ELSE queue
  /\ pend' = pend \ {e}
  /\ UNCHANGED <<fam, sc, tree, phase, PopVars, cur>>
VisitYieldDescend == \E e \in pend : Visit(e, TRUE, TRUE)
VisitYield        == \E e \in pend : Visit(e, TRUE, FALSE)
VisitDescend      == \E e \in pend : Visit(e, FALSE, TRUE)     \* above the minimum depth
VisitSkip         == \E e \in pend : Visit(e, FALSE, FALSE)
EndWalk ==
  /\ phase = "generate" /\ pend = {} /\ queue = <<>>
  /\ phase' = "done"
  /\ UNCHANGED <<fam, sc, tree, PopVars, queue, cur, pend, out>>
\* the families without a model of their own
Judge ==
  /\ phase = "idle" /\ ~HasModel
  /\ phase' = "done"
  /\ UNCHANGED <<fam, sc, tree, PopVars, GenVars>>

Next == \/ Validate \/ CreateFile \/ AppendToFile \/ CreateEmptyDir \/ CreateDirFromList \/ CreateDirFromCopy
        \/ ExtendDirFromList \/ ExtendDirFromCopy \/ CopyClash \/ HardError \/ EndOfList \/ Populated
        \/ ListDirect \/ StartWalk \/ ReadDir \/ VisitYieldDescend \/ VisitYield \/ VisitDescend \/ VisitSkip
        \/ EndWalk \/ Judge
Spec == Init /\ [][Next]_vars

\* ---------------------------------------------------------------------------------------------
\* probes: the matcher applications that are replayed against the real program, with what the
\* reference semantics says about them
\* ---------------------------------------------------------------------------------------------
Done     == phase = "done"
Matched  == Done /\ HasModel /\ (fam = "populate" => result = "PASS")
F0       == Files(tree, TopCtx)               \* the files of the scenario's model, by definition
Rels(F)  == SetToSeq({RelOf(D, p) : p \in F})
Least(S)    == CHOOSE x \in S : \A y \in S : Len(x) < Len(y) \/ (Len(x) = Len(y) /\ (x = y \/
                                   \E i \in 1..Len(x) : Prefix(x, i - 1) = Prefix(y, i - 1) /\ x[i] < y[i]))
Greatest(S) == CHOOSE x \in S : \A y \in S : Len(x) > Len(y) \/ (Len(x) = Len(y) /\ (x = y \/
                                   \E i \in 1..Len(x) : Prefix(x, i - 1) = Prefix(y, i - 1) /\ x[i] > y[i]))
Plain(rels)   == [i \in 1..Len(rels) |-> [rel |-> rels[i], fm |-> FmNone]]
TypeFm(n)     == IF IsRegLike(n) THEN FmType("file") ELSE IF IsDirLike(n) THEN FmType("dir") ELSE FmType("symlink")
Typed(rels)   == [i \in 1..Len(rels) |-> [rel |-> rels[i], fm |-> TypeFm(tree[D \o rels[i]])]]
\* the tree as a condition: every file with its type and, for regular files, its contents
Described(rels) == [i \in 1..Len(rels) |->
                      [rel |-> rels[i],
                       fm |-> LET n == tree[D \o rels[i]]
                              IN IF n.k = "f" THEN FmAnd(FmType("file"), FmContents(TmEquals(n.c)))
                                 ELSE TypeFm(n)]]
WrongAt(cond, k) == [cond EXCEPT ![k].fm = FmNot(@)]

\* nesting of the scenario's pruning and selection around a matcher: pruning outermost (A) or innermost (B)
RECURSIVE NestP(_, _), NestS(_, _)
NestP(ps, m) == IF ps = <<>> THEN m ELSE FsPruned(Head(ps), NestP(Tail(ps), m))
NestS(ss, m) == IF ss = <<>> THEN m ELSE FsSel(Head(ss), NestS(Tail(ss), m))
WrapA(m) == NestP(TheWrap.pr, NestS(TheWrap.se, m))
WrapB(m) == NestS(TheWrap.se, NestP(TheWrap.pr, m))
BaseCtx  == Ctx(D, TheOpt, <<>>, <<>>)
Verdict(m) == EvalFs(m, tree, BaseCtx)

QuantFms == << FmType("file"), FmType("symlink"), FmName(1), FmContents(TmEmpty),
               FmAnd(FmType("dir"), FmDirContents(NonRec, FsEmpty)), FmDirContents(RecAll, FsNum(">=", 1)),
               \* ONE `matches { a }` applied to the contents of several directories, one after the other
               FmOr(FmNot(FmType("dir")), FmDirContents(NonRec, FsMatches(FALSE, <<[rel |-> <<1>>, fm |-> FmNone]>>))),
               \* ONE -selection / ONE -with-pruned applied to several directories: each one selects from / prunes ITS files
               FmOr(FmNot(FmType("dir")), FmDirContents(NonRec, FsSel(FmType("file"), FsNum("==", 1)))),
               FmOr(FmNot(FmType("dir")), FmDirContents(RecAll, FsPruned(FmName(1), FsNum(">=", 2)))) >>

\* all of them on the plain model, two of them when the model is pruned / selected
Quants == IF TheWrap.pr = <<>> /\ TheWrap.se = <<>> THEN QuantFms ELSE <<QuantFms[1], QuantFms[4]>>
CoreProbes ==
  LET F     == F0
      rels  == Rels(F)
      n     == Cardinality(F)
      minus == IF F = {} THEN <<>> ELSE Rels(F \ {Greatest(F)})
      sub   == IF F = {} THEN <<>> ELSE Rels(F \ {Least(F)})
      one   == IF F = {} THEN <<>> ELSE Rels({Least(F)})
  IN << [id |-> "full",       m |-> FsMatches(TRUE, Plain(rels))],
        [id |-> "full-plus",  m |-> FsMatches(TRUE, Plain(Append(rels, <<Absent>>)))],
        [id |-> "sub",        m |-> FsMatches(FALSE, Plain(sub))],
        [id |-> "sub-absent", m |-> FsMatches(FALSE, Plain(Append(one, <<Absent>>)))],
        [id |-> "num",        m |-> FsNum("==", n)],
        [id |-> "num-plus",   m |-> FsNum("==", n + 1)],
        [id |-> "num-ge",     m |-> FsNum(">=", n + 1)],
        [id |-> "empty",      m |-> FsEmpty],
        [id |-> "typed",      m |-> FsMatches(TRUE, Typed(rels))],
        [id |-> "typed-sub",  m |-> FsMatches(FALSE, Typed(sub))],
        \* combinations: every operand is applied to the same set of files
        [id |-> "num-and-num",   m |-> FsAnd(FsNum("==", n), FsNum("==", n))],
        [id |-> "num-and-full",  m |-> FsAnd(FsNum(">=", n), FsMatches(TRUE, Plain(rels)))],
        [id |-> "plus-or-num",   m |-> FsOr(FsNum("==", n + 1), FsNum("==", n))],
        [id |-> "num-and-plus",  m |-> FsAnd(FsNum("==", n), FsNum("==", n + 1))] >>
     \o (IF F = {} THEN <<>> ELSE
         << [id |-> "full-minus",  m |-> FsMatches(TRUE, Plain(minus))],
            [id |-> "typed-wrong", m |-> FsMatches(TRUE, WrongAt(Typed(rels), Len(rels)))],
            [id |-> "sub-wrong",   m |-> FsMatches(FALSE, WrongAt(Typed(one), 1))] >>)
     \* a file name that occurs twice in the condition, NOT next to each other: all its matchers apply (&&)
     \o (IF Cardinality(F) < 2 THEN <<>> ELSE
         LET last == Rels({Greatest(F)}) IN
         << [id |-> "repeat-split",       m |-> FsMatches(FALSE, Typed(one) \o Typed(last) \o Typed(one))],
            [id |-> "repeat-split-wrong", m |-> FsMatches(FALSE, WrongAt(Typed(one), 1) \o Typed(last) \o Typed(one))] >>)
     \o [i \in 1..Len(Quants) |-> [id |-> "every", m |-> FsEvery(Quants[i])]]
     \o [i \in 1..Len(Quants) |-> [id |-> "any", m |-> FsAny(Quants[i])]]
     \* nested selections whose INNER matcher is defined only for what the outer one selects
     \o << [id |-> "nested-sel-dir",  m |-> FsSel(FmType("dir"), FsSel(FmDirContents(NonRec, FsEmpty), FsNum(">=", 0)))],
            [id |-> "nested-sel-file", m |-> FsSel(FmType("file"), FsSel(FmContents(TmEmpty), FsNum(">=", 0)))],
            [id |-> "nested-sel-wrong-order", m |-> FsSel(FmContents(TmEmpty), FsSel(FmType("file"), FsNum(">=", 0)))] >>

WithVerdicts(ps, Wr(_), tag) ==
  [i \in 1..Len(ps) |-> [id |-> ps[i].id \o tag, neg |-> FALSE, m |-> Wr(ps[i].m), exp |-> Verdict(Wr(ps[i].m))]]
BothOrders == TheWrap.pr # <<>> /\ TheWrap.se # <<>>
MatchProbes ==
  WithVerdicts(CoreProbes, WrapA, "")
  \o (IF BothOrders THEN WithVerdicts(SubSeq(CoreProbes, 1, 5), WrapB, "/B") ELSE <<>>)

\* populate, round trip: the populated directory satisfies the description of the tree the list denotes
RoundTripProbes ==
  LET rels == Rels(Under(tree, D))
      desc == FsMatches(TRUE, Described(rels))
  IN << [id |-> "round-trip", neg |-> FALSE, m |-> desc, exp |-> EvalFs(desc, tree, Ctx(D, RecAll, <<>>, <<>>))] >>

\* exists [!] PATH [: FILE-MATCHER]   (symbolic links are not followed in the test of existence)
Exists4(t, p, fm) == IF p \notin DOMAIN t THEN "F" ELSE IF fm.op = "none" THEN "T" ELSE EvalFM(fm, t, p)
ExistsProbes ==
  LET one(fi, ng) == [id |-> "exists", neg |-> ng, m |-> ExistsFms[fi],
                       exp |-> LET v == Exists4(tree, sc.target, ExistsFms[fi]) IN IF ng THEN Not4(v) ELSE v]
  IN [i \in 1..(2 * Len(ExistsFms)) |-> one((i + 1) \div 2, i % 2 = 0)]

NamesProbes ==
  LET p == <<DName, ScName>>
      mk(fm) == [id |-> "part", neg |-> FALSE, m |-> fm, exp |-> EvalFM(fm, tree, p)]
      lit == [i \in 1..4 |-> mk(FmPart(Parts[i], "re", PartOf(Parts[i], sc.text)))]
      off == [i \in 1..4 |-> mk(FmPart(Parts[i], "re", Append(PartOf(Parts[i], sc.text), 1)))]
      gl  == [i \in 1..(4 * Len(GlobFamily)) |->
                mk(FmPart(Parts[((i - 1) % 4) + 1], "glob", GlobFamily[((i - 1) \div 4) + 1]))]
  IN lit \o off \o gl

\* how a probe is applied: `dir-contents D : OPT m`  or  `exists [!] D/REL : m`
ProbeKind == IF fam \in {"exists", "names"} THEN "exists" ELSE "dir-contents"
ProbeRel  == IF fam = "exists" THEN RelOf(D, sc.target) ELSE IF fam = "names" THEN <<ScName>> ELSE <<>>
Probes == CASE fam \in {"match", "given"} -> MatchProbes
            [] fam = "populate" -> IF result = "PASS" THEN RoundTripProbes ELSE <<>>
            [] fam = "invalid" -> <<>>
            [] fam = "exists" -> ExistsProbes
            [] fam = "names" -> NamesProbes

\* ---------------------------------------------------------------------------------------------
\* properties
\* ---------------------------------------------------------------------------------------------
TypeOK ==
  /\ phase \in {"validate", "populate", "idle", "generate", "done"}
  /\ result \in {"-", "PASS", "HARD_ERROR", "VALIDATION_ERROR"}
  /\ \A p \in DOMAIN tree : Len(p) >= 2 => /\ Prefix(p, Len(p) - 1) \in DOMAIN tree     \* a parent ...
                                            /\ IsDirLike(tree[Prefix(p, Len(p) - 1)])    \* ... that is a directory

\* names that are empty, absolute or contain `..` never get as far as creating anything ...
InvalidCreatesNothing ==
  (fam \in {"populate", "invalid"} /\ \E n \in NamesOf(sc.top.sub) : InvalidName(n)) =>
     (tree = InitOf(sc) /\ (Done => result = "VALIDATION_ERROR"))
\* ... and nothing is ever created outside the populated directory
NothingOutside ==
  fam \in {"populate", "invalid"} => \A p \in DOMAIN tree : p \in {<<>>, <<AbsMark>>} \/ p[1] = DName
\* the result of the step machine is the fold of the entries in order (or the failure of the fold)
PopulateDenotation ==
  (fam \in {"populate", "invalid"} /\ result # "-") =>
     LET d == Denotation(sc)
     IN /\ d.res = result /\ d.exact = exact
        /\ exact => d.tree = tree
\* entries are applied in order: there are lists whose reversal denotes something else
OrderMatters ==
  LET l == <<Entry("file", <<1>>, "set", "text", <<>>), Entry("file", <<1>>, "app", "text", <<>>)>>
      s(x) == [top |-> TopEntry("set", "list", x), pre |-> FALSE]
  IN Denotation(s(l)).res = "PASS" /\ Denotation(s(Reverse(l))).res = "HARD_ERROR"
\* the breadth-first machine generates exactly the files of the definition
GeneratorIsReference ==
  (Done /\ HasModel /\ (fam # "populate" \/ result = "PASS")) => out = RefGen(tree, TopCtx)
\* ... and while it runs, nothing that the definition excludes
GeneratorSound ==
  (phase = "generate") => out \subseteq RefGen(tree, TopCtx)
\* breadth first: directories are read in order of depth
BreadthFirst ==
  (phase = "generate") => \A i \in 1..Len(queue) : /\ queue[i].d >= cur.d
                                                    /\ \A j \in 1..i : queue[j].d <= queue[i].d
\* pruning is done before selection, regardless of their mutual order
PruneBeforeSelection ==
  (Matched /\ fam # "populate") =>
     /\ F0 = {p \in out : \A i \in 1..Len(TheWrap.se) : EvalFM(TheWrap.se[i], tree, p) = "T"}
     /\ BothOrders => LET ps == MatchProbes
                      IN \A i, j \in 1..Len(ps) : ps[j].id = ps[i].id \o "/B" => ps[j].exp = ps[i].exp
\* the pruning and selection matchers of the scenarios are defined (T or F) wherever they are applied
WrapsDefined ==
  (Matched /\ fam # "populate") => CtxDefined(tree, TopCtx)
\* matches -full: exactly the named files; matches: at least the named files
\* (also: num-files counts them, is-empty means there is none)
FixedVerdict(id) ==
  CASE id \in {"full", "sub", "typed", "typed-sub", "num", "full/B", "sub/B", "num/B", "num-and-num", "num-and-full",
               "plus-or-num", "repeat-split"} -> "T"
    [] id \in {"full-plus", "full-minus", "sub-absent", "typed-wrong", "sub-wrong", "num-plus", "num-ge", "num-and-plus", "repeat-split-wrong",
               "full-plus/B", "sub-absent/B"} -> "F"
    [] id = "empty" -> B4(F0 = {})
    [] OTHER -> "-"
FullIsExact ==
  (Matched /\ fam # "populate") =>
     LET ps == MatchProbes
     IN \A i \in 1..Len(ps) : FixedVerdict(ps[i].id) \in {"-", ps[i].exp}
QuantifierDuality ==
  (Matched /\ fam # "populate") =>
     \A i \in 1..Len(Quants) :
        LET e == Verdict(WrapA(FsEvery(Quants[i])))
            a == Verdict(WrapA(FsAny(FmNot(Quants[i]))))
        IN (e \in {"T", "F"} /\ a \in {"T", "F"}) => e = Not4(a)
\* what a FILE-LIST builds satisfies the description of the tree it denotes
PopulateThenMatchRoundTrip ==
  (Matched /\ fam = "populate") =>
     /\ RoundTripProbes[1].exp = "T"
     /\ out = Under(tree, D)
     /\ Under(Denotation(sc).tree, D) = out
\* the file name parts of the manual's table
NamePartsTable ==
  /\ NStem(<<1, Dot, 2, Dot, 3>>) = <<1>> /\ NSuffixes(<<1, Dot, 2, Dot, 3>>) = <<Dot, 2, Dot, 3>>
  /\ NSuffix(<<1, Dot, 2, Dot, 3>>) = <<Dot, 3>>
  /\ NStem(<<1>>) = <<1>> /\ NSuffixes(<<1>>) = <<>> /\ NSuffix(<<1>>) = <<>>
  /\ NStem(<<1, Dot>>) = <<1>> /\ NSuffixes(<<1, Dot>>) = <<Dot>> /\ NSuffix(<<1, Dot>>) = <<Dot>>
  /\ NStem(<<Dot, 1, Dot, 2>>) = <<>> /\ NSuffixes(<<Dot, 1, Dot, 2>>) = <<Dot, 1, Dot, 2>>
  /\ NSuffix(<<Dot, 1, Dot, 2>>) = <<Dot, 2>>
NameParts ==
  (fam = "names") => /\ NStem(sc.text) \o NSuffixes(sc.text) = sc.text
                     /\ Dot \notin {NStem(sc.text)[i] : i \in 1..Len(NStem(sc.text))}
                     /\ \E i \in 0..Len(NSuffixes(sc.text)) : NSuffix(sc.text) = SubSeq(NSuffixes(sc.text), i + 1,
                                                                                     Len(NSuffixes(sc.text)))
                     /\ Len(NSuffix(sc.text)) > 0 => (NSuffix(sc.text)[1] = Dot /\ Cardinality(Dots(NSuffix(sc.text))) = 1)

ASSUME NamePartsTable
ASSUME OrderMatters
=============================================================================
