---------------------------- MODULE SuiteExport ----------------------------
(* Export of every run of Suite (input, reporter) with what must be observed, for replay against the real    *)
(* program.  `dev` is what the JUnit document would be with one named deviation (a known finding) switched  *)
(* on; it is computed by the same operator as the expectation and only consulted for a run that disagrees.  *)
EXTENDS Suite, Json
Export == Done =>
   PrintT(<<"CASE", ToJson([fam |-> inp.fam, sl |-> inp.sl, cl |-> inp.cl, syn |-> inp.syn, vd |-> inp.vd,
                            rep |-> rep,
                            reach |-> Reach(inp),
                            valid |-> Valid, err |-> err, declErrors |-> DeclErrors(inp),
                            order |-> order, log |-> log, marks |-> marks,
                            exit |-> exit, final |-> final, junit |-> junit,
                            dev |-> [JUnitActSyntaxIsSuccess |->
                                       IF Valid /\ rep = "junit"
                                       THEN JUnitDoc(order, results, {"JUnitActSyntaxIsSuccess"}) ELSE NoDoc]])>>)
=============================================================================
