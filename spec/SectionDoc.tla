----------------------------- MODULE SectionDoc -----------------------------
(***************************************************************************)
(* C07: the structure of a test-case file (reference manual, "File         *)
(* syntax"): phase headers, the default phase, merging of repeated         *)
(* declarations, comments and empty lines, multi-line instructions,        *)
(* instruction descriptions, file inclusion, source locations.             *)
(*                                                                         *)
(* A document is a sequence of LINE KINDS; the main file is generated line *)
(* by line by the action ReadLine (so TLC enumerates every document up to  *)
(* a length bound), included files B and C have contents chosen in Init.   *)
(* Step(st, kind) is the transition function of the reader, also used as   *)
(* an operator to run included files and permuted documents.               *)
(*                                                                         *)
(* Line kinds:                                                             *)
(*  Hs Ha Hact Hc   headers [setup] [assert] [act] "  [cleanup]  "         *)
(*  Hunk Hmal       unknown phase name / malformed header                  *)
(*  C B             comment line / empty line                              *)
(*  I               one-line instruction                                   *)
(*  MLs MLe         first line of an instruction with a here-document /    *)
(*                  the line that is its end marker                        *)
(*  D               instruction description on one line                    *)
(*  X ESC           a line that is no instruction (act source) / an        *)
(*                  escaped header line                                    *)
(*  INC             an instruction whose mandatory argument is missing     *)
(*  IB IC IM IMISS  including B / C / the main file itself / a missing file*)
(***************************************************************************)
EXTENDS Naturals, Sequences, FiniteSets, TLC

CONSTANTS MaxLines,     \* bound on the number of lines of the main file
          Kinds,        \* line kinds the main file is built from
          Includes      \* "none": no included files; "std": the candidate contents below

Headers == [Hs |-> "setup", Ha |-> "assert", Hact |-> "act", Hc |-> "cleanup"]
Sections == {"conf", "setup", "act", "ba", "assert", "cleanup"}
IsHeaderLine(k) == k \in {"Hs", "Ha", "Hact", "Hc", "Hunk", "Hmal"}
IncludeTarget == [IB |-> "B", IC |-> "C", IM |-> "main", IMISS |-> "missing"]

None == <<>>
EmptyRes == [s \in Sections |-> <<>>]
\* an element: <<file, first line, number of lines, chain>>; chain = the including directives <<file, line>>
StartState(f, sec, chain, res) ==
  [ln |-> 1, sec |-> sec, mode |-> "top", start |-> 0, res |-> res, act |-> None, err |-> None,
   file |-> f, chain |-> chain, unspec |-> FALSE, hdrs |-> <<>>]

Fail(st, kind, line) == [st EXCEPT !.err = <<kind, st.file, line, st.chain>>]
AddElem(st, first, count) ==
  [st EXCEPT !.res[st.sec] = Append(@, <<st.file, first, count, st.chain>>)]
CloseAct(st) ==
  IF st.act = None THEN st
  ELSE [st EXCEPT !.res["act"] = Append(@, <<st.file, st.act[1], st.act[2], st.chain>>), !.act = None]
Adv(st) == [st EXCEPT !.ln = @ + 1]

InChain(f, st) == f = st.file \/ \E j \in 1..Len(st.chain) : st.chain[j][1] = f

RECURSIVE Step(_, _, _), RunDoc(_, _, _), FinishFile(_)

\* the reader consumes one line of kind k (files: the contents of the includable files)
Step(st, k, files) ==
  IF st.err # None THEN st
  ELSE IF st.mode = "here" THEN
       \* inside a here-document every line is contents - whatever it looks like - up to the end marker
       IF k = "MLe" THEN Adv([AddElem(st, st.start, st.ln - st.start + 1) EXCEPT !.mode = "top"])
       ELSE Adv(st)
  ELSE IF st.mode = "descr" THEN
       \* after a description: empty lines and comments are skipped, then an instruction must follow
       IF k \in {"B", "C"} THEN Adv(st)
       ELSE IF k = "I" THEN Adv([AddElem(st, st.ln, 1) EXCEPT !.mode = "top"])
       ELSE IF k = "MLs" THEN Adv([st EXCEPT !.mode = "here", !.start = st.ln])
       ELSE [Fail(st, "syntax", st.ln) EXCEPT !.unspec = TRUE]     \* which line is blamed is not specified
  ELSE IF IsHeaderLine(k) THEN
       IF k \in DOMAIN Headers THEN Adv([CloseAct(st) EXCEPT !.sec = Headers[k], !.hdrs = Append(@, st.ln)])
       ELSE Fail(st, "syntax", st.ln)
  ELSE IF st.sec = "act" THEN
       \* the act phase: every line up to the next header belongs to one source block
       Adv([st EXCEPT !.act = IF st.act = None THEN <<st.ln, 1>> ELSE <<st.act[1], st.act[2] + 1>>])
  ELSE CASE k \in {"B", "C"} -> Adv(st)
         [] k = "I" -> Adv(AddElem(st, st.ln, 1))
         [] k = "MLs" -> Adv([st EXCEPT !.mode = "here", !.start = st.ln])
         [] k = "D" -> Adv([st EXCEPT !.mode = "descr", !.start = st.ln])
         [] k \in {"MLe", "X", "ESC", "INC"} -> Fail(st, "syntax", st.ln)
         [] k \in DOMAIN IncludeTarget ->
              LET f == IncludeTarget[k] IN
              IF f = "missing" THEN Fail(st, "file-access", st.ln)
              ELSE IF InChain(f, st) THEN Fail(st, "file-access", st.ln)         \* cyclic inclusion
              ELSE LET sub == FinishFile(RunDoc(StartState(f, st.sec, Append(st.chain, <<st.file, st.ln>>), st.res),
                                                files[f], files))
                   IN IF sub.err # None THEN [st EXCEPT !.err = sub.err, !.unspec = sub.unspec]
                      ELSE Adv([st EXCEPT !.res = sub.res])      \* spliced in; the includer's phase is unchanged

RunDoc(st, doc, files) == IF doc = <<>> THEN st ELSE RunDoc(Step(st, Head(doc), files), Tail(doc), files)

\* end of file
FinishFile(st) ==
  IF st.err # None THEN st
  ELSE IF st.mode = "here" THEN Fail(st, "syntax", st.start)       \* end marker missing: reported at the instruction
  ELSE IF st.mode = "descr" THEN [Fail(st, "syntax", st.start) EXCEPT !.unspec = TRUE]   \* (blamed line unspecified)
  ELSE CloseAct(st)

-----------------------------------------------------------------------------
\* candidate contents of the included files B and C
BDocs == IF Includes = "none" THEN {<<>>}
         ELSE {<<>>, <<"I">>, <<"Ha", "I">>, <<"I", "IC">>, <<"IM">>, <<"Hs", "IB">>, <<"Hunk">>, <<"C", "MLs", "Hs", "MLe">>,
               <<"Hact", "X">>, <<"I", "MLs">>}
\* (C lives in a sub directory: a cycle through it is a cycle of files named by paths with ".." in them)
CDocs == IF Includes = "none" THEN {<<>>} ELSE {<<"I">>, <<"Hc", "I", "X">>, <<"IM">>, <<"Hs", "IB">>}

VARIABLES doc,     \* the lines of the main file read so far
          st,      \* the reader's state
          bdoc, cdoc
vars == <<doc, st, bdoc, cdoc>>
Files == [main |-> doc, B |-> bdoc, C |-> cdoc]

Init == /\ doc = <<>> /\ bdoc \in BDocs /\ cdoc \in CDocs
        /\ st = StartState("main", "act", <<>>, EmptyRes)
\* (the included files see the main file as read so far only in a cycle, which is an error whatever it contains)
ReadLine(k) == /\ Len(doc) < MaxLines /\ k \in Kinds
               /\ doc' = Append(doc, k)
               /\ st' = Step(st, k, [main |-> <<>>, B |-> bdoc, C |-> cdoc])
               /\ UNCHANGED <<bdoc, cdoc>>
Next == \E k \in Kinds : ReadLine(k)
Spec == Init /\ [][Next]_vars

Result == FinishFile(st)

-----------------------------------------------------------------------------
(* Properties                                                               *)
Elems(r) == UNION {{r.res[s][j] : j \in 1..Len(r.res[s])} : s \in Sections}
\* elements of the main file never overlap and lie inside the file
LocationsDisjoint ==
  LET r == Result IN r.err = None =>
    \A e1 \in Elems(r) : \A e2 \in Elems(r) :
       (e1 # e2 /\ e1[1] = "main" /\ e2[1] = "main" /\ e1[4] = <<>> /\ e2[4] = <<>>)
          => (e1[2] + e1[3] <= e2[2] \/ e2[2] + e2[3] <= e1[2])
LocationsInside ==
  LET r == Result IN r.err = None =>
    \A e \in Elems(r) : (e[1] = "main" /\ e[4] = <<>>) => (e[2] >= 1 /\ e[2] + e[3] - 1 <= Len(doc))
\* repeated declarations are merged in file order: within a phase the locations of elements of the main file increase
MergeInFileOrder ==
  LET r == Result IN r.err = None =>
    \A s \in Sections : \A a \in 1..Len(r.res[s]) : \A b \in (a+1)..Len(r.res[s]) :
       (r.res[s][a][4] = <<>> /\ r.res[s][b][4] = <<>>) => r.res[s][a][2] < r.res[s][b][2]
\* The order in which phases are declared has no influence: exchanging two adjacent declarations of DIFFERENT
\* phases (a declaration = a recognised header line and everything up to the next recognised header line)
\* leaves, for every phase, the sequence of its elements - the source lines they consist of - unchanged.
NumDecl == Len(Result.hdrs)
DeclStart(j) == Result.hdrs[j]
DeclEnd(j) == IF j < NumDecl THEN Result.hdrs[j + 1] - 1 ELSE Len(doc)
Exchanged(j) == SubSeq(doc, 1, DeclStart(j) - 1) \o SubSeq(doc, DeclStart(j + 1), DeclEnd(j + 1))
                \o SubSeq(doc, DeclStart(j), DeclEnd(j)) \o SubSeq(doc, DeclEnd(j + 1) + 1, Len(doc))
ElementTexts(d, r, s) == [j \in 1..Len(r.res[s]) |-> SubSeq(d, r.res[s][j][2], r.res[s][j][2] + r.res[s][j][3] - 1)]
OrderIrrelevant ==
  (Includes = "none" /\ Result.err = None) =>
     \A j \in 1..(NumDecl - 1) :
        (doc[DeclStart(j)] # doc[DeclStart(j + 1)]) =>
           LET d2 == Exchanged(j)
               r2 == FinishFile(RunDoc(StartState("main", "act", <<>>, EmptyRes), d2, [main |-> <<>>, B |-> <<>>, C |-> <<>>]))
           IN r2.err = None /\ \A s \in Sections : ElementTexts(d2, r2, s) = ElementTexts(doc, Result, s)

\* an error never goes away by appending lines, and the first error wins
FirstErrorWins == [][st.err # None => st'.err = st.err]_vars
\* the reader always terminates with a result or an error (inclusion cycles included): Result is defined
Terminates == Result.err = None \/ Result.err[1] \in {"syntax", "file-access"}
=============================================================================
