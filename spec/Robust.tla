------------------------------- MODULE Robust -------------------------------
(***************************************************************************)
(* C18: mistakes in a test case are reported as such, never as internal    *)
(* errors.                                                                 *)
(*                                                                         *)
(* A generator of test cases with KNOWN defect classes, and of mutants.    *)
(* Produce actions derive a test case from an abstract grammar: a frame    *)
(* ([setup] with a file, [act] printing a line, [assert]) into which       *)
(* instruction skeletons are inserted whose typed argument slots (INTEGER, *)
(* REGEX, replacement string, line-number range, symbol in a typed         *)
(* position) are filled with a value of a chosen class: well-formed, or    *)
(* defective in one named way.  Mutate actions then damage the token       *)
(* sequence: delete / duplicate / transpose / replace a token, truncate,   *)
(* unbalance a quote.  Class and Allowed say which outcomes the property   *)
(* permits:                                                                *)
(*   Valid            executed: PASS, FAIL (or HARD_ERROR of an instruction) *)
(*   TextOnlyDefect   SYNTAX_ERROR or VALIDATION_ERROR, at the latest      *)
(*                    HARD_ERROR when the instruction runs                 *)
(*   Unknown          (mutated) any documented outcome                     *)
(* and never INTERNAL_ERROR, an escaping exception, or no termination.     *)
(* The space is unbounded: TLC explores it exhaustively for one            *)
(* instruction and one mutation, and by random simulation beyond.          *)
(***************************************************************************)
EXTENDS Naturals, Sequences, FiniteSets, TLC

CONSTANTS MaxInstr,    \* number of generated instructions
          MaxMut,      \* number of mutations
          IncludeHang, \* include the integer expression whose evaluation does not terminate in practical time
          QuoteFamily  \* TRUE: the EXHAUSTIVE family "one unbalanced quote": every skeleton with one benign filler
                       \* per slot x every line of [act] x a quote put in front of every token of the instruction
                       \* and of [act] (no other mutation)

\* ---- slot fillers: type -> class -> values ----------------------------------------------
Fill(type, class) ==
  CASE type = "int" /\ class = "ok"      -> {"0", "1+2", "2**10", "7//2", "'( 3 )*2'", "0x10"}
    [] type = "int" /\ class = "notint"  -> {"1.5", "1/2", "'a'", "None", "[1]", "{1}"}
    [] type = "int" /\ class = "uneval"  -> {"1//0", "1/0", "5%0", "2.0**10000", "[1][2]", "input.txt", "{}['a']", "10**5000",
                                             \* (expressions whose evaluation would END the evaluating program)
                                             "exit()", "quit()", "exit(7)", "__import__('sys').exit(3)"}
    \* (braces and per-cent signs: text that is hostile to message formatting)
    \* (DIGIT2: a superscript two, DIGITS-AR: Arabic-Indic digits - characters that str.isdigit accepts and that are
    \*  no Python literal; NINES: a decimal literal of 5000 digits, more than int() converts)
    [] type = "int" /\ class = "syntax"  -> {"1+", "(2", "2**", "1_", "0b2", "1+{", "1}", "'{'", "%d", "{0", "DIGIT2", "DIGITS-AR",
                                             "NINES"}
    [] type = "int" /\ class = "name"    -> {"abc", "x+1", "__import__"}
    [] type = "int" /\ class = "wrongtype" -> {"@[LST]@", "@[PTH]@", "@[IND]@", "@[IND2]@"}   \* not made up of just strings
    [] type = "int" /\ class = "huge"    -> {"10**100000"}
    [] type = "int" /\ class = "hang"    -> IF IncludeHang THEN {"9**9**9"} ELSE {}
    [] type = "regex" /\ class = "ok"    -> {"a", "'a.b'", "'[ab]+'", "'^(h)(e)'", "-ignore-case 'A'", "'a{'", "'%s{0}'"}
    [] type = "regex" /\ class = "bad"   -> {"'('", "'*'", "'[a'", "'a{2,1}'", "'(?P<a'", "'\\'", "'(?'", "')'", "'({'", "'%(a'"}
    [] type = "regex" /\ class = "extreme" -> {"'a{4294967296}'", "'a{1,99999999999}'"}
    [] type = "repl" /\ class = "ok"     -> {"x", "''", "'\\n'", "'\\\\'", "'{0}'", "'%s'"}
    [] type = "repl" /\ class = "badref" -> {"'\\6'", "'\\g<9>'", "'\\g<nosuch>'"}
    [] type = "repl" /\ class = "badesc" -> {"'\\g<'", "'\\g'"}
    [] type = "range" /\ class = "ok"    -> {"1", "1:2", ":-1", "2:", "-2:-1"}
    [] type = "range" /\ class = "bad"   -> {"a", "1:b", "::", "1.5", "1//0:", "{", "1:{}", "%d"}
    \* GLOB-PATTERN: degenerate patterns (empty, without components, unbalanced) are patterns all the same
    [] type = "glob" /\ class = "ok"     -> {"'*.txt'", "f.txt", "'[a-f]*'", "'?.txt'"}
    [] type = "glob" /\ class = "degenerate" -> {"''", "'.'", "'['", "'**'", "'/'", "'*/'"}
    [] type = "matcher" /\ class = "ok"  -> {"is-empty", "( ! is-empty )", "TM"}
    [] type = "matcher" /\ class = "wrongtype" -> {"STR", "LST", "PTH", "TT"}   \* symbols of another type
    [] type = "transformer" /\ class = "ok" -> {"identity", "TT", "strip"}
    [] type = "transformer" /\ class = "wrongtype" -> {"STR", "TM", "PTH"}
    [] OTHER -> {}
ClassesOf(type) ==
  CASE type = "int" -> {"ok", "notint", "uneval", "syntax", "name", "wrongtype", "huge", "hang"}
    [] type = "regex" -> {"ok", "bad", "extreme"}
    [] type = "repl" -> {"ok", "badref", "badesc"}
    [] type = "range" -> {"ok", "bad"}
    [] type = "glob" -> {"ok", "degenerate"}
    [] type = "matcher" -> {"ok", "wrongtype"}
    [] type = "transformer" -> {"ok", "wrongtype"}

\* ---- instruction skeletons: phase, tokens before / after the slots, slot types (at most two slots) ----
Skeletons == {
  [id |-> "timeout", phase |-> "setup", a |-> <<"timeout", "=">>, s1 |-> "int", b |-> <<>>, s2 |-> "-", c |-> <<>>],
  [id |-> "exit-code", phase |-> "assert", a |-> <<"exit-code", "==">>, s1 |-> "int", b |-> <<>>, s2 |-> "-", c |-> <<>>],
  [id |-> "exit-code-expr", phase |-> "assert", a |-> <<"exit-code", "(", ">=">>, s1 |-> "int", b |-> <<"&&", "<=">>, s2 |-> "int", c |-> <<")">>],
  [id |-> "num-lines", phase |-> "assert", a |-> <<"stdout", "num-lines", ">=">>, s1 |-> "int", b |-> <<>>, s2 |-> "-", c |-> <<>>],
  [id |-> "line-num", phase |-> "assert", a |-> <<"stdout", "-transformed-by", "filter", "line-num", ">=">>, s1 |-> "int", b |-> <<"is-empty">>, s2 |-> "-", c |-> <<>>],
  [id |-> "line-nums", phase |-> "assert", a |-> <<"stdout", "-transformed-by", "filter", "-line-nums">>, s1 |-> "range", b |-> <<>>, s2 |-> "range", c |-> <<"NL", "num-lines", ">=", "0">>],
  [id |-> "matches", phase |-> "assert", a |-> <<"stdout", "matches">>, s1 |-> "regex", b |-> <<>>, s2 |-> "-", c |-> <<>>],
  [id |-> "line-matches", phase |-> "assert", a |-> <<"contents", "f.txt", ":", "every", "line", ":", "contents", "matches">>, s1 |-> "regex", b |-> <<>>, s2 |-> "-", c |-> <<>>],
  [id |-> "grep", phase |-> "setup", a |-> <<"file", "g.txt", "=", "-contents-of", "-rel-act", "f.txt", "-transformed-by", "grep">>, s1 |-> "regex", b |-> <<>>, s2 |-> "-", c |-> <<>>],
  [id |-> "replace", phase |-> "assert", a |-> <<"stdout", "-transformed-by", "replace">>, s1 |-> "regex", b |-> <<>>, s2 |-> "repl", c |-> <<"num-lines", ">=", "0">>],
  [id |-> "replace-pnl", phase |-> "assert", a |-> <<"stdout", "-transformed-by", "replace", "-preserve-new-lines">>, s1 |-> "regex", b |-> <<>>, s2 |-> "repl", c |-> <<"num-lines", ">=", "0">>],
  [id |-> "replace-at", phase |-> "assert", a |-> <<"stdout", "-transformed-by", "replace", "-at", "line-num == 1">>, s1 |-> "regex", b |-> <<>>, s2 |-> "repl", c |-> <<"num-lines", ">=", "0">>],
  [id |-> "replace-file", phase |-> "setup", a |-> <<"file", "r.txt", "=", "-contents-of", "-rel-act", "f.txt", "-transformed-by", "replace">>, s1 |-> "regex", b |-> <<>>, s2 |-> "repl", c |-> <<>>],
  [id |-> "name-regex", phase |-> "assert", a |-> <<"exists", "f.txt", ":", "name", "~">>, s1 |-> "regex", b |-> <<>>, s2 |-> "-", c |-> <<>>],
  [id |-> "matcher-sym", phase |-> "assert", a |-> <<"stdout">>, s1 |-> "matcher", b |-> <<>>, s2 |-> "-", c |-> <<>>],
  [id |-> "transformer-sym", phase |-> "assert", a |-> <<"stdout", "-transformed-by">>, s1 |-> "transformer", b |-> <<"num-lines", ">=", "0">>, s2 |-> "-", c |-> <<>>],
  [id |-> "num-files", phase |-> "assert", a |-> <<"dir-contents", ".", ":", "num-files", ">=">>, s1 |-> "int", b |-> <<>>, s2 |-> "-", c |-> <<>>],
  [id |-> "unknown-instruction", phase |-> "setup", a |-> <<"no-such-instruction", "a", "b">>, s1 |-> "-", b |-> <<>>, s2 |-> "-", c |-> <<>>],
  [id |-> "unknown-phase", phase |-> "setup", a |-> <<"[no-such-phase]">>, s1 |-> "-", b |-> <<>>, s2 |-> "-", c |-> <<>>],
  [id |-> "unterminated-quote", phase |-> "setup", a |-> <<"def", "string", "Q", "=", "'abc">>, s1 |-> "-", b |-> <<>>, s2 |-> "-", c |-> <<>>],
  [id |-> "missing-argument", phase |-> "assert", a |-> <<"exit-code", "==">>, s1 |-> "-", b |-> <<>>, s2 |-> "-", c |-> <<>>],
  [id |-> "path-glob", phase |-> "assert", a |-> <<"exists", "f.txt", ":", "path">>, s1 |-> "glob", b |-> <<>>, s2 |-> "-", c |-> <<>>],
  [id |-> "name-glob", phase |-> "assert", a |-> <<"exists", "f.txt", ":", "name">>, s1 |-> "glob", b |-> <<>>, s2 |-> "-", c |-> <<>>],
  [id |-> "selection-path-glob", phase |-> "assert", a |-> <<"dir-contents", ".", ":", "-selection", "path">>, s1 |-> "glob", b |-> <<"num-files", ">=", "0">>, s2 |-> "-", c |-> <<>>],
  \* paths with relativity options and program arguments that name files
  [id |-> "file-rel", phase |-> "setup", a |-> <<"file", "-rel-act", "n.txt", "=", "x">>, s1 |-> "-", b |-> <<>>, s2 |-> "-", c |-> <<>>],
  [id |-> "copy-rel", phase |-> "setup", a |-> <<"copy", "-rel-act", "f.txt", "-rel-tmp", "g.txt">>, s1 |-> "-", b |-> <<>>, s2 |-> "-", c |-> <<>>],
  [id |-> "exists-rel", phase |-> "assert", a |-> <<"exists", "-rel-act", "f.txt", ":", "type", "file">>, s1 |-> "-", b |-> <<>>, s2 |-> "-", c |-> <<>>],
  [id |-> "run-existing", phase |-> "setup", a |-> <<"run", "%", "true", "-existing-file", "-rel-act", "f.txt", "x">>, s1 |-> "-", b |-> <<>>, s2 |-> "-", c |-> <<>>],
  [id |-> "contents-of-rel", phase |-> "setup", a |-> <<"file", "m.txt", "=", "-contents-of", "-rel-act", "f.txt">>, s1 |-> "-", b |-> <<>>, s2 |-> "-", c |-> <<>>],
  [id |-> "def-path-rel", phase |-> "setup", a |-> <<"def", "path", "P2", "=", "-rel", "PTH", "q">>, s1 |-> "-", b |-> <<>>, s2 |-> "-", c |-> <<>>]
}
\* the lines of [act] (actor "command line"): a shell command, an executable file given with a relativity option,
\* a program with an argument that names a file
ActLines == {<<"$", "echo", "hello">>, <<"-rel-act", "p.sh", "a1">>,
             <<"%", "true", "-existing-file", "-rel-act", "f.txt">>}
SyntaxSkeletons == {"unknown-instruction", "unknown-phase", "unterminated-quote", "missing-argument"}

\* tokens mutations may put in place of another
Extreme == {"0", "-1", "1//0", "1.5", "'a'", "()", "2**70", "None", "(", ")", "[", "*", "\\", "'\\6'", "'(?P<a'",
            "'[a-'", "+", "@[UNDEF]@", "@[EXACTLY_ACT]@", "\"", "'", "<<EOF", ":>", "-rel-tmp", "-rel", "!", "&&",
            "||", "=", ":", "{", "}", "-full", "\\u00e9", "[setup]", "[assert]", "including", "`",
            "\\f", "\\v", "\\u00a0", "\\u2028", "LONG",        \* white space of other kinds; a name of 300 characters
            "NBSP-HDR", "FF-HDR", "EMSP-HDR",               \* a phase header directly after white space that is no blank / tab
            "\"\"", "''"}                                    \* the empty string, soft and hard quoted
WhiteSpaces == {"\\f", "\\u00a0"}

VARIABLES setupL, assertL,   \* generated instruction lines (token sequences) of [setup] and [assert]
          actL,              \* the line of [act]
          defects,           \* the defect classes used by the derivation
          extremes,          \* extreme but well-formed values used (huge integers)
          instr, muts,       \* counters
          toks,              \* the whole case as a token sequence, once assembled (mutations work on it)
          stage              \* produce / mutate / done
vars == <<setupL, assertL, actL, defects, extremes, instr, muts, toks, stage>>

Init == /\ setupL = <<>> /\ assertL = <<>> /\ defects = {} /\ extremes = {} /\ instr = 0 /\ muts = 0 /\ toks = <<>>
        /\ stage = "produce"
        /\ actL \in (IF QuoteFamily THEN ActLines ELSE {<<"$", "echo", "hello">>})

Line(sk, v1, v2) == sk.a \o (IF sk.s1 = "-" THEN <<>> ELSE <<v1>>) \o sk.b \o (IF sk.s2 = "-" THEN <<>> ELSE <<v2>>)
                    \o sk.c \o <<"NL">>
\* "huge" and "hang" integers are well-formed integer expressions: not defects, but extreme values
Benign == {"ok", "huge", "hang", "degenerate"}
DefectOf(sk, c1, c2) == (IF sk.id \in SyntaxSkeletons THEN {<<"syntax", sk.id>>} ELSE {})
                        \cup (IF sk.s1 # "-" /\ c1 \notin Benign THEN {<<sk.s1, c1>>} ELSE {})
                        \cup (IF sk.s2 # "-" /\ c2 \notin Benign THEN {<<sk.s2, c2>>} ELSE {})
ExtremeOf(sk, c1, c2) == (IF sk.s1 # "-" /\ c1 \in {"huge", "hang", "degenerate"} THEN {c1} ELSE {})
                         \cup (IF sk.s2 # "-" /\ c2 \in {"huge", "hang", "degenerate"} THEN {c2} ELSE {})

Produce(sk, c1, v1, c2, v2) ==
  /\ stage = "produce" /\ instr < MaxInstr
  \* (the quote family: one benign filler per slot)
  /\ QuoteFamily => (/\ c1 = "ok" /\ c2 = "ok" /\ sk.id \notin SyntaxSkeletons
                     /\ (sk.s1 # "-" => v1 = CHOOSE v \in Fill(sk.s1, "ok") : TRUE)
                     /\ (sk.s2 # "-" => v2 = CHOOSE v \in Fill(sk.s2, "ok") : TRUE))
  /\ (sk.s1 = "-" /\ c1 = "ok" /\ v1 = "-") \/ (sk.s1 # "-" /\ c1 \in ClassesOf(sk.s1) /\ v1 \in Fill(sk.s1, c1))
  /\ (sk.s2 = "-" /\ c2 = "ok" /\ v2 = "-") \/ (sk.s2 # "-" /\ c2 \in ClassesOf(sk.s2) /\ v2 \in Fill(sk.s2, c2))
  /\ IF sk.phase = "setup" THEN setupL' = setupL \o Line(sk, v1, v2) /\ UNCHANGED assertL
     ELSE assertL' = assertL \o Line(sk, v1, v2) /\ UNCHANGED setupL
  /\ defects' = defects \cup DefectOf(sk, c1, c2)
  /\ extremes' = extremes \cup ExtremeOf(sk, c1, c2)
  /\ instr' = instr + 1 /\ UNCHANGED <<muts, toks, stage, actL>>

Frame == <<"[setup]", "NL", "file", "f.txt", "=", "'hello'", "NL",
           "def", "string", "STR", "=", "v", "NL", "def", "list", "LST", "=", "a", "b", "NL",
           "def", "path", "PTH", "=", "-rel-act", "p", "NL", "def", "text-matcher", "TM", "=", "is-empty", "NL",
           "def", "text-transformer", "TT", "=", "identity", "NL",
           "def", "string", "IND", "=", "@[STR]@@[PTH]@", "NL", "def", "string", "IND2", "=", "1@[STR]@@[IND]@", "NL",
           "$", "printf 'exit 0' > p.sh; chmod +x p.sh", "NL">>
Assemble ==
  /\ stage = "produce" /\ instr >= 1
  /\ toks' = Frame \o setupL \o <<"[act]", "NL">> \o actL \o <<"NL", "[assert]", "NL">> \o assertL
  /\ stage' = "mutate" /\ UNCHANGED <<setupL, assertL, actL, defects, extremes, instr, muts>>

CanMutate == stage = "mutate" /\ muts < MaxMut
Positions == 1..Len(toks)
Splice(i, repl) == SubSeq(toks, 1, i - 1) \o repl \o SubSeq(toks, i + 1, Len(toks))
Delete(i) == CanMutate /\ i \in Positions /\ toks' = Splice(i, <<>>) /\ muts' = muts + 1
             /\ UNCHANGED <<setupL, assertL, actL, defects, extremes, instr, stage>>
Duplicate(i) == CanMutate /\ i \in Positions /\ toks' = Splice(i, <<toks[i], toks[i]>>) /\ muts' = muts + 1
                /\ UNCHANGED <<setupL, assertL, actL, defects, extremes, instr, stage>>
Swap(i) == CanMutate /\ i \in Positions /\ i < Len(toks) /\ toks[i] # toks[i + 1]
           /\ toks' = SubSeq(toks, 1, i - 1) \o <<toks[i + 1], toks[i]>> \o SubSeq(toks, i + 2, Len(toks))
           /\ muts' = muts + 1 /\ UNCHANGED <<setupL, assertL, actL, defects, extremes, instr, stage>>
Replace(i, x) == CanMutate /\ i \in Positions /\ x \in Extreme /\ x # toks[i] /\ toks' = Splice(i, <<x>>)
                 /\ muts' = muts + 1 /\ UNCHANGED <<setupL, assertL, actL, defects, extremes, instr, stage>>
Truncate(i) == CanMutate /\ i \in Positions /\ i < Len(toks) /\ toks' = SubSeq(toks, 1, i) /\ muts' = muts + 1
               /\ UNCHANGED <<setupL, assertL, actL, defects, extremes, instr, stage>>
Unquote(i, q) == CanMutate /\ i \in Positions /\ toks[i] # "NL" /\ q \in {"'", "\""}
                 /\ toks' = Splice(i, <<q \o toks[i]>>) /\ muts' = muts + 1
                 /\ UNCHANGED <<setupL, assertL, actL, defects, extremes, instr, stage>>
Finish == stage = "mutate" /\ stage' = "done" /\ UNCHANGED <<setupL, assertL, actL, defects, extremes, instr, muts, toks>>

ClassesOrNone(type) == IF type = "-" THEN {"ok"} ELSE ClassesOf(type)
FillOrNone(type, class) == IF type = "-" THEN {"-"} ELSE Fill(type, class)
Next == \/ /\ stage = "produce" /\ instr < MaxInstr
           /\ \E sk \in Skeletons : \E c1 \in ClassesOrNone(sk.s1), c2 \in ClassesOrNone(sk.s2) :
                 \E v1 \in FillOrNone(sk.s1, c1), v2 \in FillOrNone(sk.s2, c2) : Produce(sk, c1, v1, c2, v2)
        \/ Assemble \/ Finish
        \/ /\ CanMutate /\ ~QuoteFamily
           /\ \E i \in 1..Len(toks) : Delete(i) \/ Duplicate(i) \/ Swap(i) \/ Truncate(i)
                                      \/ (\E x \in Extreme : Replace(i, x)) \/ (\E q \in {"'", "\""} : Unquote(i, q))
        \/ /\ CanMutate /\ QuoteFamily          \* only tokens of the generated instruction and of [act]
           /\ \E i \in (Len(Frame) + 1)..Len(toks) : \E q \in {"'", "\""} :
                 toks[i] \notin {"[act]", "[assert]"} /\ Unquote(i, q)
        \* ... and every such token replaced by the empty string, soft or hard quoted
        \/ /\ CanMutate /\ QuoteFamily
           /\ \E i \in (Len(Frame) + 1)..Len(toks) : \E x \in {"\"\"", "''"} :
                 toks[i] \notin {"[act]", "[assert]", "NL"} /\ Replace(i, x)
        \* ... and the case cut short at every such token, which becomes white space of another kind, without a
        \* final new-line ("NOEOL")
        \/ /\ CanMutate /\ QuoteFamily
           /\ \E i \in (Len(Frame) + 1)..Len(toks) : \E ws \in WhiteSpaces :
                 /\ toks[i] # "NL"
                 /\ toks' = SubSeq(toks, 1, i - 1) \o <<ws, "NOEOL">> /\ muts' = muts + 1
                 /\ UNCHANGED <<setupL, assertL, actL, defects, extremes, instr, stage>>
Spec == Init /\ [][Next]_vars

\* ---- classification ------------------------------------------------------------------------
Class == IF muts > 0 THEN "Unknown" ELSE IF defects = {} THEN "Valid" ELSE "TextOnlyDefect"
Documented == {"PASS", "FAIL", "XFAIL", "XPASS", "SKIPPED", "SYNTAX_ERROR", "VALIDATION_ERROR", "HARD_ERROR",
               "FILE_ACCESS_ERROR", "PRE_PROCESS_ERROR"}
\* (a value beyond what an instruction can use may be refused when it is validated or used)
\* a well-formed case is executed; an instruction may still fail to do its job (a file that exists already, a
\* timeout of 0 seconds): HARD_ERROR
\* A defect that only shows "when the instruction runs" (a replacement string that refers to a group the regular
\* expression does not have) is reported at the latest then - if the instruction runs: an assertion before it
\* may have failed, which ends the case with FAIL.
LateDefects == {<<"repl", "badref">>, <<"repl", "badesc">>}
OnlyLate == defects # {} /\ defects \subseteq LateDefects
Allowed == CASE Class = "Valid" /\ extremes = {} -> {"PASS", "FAIL", "HARD_ERROR"}
             [] Class = "Valid" -> {"PASS", "FAIL", "VALIDATION_ERROR", "HARD_ERROR"}
             [] Class = "TextOnlyDefect" /\ OnlyLate /\ instr >= 2 -> {"SYNTAX_ERROR", "VALIDATION_ERROR", "HARD_ERROR", "FAIL"}
             [] Class = "TextOnlyDefect" -> {"SYNTAX_ERROR", "VALIDATION_ERROR", "HARD_ERROR"}
             [] OTHER -> Documented
\* never allowed, whatever the class
NeverInternal == "INTERNAL_ERROR" \notin Allowed
ClassTotal == Class \in {"Valid", "TextOnlyDefect", "Unknown"}
\* unmutated derivations without a defective filler are valid: the generator is not vacuous
ValidHasNoDefect == (Class = "Valid") => defects = {}
=============================================================================
