--------------------------- MODULE SymbolsExport ---------------------------
(* Export of every case of Symbols with what the specification predicts, for replay against the real program:  *)
(* one record per terminal state.  outcome PASS: obs = what each executed use must make observable (in order   *)
(* of execution; i = the instruction in the file).  outcome VALIDATION_ERROR: bad = the violation the walk     *)
(* reports (the first one in execution order), viol = every instruction that breaks a rule by itself, with the *)
(* kinds of rule and the symbols at fault (the property does not say WHICH violation is reported).             *)
EXTENDS Symbols, Json
Rec == [fam |-> fam, tphase |-> tphase, prog |-> prog, outcome |-> outcome, bad |-> bad,
        viol |-> IF outcome = "PASS" THEN {} ELSE Violations,
        report |-> IF outcome = "PASS" THEN Report ELSE <<>>, refsOf |-> IF outcome = "PASS" THEN RefsOf ELSE <<>>,
        obs |-> [k \in 1..Len(obs) |-> [i |-> obs[k].i, k |-> obs[k].exp.k, argv |-> obs[k].exp.argv,
                                         root |-> obs[k].exp.root, comps |-> obs[k].exp.comps,
                                         name |-> obs[k].exp.name, lines |-> obs[k].exp.lines]]]
Export == Done => PrintT(<<"CASE", ToJson(Rec)>>)
=============================================================================
