------------------------------ MODULE Symbols ------------------------------
(***************************************************************************)
(* C08: symbols - defined before use, defined once, type-checked           *)
(* transitively, substituted faithfully.                                   *)
(*                                                                         *)
(* A test case is a small program: a sequence, in FILE order, of           *)
(* instructions tagged with the phase they stand in                        *)
(*     def  TYPE NAME = SHAPE(refs)      (a definition)                    *)
(*     use  CONTEXT(refs)                (an instruction that refers)      *)
(* A SHAPE is the form of a value with its reference slots; shapes are     *)
(* named TYPE-LETTER.FORM (s string, l list, p path, m text-matcher,       *)
(* t text-transformer, g program, n line-matcher, i integer-matcher,       *)
(* c files-condition, f file-matcher, k files-matcher, o files-source,     *)
(* x text-source), for instance                                            *)
(*     s.lit  a           s.ref  @[X]@        s.pre  p@[X]@                *)
(*     s.two  @[X]@-@[Y]@                                                  *)
(*     l.lit  a 'a x'     l.litref  e @[X]@   l.instr  "<@[X]@>"           *)
(*     l.quoted  "@[X]@" x                                                 *)
(*     l.two  @[X]@ @[Y]@                                                  *)
(*     p.lit  -rel-tmp a  p.comp  -rel-tmp @[X]@   p.rel  -rel X a         *)
(*     p.pre  @[X]@/a     p.relcomp  -rel X @[Y]@                          *)
(*     m.eq   equals "@[X]@"   m.or  X || Y   t.seq  X | Y                 *)
(*     i.int  == "len('@[X]@')"    g.ref  @ X a    o.name  { file @[X]@ }  *)
(* (harness/props/c08.py has the whole table, and that of the contexts).   *)
(* Every slot of a shape or context carries the restriction its position   *)
(* puts on the referenced symbol:                                          *)
(*     data    string, list or path (a reference inside a string, a list   *)
(*             element, a program argument)                                *)
(*     strict  a string made up of just strings, TRANSITIVELY (a path      *)
(*             component, an INTEGER expression, a line-number range, the  *)
(*             name of an environment variable, the name of a % program, a *)
(*             file name in a FILE-LIST or a FILES-CONDITION)              *)
(*     path    a path (-rel SYMBOL)                                        *)
(*     pos     a path, or a string made up of just strings (a FILE-NAME    *)
(*             that begins with @[SYMBOL]@)                                *)
(*     tm tt pgm lm im fc fm fsm fs   exactly that type (plain SYMBOL-NAME *)
(*             positions, @ SYMBOL)                                        *)
(*     tsos    a text-source or a string (@[SYMBOL]@ alone as TEXT-SOURCE) *)
(* The program is processed the way Exactly processes a test case:         *)
(*   validate  ONE walk over setup, act, before-assert, assert, cleanup    *)
(*             (execution order, whatever the order in the file) with one  *)
(*             growing table, builtin symbols pre-loaded: a definition of  *)
(*             a name that is in the table, a reference to a name that is  *)
(*             not, or a reference whose restriction is not satisfied ends *)
(*             the case with VALIDATION_ERROR - nothing has been executed; *)
(*   execute   in the same order: def puts its symbol into the             *)
(*             execution-time table, a use resolves its references against *)
(*             that table NOW (substitution).                              *)
(* The walk (variables vtab, etab) is the mechanism; the clauses of the    *)
(* property are stated over the program TEXT (Before, Culprits,            *)
(* Violations) and tie the two together.                                   *)
(*                                                                         *)
(* Values.  A string is a sequence of atoms (one-character literals, the   *)
(* builtin <TAB>, the markers <tmp> <act> for the absolute sandbox         *)
(* directories); a list a sequence of strings; a path [root, comps];       *)
(* matchers are subsets of the four probe lines a b c d (integer-matchers: *)
(* of their line numbers); text-transformers partial functions on these    *)
(* lines; a program the arguments it has accumulated; a files-source the   *)
(* names of its files; a text-source its text; files-conditions, file- and *)
(* files-matchers are opaque (only their types matter here).               *)
(*                                                                         *)
(* Path symbols only use the relativities act, tmp and the current         *)
(* directory (= act: there is no cd), which every path context used here   *)
(* accepts: relativity restrictions are C12's subject.                     *)
(*                                                                         *)
(* Families of programs (variable fam, see Layout): order2/3/4 - any       *)
(* sequence of def-literal / def-by-reference / use over two names, every  *)
(* instruction in any phase, any file order; dupb - a definition of a      *)
(* builtin name; direct, bdirect, link1, blink - a literal (or a builtin), *)
(* optionally one definition on top of it, used in every context; link2 -  *)
(* two literals below a two-reference shape; chain2/3 - chains of          *)
(* one-reference definitions; rand - random simulation, any shape over     *)
(* everything defined so far.                                              *)
(*                                                                         *)
(* Deviations (never switched on when the property is checked; they show   *)
(* that the invariants are sharp): "FirstRefOnly" - the transitive check   *)
(* follows only the first reference of a definition; "ActLast" - the act   *)
(* phase is validated after the other phases; "NoBuiltinsInTable" - the    *)
(* validation table starts empty.                                          *)
(***************************************************************************)
EXTENDS Naturals, Sequences, FiniteSets, TLC

CONSTANTS Fams,           \* families of programs explored (see Layout)
          TypePhases,     \* phases in which the shallow type families place their definitions
          DeepPhases,     \* ... the deep type families
          ExtraUsePhases, \* phases (besides that of the definitions) in which the final use of a type family is placed
          OrderPhases2, OrderPhases3, OrderPhases4,   \* phases of the order families with <= 2 / 3 / 4 instructions
          BaseShapes,     \* literal shapes (no reference) of the type families
          Link1Shapes,    \* one-reference shapes
          Link2Shapes,    \* two-reference shapes
          Link2Bases,     \* literal shapes below the two-reference shapes
          ChainBases, ChainShapes,   \* the same for the family with chains of two links
          Chain3Bases, Chain3Shapes, \* ... of three links
          Ctxs,           \* contexts of uses
          Deviations

\* ---- vocabulary -----------------------------------------------------------------------------
Rank(p) == CASE p = "setup" -> 1 [] p = "act" -> 2 [] p = "before-assert" -> 3 [] p = "assert" -> 4
             [] p = "cleanup" -> 5 [] OTHER -> 9
Names    == <<"A", "B", "C", "D">>
Builtins == {"SB", "PB"}          \* a builtin string (TAB) and a builtin path (EXACTLY_TMP)
U        == <<"a", "b", "c", "d">>   \* the probe lines
USet     == {"a", "b", "c", "d"}
Lit(n)   == CASE n = "A" -> "a" [] n = "B" -> "b" [] n = "C" -> "c" [] n = "D" -> "d" [] OTHER -> "z"
LitRoot(n) == CASE n = "B" -> "act" [] n = "C" -> "cd" [] OTHER -> "tmp"
PosOf(u) == CASE u = "a" -> 1 [] u = "b" -> 2 [] u = "c" -> 3 [] u = "d" -> 4 [] OTHER -> 0

\* shapes: s string, l list, p path, m text-matcher, t text-transformer, g program, n line-matcher,
\* i integer-matcher, c files-condition, f file-matcher, k files-matcher, o files-source, x text-source
AllShapes0 == {"s.lit", "l.lit", "l.empty", "p.lit", "m.lit", "t.lit", "g.lit", "n.lit", "i.lit",
               "c.lit", "f.lit", "k.lit", "o.lit", "x.lit"}
AllShapes1 == {"s.ref", "s.pre", "l.ref", "l.litref", "l.instr", "l.quoted", "p.comp", "p.rel", "p.pre", "m.ref", "m.neg", "m.eq",
               "t.ref", "t.filt", "t.lm", "g.ref", "g.arg", "n.ref", "n.tm", "n.im", "i.ref", "i.int",
               "c.name", "c.ref", "f.ref", "f.tm", "k.ref", "k.sel", "o.name", "o.ref", "x.ref", "x.str"}
AllShapes2 == {"s.two", "l.two", "p.relcomp", "m.or", "t.seq", "g.tt", "g.in"}
AllCtxs    == {"data", "comp", "compn", "compp", "relsym", "pre", "int", "range", "env", "pname", "fname", "tm", "tt", "pgm", "lm", "im",
               "fc", "fm", "fsm", "fs", "ts"}
ActCtxs    == {"data", "pname", "pgm"}      \* what the line of [act] (actor "command line") can be made of here

TypeOf(sh) == CASE sh \in {"s.lit", "s.ref", "s.pre", "s.two", "s.builtin"} -> "string"
                [] sh \in {"l.lit", "l.empty", "l.ref", "l.litref", "l.instr", "l.quoted", "l.two"} -> "list"
                [] sh \in {"p.lit", "p.comp", "p.rel", "p.pre", "p.relcomp", "p.builtin"} -> "path"
                [] sh \in {"m.lit", "m.ref", "m.neg", "m.eq", "m.or"} -> "text-matcher"
                [] sh \in {"t.lit", "t.ref", "t.filt", "t.lm", "t.seq"} -> "text-transformer"
                [] sh \in {"g.lit", "g.ref", "g.arg", "g.tt", "g.in"} -> "program"
                [] sh \in {"n.lit", "n.ref", "n.tm", "n.im"} -> "line-matcher"
                [] sh \in {"i.lit", "i.ref", "i.int"} -> "integer-matcher"
                [] sh \in {"c.lit", "c.name", "c.ref"} -> "files-condition"
                [] sh \in {"f.lit", "f.ref", "f.tm"} -> "file-matcher"
                [] sh \in {"k.lit", "k.ref", "k.sel"} -> "files-matcher"
                [] sh \in {"o.lit", "o.name", "o.ref"} -> "files-source"
                [] sh \in {"x.lit", "x.ref", "x.str"} -> "text-source"
                [] OTHER -> "-"

\* the restriction on each reference slot of a shape / of a context
Restr(sh) == CASE sh \in {"s.ref", "s.pre", "l.ref", "l.litref", "l.instr", "l.quoted", "m.eq", "g.arg", "x.str", "data"} -> <<"data">>
               [] sh \in {"s.two", "l.two"} -> <<"data", "data">>
               [] sh \in {"p.comp", "i.int", "c.name", "o.name", "comp", "compn", "compp", "int", "range", "env", "pname", "fname"}
                    -> <<"strict">>
               [] sh \in {"p.rel", "relsym"} -> <<"path">>
               [] sh \in {"p.pre", "pre"} -> <<"pos">>
               [] sh = "p.relcomp" -> <<"path", "strict">>
               [] sh \in {"m.ref", "m.neg", "t.filt", "n.tm", "f.tm", "tm"} -> <<"tm">>
               [] sh = "m.or" -> <<"tm", "tm">>
               [] sh \in {"t.ref", "tt"} -> <<"tt">>
               [] sh = "t.seq" -> <<"tt", "tt">>
               \* a program given as a reference to a program symbol, with a transformation / a stdin added to it
               [] sh = "g.tt" -> <<"pgm", "tt">>
               [] sh = "g.in" -> <<"pgm", "tsos">>
               [] sh \in {"t.lm", "n.ref", "lm"} -> <<"lm">>
               [] sh \in {"n.im", "i.ref", "im"} -> <<"im">>
               [] sh \in {"g.ref", "pgm"} -> <<"pgm">>
               [] sh \in {"c.ref", "fc"} -> <<"fc">>
               [] sh \in {"f.ref", "k.sel", "fm"} -> <<"fm">>
               [] sh \in {"k.ref", "fsm"} -> <<"fsm">>
               [] sh \in {"o.ref", "fs"} -> <<"fs">>
               [] sh \in {"x.ref", "ts"} -> <<"tsos">>
               [] OTHER -> <<>>
\* types a restriction accepts for the symbol referred to directly
Accepts(r) == CASE r = "data" -> {"string", "list", "path"}
                [] r = "strict" -> {"string"}
                [] r = "path" -> {"path"}
                [] r = "pos" -> {"path", "string"}
                [] r = "tm" -> {"text-matcher"}
                [] r = "tt" -> {"text-transformer"}
                [] r = "pgm" -> {"program"}
                [] r = "lm" -> {"line-matcher"}
                [] r = "im" -> {"integer-matcher"}
                [] r = "fc" -> {"files-condition"}
                [] r = "fm" -> {"file-matcher"}
                [] r = "fsm" -> {"files-matcher"}
                [] r = "fs" -> {"files-source"}
                [] r = "tsos" -> {"text-source", "string"}
                [] OTHER -> {}
\* ... and whether it reaches through the symbols that symbol is built from ("made up of just strings")
Trans(r, t) == r = "strict" \/ (r = "pos" /\ t = "string")

BuiltinDef(n) == IF n = "SB"
                 THEN [ph |-> "-", op |-> "def", name |-> "SB", type |-> "string", shape |-> "s.builtin", refs |-> <<>>]
                 ELSE [ph |-> "-", op |-> "def", name |-> "PB", type |-> "path", shape |-> "p.builtin", refs |-> <<>>]
DefI(p, n, sh, rs) == [ph |-> p, op |-> "def", name |-> n, type |-> TypeOf(sh), shape |-> sh, refs |-> rs]
UseI(p, c, rs)     == [ph |-> p, op |-> "use", name |-> "-", type |-> "-", shape |-> c, refs |-> rs]

VARIABLES fam,      \* the family of the case
          tphase,   \* type families: the phase of the definitions ("-" in the order families)
          prog,     \* the test case, in file order
          stage,    \* "build" "validate" "exec" "done"
          pc,       \* position in the order of validation / execution
          vtab,     \* validation-time table: <<[name, idx]>> in order of insertion (idx 0: builtin, else the instruction)
          etab,     \* execution-time table, the same representation
          outcome,  \* "-" until the case ends, then PASS or VALIDATION_ERROR
          bad,      \* the violation the walk reports: [i, kind, sym]
          obs,      \* what the executed uses must make observable, in order of execution
          nexec     \* number of instructions executed
vars == <<fam, tphase, prog, stage, pc, vtab, etab, outcome, bad, obs, nexec>>

OrderFams == {"order2", "order3", "order4"}
RandFams  == {"rand"}
FullMatrixFams == {"direct", "bdirect", "link1", "blink"}   \* every context is tried, also those that reject directly
DeepFams  == {"link2", "chain2", "chain3"}
Layout(f) == CASE f = "dupb"    -> <<"dupb">>
               [] f = "direct"  -> <<"base", "use">>
               [] f = "bdirect" -> <<"buse">>
               [] f = "link1"   -> <<"base", "link1", "use">>
               [] f = "blink"   -> <<"blink", "use">>
               [] f = "link2"   -> <<"base", "base", "link2", "use">>
               [] f = "chain2"  -> <<"base", "link1", "link1", "use">>
               [] f = "chain3"  -> <<"base", "link1", "link1", "link1", "use">>
               [] f = "order2"  -> <<"any", "any">>
               [] f = "order3"  -> <<"any", "any", "any">>
               [] f = "order4"  -> <<"any", "any", "any", "any">>
               [] f = "rand"    -> <<"rdef", "rdef", "rdef", "rdef", "ruse", "ruse">>
               [] OTHER -> <<>>
OrderPhases(f) == CASE f = "order2" -> OrderPhases2 [] f = "order3" -> OrderPhases3 [] f = "order4" -> OrderPhases4
                    [] OTHER -> {}
NoBad == [i |-> 0, kind |-> "-", sym |-> "-"]
BuiltinTable == <<[name |-> "SB", idx |-> 0], [name |-> "PB", idx |-> 0]>>

Init ==
  /\ fam \in Fams
  /\ tphase \in (IF fam \in OrderFams \cup RandFams THEN {"-"} ELSE IF fam \in DeepFams THEN DeepPhases ELSE TypePhases)
  /\ prog = <<>> /\ stage = "build" /\ pc = 1
  /\ vtab = (IF "NoBuiltinsInTable" \in Deviations THEN <<>> ELSE BuiltinTable)
  /\ etab = BuiltinTable
  /\ outcome = "-" /\ bad = NoBad /\ obs = <<>> /\ nexec = 0

\* ---- the rules, stated over the program text (whatever stage the case is in) ---------------------------
Done == stage = "done"
DefIdx(p) == {j \in 1..Len(p) : p[j].op = "def"}
\* i is executed before j
ExecLess(i, j) == Rank(prog[i].ph) < Rank(prog[j].ph) \/ (Rank(prog[i].ph) = Rank(prog[j].ph) /\ i < j)
Before(i) == {j \in DefIdx(prog) : ExecLess(j, i)}             \* the definitions executed before instruction i
VisibleAt(n, i) == n \in Builtins \/ \E j \in Before(i) : prog[j].name = n
\* the definition of n that instruction i sees (the first one executed; 0: none)
TextDefIdx(n, i) == LET S == {j \in Before(i) : prog[j].name = n} IN
                    IF S = {} THEN 0 ELSE CHOOSE j \in S : \A k \in S : k = j \/ ExecLess(j, k)
TD(n, i) == IF n \in Builtins THEN BuiltinDef(n) ELSE prog[TextDefIdx(n, i)]
\* the symbols n is built from, transitively, that are not strings (or that do not exist where they are referred to)
RECURSIVE Culprits(_, _)
Culprits(n, i) ==
  IF n \in Builtins \/ TextDefIdx(n, i) = 0 THEN {}
  ELSE LET j == TextDefIdx(n, i) rs == prog[j].refs IN
       UNION {IF ~VisibleAt(rs[k], j) THEN {rs[k]}
              ELSE (IF TD(rs[k], j).type # "string" THEN {rs[k]} ELSE {}) \cup Culprits(rs[k], j)
              : k \in 1..Len(rs)}
NoViol == [kinds |-> {}, syms |-> {}]
SlotViol(n, r, i) ==
  IF ~VisibleAt(n, i) THEN [kinds |-> {"undefined"}, syms |-> {n}]
  ELSE IF TD(n, i).type \notin Accepts(r) THEN [kinds |-> {"type"}, syms |-> {n}]
  ELSE IF Trans(r, TD(n, i).type) /\ Culprits(n, i) # {} THEN [kinds |-> {"type"}, syms |-> Culprits(n, i)]
  ELSE NoViol
InstrViol(i) ==
  LET ins == prog[i]
      dup == ins.op = "def" /\ (ins.name \in Builtins \/ \E j \in Before(i) : prog[j].name = ins.name)
      sv  == [k \in 1..Len(ins.refs) |-> SlotViol(ins.refs[k], Restr(ins.shape)[k], i)] IN
  [i |-> i,
   kinds |-> (IF dup THEN {"duplicate"} ELSE {}) \cup UNION {sv[k].kinds : k \in 1..Len(ins.refs)},
   syms  |-> (IF dup THEN {ins.name} ELSE {}) \cup UNION {sv[k].syms : k \in 1..Len(ins.refs)}]
\* every instruction that, taken by itself, breaks a rule
Violations == {v \in {InstrViol(i) : i \in 1..Len(prog)} : v.kinds # {}}
FirstViolation == CHOOSE v \in Violations : \A w \in Violations : w.i = v.i \/ ExecLess(v.i, w.i)

\* ---- building the program (the bounds of the exploration, not a claim about the program) -------------
Slot      == Layout(fam)[Len(prog) + 1]
Full      == Len(prog) = Len(Layout(fam))
NumDefs   == Cardinality(DefIdx(prog))
NextName  == Names[NumDefs + 1]
PrevName  == Names[NumDefs]
DefOf(n)  == prog[CHOOSE j \in DefIdx(prog) : prog[j].name = n]      \* (build stage: names are distinct)
BaseSet   == CASE fam = "chain2" -> ChainBases [] fam = "chain3" -> Chain3Bases [] fam = "link2" -> Link2Bases
               [] OTHER -> BaseShapes
Link1Set  == CASE fam = "chain2" -> ChainShapes [] fam = "chain3" -> Chain3Shapes [] OTHER -> Link1Shapes
Append1(ins) == /\ prog' = Append(prog, ins)
                /\ IF Len(prog) + 1 = Len(Layout(fam)) /\ fam \notin OrderFams THEN stage' = "validate" ELSE stage' = stage
                /\ UNCHANGED <<fam, tphase, pc, vtab, etab, outcome, bad, obs, nexec>>
Building(kind) == stage = "build" /\ ~Full /\ Slot = kind

AddBase ==
  /\ Building("base")
  /\ \E sh \in BaseSet : Append1(DefI(tphase, NextName, sh, <<>>))
AddLink1 ==
  /\ Building("link1")
  /\ \E sh \in Link1Set : Append1(DefI(tphase, NextName, sh, <<PrevName>>))
AddBuiltinLink ==
  /\ Building("blink")
  /\ \E sh \in Link1Shapes, b \in Builtins : Append1(DefI(tphase, NextName, sh, <<b>>))
AddLink2 ==
  /\ Building("link2")
  /\ \E sh \in Link2Shapes : Append1(DefI(tphase, NextName, sh, <<"A", "B">>))
AddDupBuiltin ==
  /\ Building("dupb")
  /\ \E sh \in BaseShapes, b \in Builtins : Append1(DefI(tphase, b, sh, <<>>))
UsePhases == {tphase} \cup {p \in ExtraUsePhases : Rank(p) > Rank(tphase)}
\* (when the definitions already break a rule the use does not matter: one representative, which does not break a
\* rule itself;  outside the full-matrix families only contexts that accept the type of the symbol directly)
RepCtx(t) == CASE t = "text-matcher" -> "tm" [] t = "text-transformer" -> "tt" [] t = "program" -> "pgm"
               [] t = "line-matcher" -> "lm" [] t = "integer-matcher" -> "im" [] t = "files-condition" -> "fc"
               [] t = "file-matcher" -> "fm" [] t = "files-matcher" -> "fsm" [] t = "files-source" -> "fs"
               [] t = "text-source" -> "ts" [] OTHER -> "data"
AddUse ==
  /\ Building("use")
  /\ \E c \in Ctxs, p \in UsePhases :
       /\ (p = "act") => c \in ActCtxs
       /\ IF Violations # {} THEN c = RepCtx(DefOf(PrevName).type) /\ p = tphase
          ELSE (fam \notin FullMatrixFams) => DefOf(PrevName).type \in Accepts(Restr(c)[1])
       /\ Append1(UseI(p, c, <<PrevName>>))
AddBuiltinUse ==
  /\ Building("buse")
  /\ \E c \in Ctxs, b \in Builtins, p \in UsePhases :
       /\ (p = "act") => c \in ActCtxs
       /\ Append1(UseI(p, c, <<b>>))

\* order families: anything anywhere.  Names are used in a canonical way (the first one mentioned is A).
Mentioned(p) == UNION {(IF p[j].op = "def" THEN {p[j].name} ELSE {}) \cup {p[j].refs[k] : k \in 1..Len(p[j].refs)}
                       : j \in 1..Len(p)}
HasAct(p) == \E j \in 1..Len(p) : p[j].ph = "act"
OrderUniverse(ph) ==
  IF ph = "act" THEN {UseI(ph, "data", <<n>>) : n \in {"A", "B"}}
  ELSE {DefI(ph, n, "s.lit", <<>>) : n \in {"A", "B"}}
       \cup {DefI(ph, n, "s.ref", <<m>>) : n \in {"A", "B"}, m \in {"A", "B"}}
       \cup {UseI(ph, "data", <<n>>) : n \in {"A", "B"}}
FirstMention(ins) == IF ins.op = "def" THEN ins.name ELSE ins.refs[1]
AddAny ==
  /\ Building("any")
  /\ \E ph \in OrderPhases(fam) : \E ins \in OrderUniverse(ph) :
       /\ (ph = "act") => ~HasAct(prog)
       /\ ("A" \in Mentioned(prog)) \/ FirstMention(ins) = "A"
       /\ Append1(ins)
Finish ==
  /\ stage = "build" /\ fam \in OrderFams /\ Len(prog) >= 1
  /\ stage' = "validate"
  /\ UNCHANGED <<fam, tphase, prog, pc, vtab, etab, outcome, bad, obs, nexec>>

\* random family (simulation beyond the exhaustive bound): four definitions of any shape whose references are
\* acceptable DIRECTLY (so that chains get deep and only the transitive restrictions can refuse), two uses;
\* phases never decrease
LastRank == IF prog = <<>> THEN 1 ELSE Rank(prog[Len(prog)].ph)
DefinedSoFar == {prog[j].name : j \in DefIdx(prog)}
TypeSoFar(n) == IF n \in Builtins THEN BuiltinDef(n).type ELSE DefOf(n).type
RefTuples(sh) == LET T == DefinedSoFar \cup Builtins
                     ok(n, k) == TypeSoFar(n) \in Accepts(Restr(sh)[k]) IN
                 CASE Len(Restr(sh)) = 0 -> {<<>>}
                   [] Len(Restr(sh)) = 1 -> {<<n>> : n \in {m \in T : ok(m, 1)}}
                   [] OTHER -> {<<n, m>> : n \in {x \in T : ok(x, 1)}, m \in {x \in T : ok(x, 2)}}
AddRandomDef ==
  /\ Building("rdef")
  /\ \E sh \in AllShapes0 \cup AllShapes1 \cup AllShapes2, p \in {"setup", "before-assert", "assert", "cleanup"} :
       /\ Rank(p) >= LastRank
       /\ \E rs \in RefTuples(sh) : Append1(DefI(p, NextName, sh, rs))
AddRandomUse ==
  /\ Building("ruse")
  /\ \E c \in AllCtxs, p \in {"setup", "act", "before-assert", "assert", "cleanup"} :
       /\ Rank(p) >= LastRank
       /\ (p = "act") => (c \in ActCtxs /\ ~HasAct(prog))
       /\ \E rs \in RefTuples(c) : Append1(UseI(p, c, rs))

\* ---- the order in which Exactly processes the instructions -------------------------------------------
XOrder == [k \in 1..Len(prog) |-> CHOOSE i \in 1..Len(prog) : Cardinality({j \in 1..Len(prog) : ExecLess(j, i)}) = k - 1]
VRank(p) == IF "ActLast" \in Deviations /\ p = "act" THEN 6 ELSE Rank(p)
VLess(i, j) == VRank(prog[i].ph) < VRank(prog[j].ph) \/ (VRank(prog[i].ph) = VRank(prog[j].ph) /\ i < j)
VOrder == [k \in 1..Len(prog) |-> CHOOSE i \in 1..Len(prog) : Cardinality({j \in 1..Len(prog) : VLess(j, i)}) = k - 1]

\* ---- validation: the walk with one growing table -----------------------------------------------------
TabNames(t) == {t[k].name : k \in 1..Len(t)}
TabDef(t, n) == LET e == t[CHOOSE k \in 1..Len(t) : t[k].name = n] IN
                IF e.idx = 0 THEN BuiltinDef(n) ELSE prog[e.idx]
Ok == [kind |-> "ok", sym |-> "-"]
\* the first symbol that is not a string among those the given references lead to (depth first, in order)
RECURSIVE IndirectFail(_)
IndirectFail(refs) ==
  IF refs = <<>> THEN "-"
  ELSE LET d == TabDef(vtab, Head(refs)) IN
       IF d.type # "string" THEN Head(refs)
       ELSE LET f == IndirectFail(d.refs) IN
            IF f # "-" THEN f
            ELSE IF "FirstRefOnly" \in Deviations THEN "-" ELSE IndirectFail(Tail(refs))
CheckRef(n, r) ==
  IF n \notin TabNames(vtab) THEN [kind |-> "undefined", sym |-> n]
  ELSE LET d == TabDef(vtab, n) IN
       IF d.type \notin Accepts(r) THEN [kind |-> "type", sym |-> n]
       ELSE IF Trans(r, d.type) /\ IndirectFail(d.refs) # "-" THEN [kind |-> "type", sym |-> IndirectFail(d.refs)]
       ELSE Ok
RECURSIVE CheckRefsFrom(_, _)
CheckRefsFrom(ins, k) ==
  IF k > Len(ins.refs) THEN Ok
  ELSE LET c == CheckRef(ins.refs[k], Restr(ins.shape)[k]) IN
       IF c.kind # "ok" THEN c ELSE CheckRefsFrom(ins, k + 1)
CheckRefs(ins) == CheckRefsFrom(ins, 1)

Validating == stage = "validate" /\ pc <= Len(prog)
VCur == VOrder[pc]
VIns == prog[VCur]
Frame == UNCHANGED <<fam, tphase, prog>>
VNext == /\ pc' = (IF pc < Len(prog) THEN pc + 1 ELSE 1)
         /\ stage' = (IF pc < Len(prog) THEN "validate" ELSE "exec")
         /\ UNCHANGED <<etab, outcome, bad, obs, nexec>>
Reject(c) == /\ outcome' = "VALIDATION_ERROR" /\ stage' = "done"
             /\ bad' = [i |-> VCur, kind |-> c.kind, sym |-> c.sym]
             /\ UNCHANGED <<pc, vtab, etab, obs, nexec>>

ValidateDefOk ==
  /\ Validating /\ VIns.op = "def" /\ Frame
  /\ VIns.name \notin TabNames(vtab) /\ CheckRefs(VIns).kind = "ok"
  /\ vtab' = Append(vtab, [name |-> VIns.name, idx |-> VCur])
  /\ VNext
ValidateDefDuplicate ==
  /\ Validating /\ VIns.op = "def" /\ Frame
  /\ VIns.name \in TabNames(vtab)
  /\ Reject([kind |-> "duplicate", sym |-> VIns.name])
ValidateDefBadRef ==
  /\ Validating /\ VIns.op = "def" /\ Frame
  /\ VIns.name \notin TabNames(vtab) /\ CheckRefs(VIns).kind # "ok"
  /\ Reject(CheckRefs(VIns))
ValidateUseOk ==
  /\ Validating /\ VIns.op = "use" /\ VIns.ph # "act" /\ Frame
  /\ CheckRefs(VIns).kind = "ok"
  /\ VNext /\ UNCHANGED vtab
ValidateUseBadRef ==
  /\ Validating /\ VIns.op = "use" /\ VIns.ph # "act" /\ Frame
  /\ CheckRefs(VIns).kind # "ok"
  /\ Reject(CheckRefs(VIns))
\* the act phase is one step of its own: the references of the action to check
ValidateActOk ==
  /\ Validating /\ VIns.ph = "act" /\ Frame
  /\ CheckRefs(VIns).kind = "ok"
  /\ VNext /\ UNCHANGED vtab
ValidateActBadRef ==
  /\ Validating /\ VIns.ph = "act" /\ Frame
  /\ CheckRefs(VIns).kind # "ok"
  /\ Reject(CheckRefs(VIns))

\* ---- values: resolution by substitution against the execution-time table ----------------------------
Flat(ss) == LET F[k \in 0..Len(ss)] == IF k = 0 THEN <<>> ELSE F[k - 1] \o ss[k] IN F[Len(ss)]
Join(l)  == IF l = <<>> THEN <<>> ELSE l[1] \o Flat([k \in 1..(Len(l) - 1) |-> <<" ">> \o l[k + 1]])
RootAtom(r) == IF r = "tmp" THEN "<tmp>" ELSE "<act>"          \* the current directory is the act directory
Render(p) == <<RootAtom(p.root)>> \o Flat([k \in 1..Len(p.comps) |-> <<"/">> \o p.comps[k]])
Rot(n) == [u \in USet |-> IF u = Lit(n) THEN U[(PosOf(u) % 4) + 1] ELSE u]       \* replace a b / b c / c d / d a
Keep(S) == [u \in USet |-> IF u \in S THEN u ELSE "-"]
Compose(f, g) == [u \in USet |-> IF f[u] = "-" THEN "-" ELSE g[f[u]]]
ED(n) == TabDef(etab, n)

RECURSIVE Val(_), Str(_), Lst(_)
Val(n) ==
  LET d == ED(n) sh == d.shape r1 == d.refs[1] r2 == d.refs[2] l == <<Lit(d.name)>> IN
  CASE sh = "s.builtin" -> <<"<TAB>">>
    [] sh = "p.builtin" -> [root |-> "tmp", comps |-> <<>>]
    [] sh = "s.lit" -> l
    [] sh = "s.ref" -> Str(r1)
    [] sh = "s.pre" -> <<"p">> \o Str(r1)
    [] sh = "s.two" -> Str(r1) \o <<"-">> \o Str(r2)
    [] sh = "l.lit" -> <<l, l \o <<" ", "x">>>>
    [] sh = "l.empty" -> <<>>
    [] sh = "l.ref" -> Lst(r1)
    [] sh = "l.litref" -> <<<<"e">>>> \o Lst(r1)
    [] sh = "l.instr" -> <<<<"<">> \o Str(r1) \o <<">">>>>
    [] sh = "l.quoted" -> <<Str(r1), <<"x">>>>          \* a quoted reference alone is ONE element (never spliced)
    [] sh = "l.two" -> Lst(r1) \o Lst(r2)
    [] sh = "p.lit" -> [root |-> LitRoot(d.name), comps |-> <<l>>]
    [] sh = "p.comp" -> [root |-> "tmp", comps |-> <<Str(r1)>>]
    [] sh = "p.rel" -> [root |-> Val(r1).root, comps |-> Val(r1).comps \o <<l>>]
    [] sh = "p.pre" -> IF ED(r1).type = "path" THEN [root |-> Val(r1).root, comps |-> Val(r1).comps \o <<l>>]
                       ELSE [root |-> "cd", comps |-> <<Val(r1), l>>]
    [] sh = "p.relcomp" -> [root |-> Val(r1).root, comps |-> Val(r1).comps \o <<Str(r2)>>]
    [] sh \in {"m.lit", "n.lit", "i.lit"} -> {Lit(d.name)}
    [] sh \in {"m.ref", "n.ref", "n.tm", "n.im", "i.ref", "t.ref"} -> Val(r1)
    [] sh = "m.neg" -> USet \ Val(r1)
    [] sh = "m.or" -> Val(r1) \cup Val(r2)
    [] sh = "m.eq" -> {u \in USet : <<u>> = Str(r1)}
    [] sh = "i.int" -> {u \in USet : PosOf(u) = Len(Str(r1))}
    [] sh = "t.lit" -> Rot(d.name)
    [] sh \in {"t.filt", "t.lm"} -> Keep(Val(r1))
    [] sh = "t.seq" -> Compose(Val(r1), Val(r2))
    [] sh = "o.lit" -> <<l>>
    [] sh = "o.name" -> <<Str(r1)>>
    [] sh \in {"o.ref", "x.ref"} -> Val(r1)
    [] sh = "x.lit" -> l
    [] sh = "x.str" -> <<"<">> \o Str(r1) \o <<">">>
    [] sh \in {"c.lit", "c.name", "c.ref", "f.lit", "f.ref", "f.tm", "k.lit", "k.ref", "k.sel"} -> {}
    [] sh = "g.lit" -> [args |-> <<l>>]
    [] sh \in {"g.ref", "g.tt", "g.in"} -> [args |-> Val(r1).args \o <<l>>]
    [] sh = "g.arg" -> [args |-> Lst(r1)]
\* a reference inside a string: strings by concatenation, a list joined by single spaces, a path as absolute path
Str(n) == CASE ED(n).type = "string" -> Val(n) [] ED(n).type = "list" -> Join(Val(n)) [] OTHER -> Render(Val(n))
\* a reference as list element / program argument: a list is spliced in, a string or a path is one element
Lst(n) == CASE ED(n).type = "string" -> <<Val(n)>> [] ED(n).type = "list" -> Val(n) [] OTHER -> <<Render(Val(n))>>

LinesKept(S) == SelectSeq(U, LAMBDA u : u \in S)
LinesMapped(f) == LET kept == SelectSeq(U, LAMBDA u : f[u] # "-") IN [k \in 1..Len(kept) |-> f[kept[k]]]
Blank == [k |-> "none", argv |-> <<>>, root |-> "-", comps |-> <<>>, name |-> <<>>, lines |-> <<>>]
PathRoot(r) == IF r = "cd" THEN "act" ELSE r
\* what a use must make observable
Expect(ins) ==
  LET c == ins.shape x == ins.refs[1] IN
  CASE c = "data"   -> [Blank EXCEPT !.k = "argv", !.argv = <<<<"<">> \o Str(x) \o <<">">>>> \o Lst(x)]
    [] c = "pgm"    -> [Blank EXCEPT !.k = "argv", !.argv = Val(x).args]
    [] c = "comp"   -> [Blank EXCEPT !.k = "dir", !.root = "tmp", !.comps = <<Str(x)>>]
    \* a path WITHOUT a relativity option whose reference is not its first part: q/@[X]@
    [] c = "compn"  -> [Blank EXCEPT !.k = "dir", !.root = "act", !.comps = <<<<"q">>, Str(x)>>]
    \* ... and one whose FIRST part is a reference to a path symbol (the builtin for the act directory): the
    \* following parts are path components all the same
    [] c = "compp"  -> [Blank EXCEPT !.k = "dir", !.root = "act", !.comps = <<Str(x)>>]
    [] c = "relsym" -> [Blank EXCEPT !.k = "dir", !.root = PathRoot(Val(x).root), !.comps = Val(x).comps]
    [] c = "pre"    -> IF ED(x).type = "path"
                       THEN [Blank EXCEPT !.k = "dir", !.root = PathRoot(Val(x).root), !.comps = Val(x).comps]
                       ELSE [Blank EXCEPT !.k = "dir", !.root = "act", !.comps = <<Val(x)>>]
    [] c \in {"int", "range"} -> [Blank EXCEPT !.k = "lines", !.lines = LinesKept({u \in USet : PosOf(u) = Len(Str(x))})]
    [] c \in {"env", "pname", "fname"} -> [Blank EXCEPT !.k = c, !.name = Str(x)]
    [] c \in {"tm", "lm", "im"} -> [Blank EXCEPT !.k = "lines", !.lines = LinesKept(Val(x))]
    [] c = "tt"     -> [Blank EXCEPT !.k = "lines", !.lines = LinesMapped(Val(x))]
    [] c = "fs"     -> [Blank EXCEPT !.k = "files", !.comps = Val(x)]
    [] c = "ts"     -> [Blank EXCEPT !.k = "text", !.name = Val(x)]
    [] c \in {"fc", "fm", "fsm"} -> Blank

\* ---- execution, in order ------------------------------------------------------------------------------
Executing == stage = "exec"
XCur == XOrder[pc]
XIns == prog[XCur]
XNext == /\ nexec' = nexec + 1
         /\ IF pc < Len(prog) THEN pc' = pc + 1 /\ stage' = "exec" /\ outcome' = outcome
            ELSE pc' = pc /\ stage' = "done" /\ outcome' = "PASS"
         /\ UNCHANGED <<vtab, bad>>
ExecDef ==
  /\ Executing /\ XIns.op = "def" /\ Frame
  /\ etab' = Append(etab, [name |-> XIns.name, idx |-> XCur])
  /\ XNext /\ UNCHANGED obs
ExecUse ==
  /\ Executing /\ XIns.op = "use" /\ XIns.ph # "act" /\ Frame
  /\ obs' = Append(obs, [i |-> XCur, exp |-> Expect(XIns)])
  /\ XNext /\ UNCHANGED etab
ExecAct ==
  /\ Executing /\ XIns.ph = "act" /\ Frame
  /\ obs' = Append(obs, [i |-> XCur, exp |-> Expect(XIns)])
  /\ XNext /\ UNCHANGED etab

Next == \/ AddBase \/ AddLink1 \/ AddBuiltinLink \/ AddLink2 \/ AddDupBuiltin \/ AddUse \/ AddBuiltinUse \/ AddAny \/ Finish
        \/ AddRandomDef \/ AddRandomUse
        \/ ValidateDefOk \/ ValidateDefDuplicate \/ ValidateDefBadRef \/ ValidateUseOk \/ ValidateUseBadRef
        \/ ValidateActOk \/ ValidateActBadRef
        \/ ExecDef \/ ExecUse \/ ExecAct
Spec == Init /\ [][Next]_vars

\* ---- the symbol report: `exactly symbol FILE`, `exactly symbol FILE NAME`, `... NAME --ref` -----------------
\* The case is parsed and its symbols validated (the same walk), nothing is executed.  An accepted case is reported:
\* every user-defined symbol on a line of its own - in order of execution, with its type and the number of
\* references to it (every written occurrence counts; builtin symbols are not listed) -; for one symbol, the
\* instruction that defines it; with --ref, every reference to it in order of execution.  A rejected case gives
\* the error (exit code, identifier, message) the run of the case gives.
\* How many times the text of a shape / context writes each of its reference slots (the context "data" writes its
\* symbol twice: inside a string and as an element).
Occ(sh) == IF sh = "data" THEN <<2>> ELSE [k \in 1..Len(Restr(sh)) |-> 1]
\* The text of a use in these contexts is a definition of a fresh symbol, named after the instruction.
UseDefType(c) == CASE c = "fc" -> "files-condition" [] c = "fm" -> "file-matcher" [] c = "fsm" -> "files-matcher"
                   [] OTHER -> "-"
Defines(i) == prog[i].op = "def" \/ (prog[i].op = "use" /\ UseDefType(prog[i].shape) # "-")
RECURSIVE SortExec(_)
SortExec(S) == IF S = {} THEN <<>>
               ELSE LET m == CHOOSE j \in S : \A k \in S : k = j \/ ExecLess(j, k) IN <<m>> \o SortExec(S \ {m})
ExecSeq == SortExec(1..Len(prog))
RECURSIVE Rep(_, _), OccIn(_, _, _), RefSeqFrom(_, _)
Rep(x, c) == IF c = 0 THEN <<>> ELSE <<x>> \o Rep(x, c - 1)
\* the occurrences of n written by instruction i, from slot k on
OccIn(n, i, k) == IF k > Len(prog[i].refs) THEN <<>>
                  ELSE (IF prog[i].refs[k] = n THEN Rep(i, Occ(prog[i].shape)[k]) ELSE <<>>) \o OccIn(n, i, k + 1)
RefSeqFrom(n, sq) == IF sq = <<>> THEN <<>> ELSE OccIn(n, Head(sq), 1) \o RefSeqFrom(n, Tail(sq))
RefSeq(n) == RefSeqFrom(n, ExecSeq)        \* the instructions that refer to n, one entry per written occurrence
DefSeq == SelectSeq(ExecSeq, LAMBDA i : Defines(i))
ReportLine(i) == [i |-> i,
                  name |-> IF prog[i].op = "def" THEN prog[i].name ELSE "-",      \* "-": the fresh symbol of a use
                  type |-> IF prog[i].op = "def" THEN prog[i].type ELSE UseDefType(prog[i].shape),
                  nrefs |-> IF prog[i].op = "def" THEN Len(RefSeq(prog[i].name)) ELSE 0]
Report == [j \in 1..Len(DefSeq) |-> ReportLine(DefSeq[j])]
RefsOf == [j \in 1..Len(DefSeq) |-> IF prog[DefSeq[j]].op = "def" THEN RefSeq(prog[DefSeq[j]].name) ELSE <<>>]

\* ---- the clauses of the property ---------------------------------------------------------------------
IsPrefix(a, b) == Len(a) <= Len(b) /\ SubSeq(b, 1, Len(a)) = a

TypeOK ==
  /\ stage \in {"build", "validate", "exec", "done"}
  /\ outcome \in {"-", "PASS", "VALIDATION_ERROR"}
  /\ Len(prog) <= Len(Layout(fam)) /\ pc \in 1..(Len(prog) + 1)
  /\ (outcome = "-") <=> ~Done
  /\ Len(obs) <= nexec /\ nexec <= Len(prog)

\* while the walk stands at an instruction, the table holds exactly the builtins and what is defined before it
VisibleIffDefinedBefore ==
  /\ Validating =>
       TabNames(vtab) = Builtins \cup {prog[j].name : j \in Before(VCur)}
  /\ (Done /\ outcome = "PASS") =>
       \A i \in 1..Len(prog) : \A k \in 1..Len(prog[i].refs) : VisibleAt(prog[i].refs[k], i)
  /\ (Done /\ bad.kind = "undefined") => ~VisibleAt(bad.sym, bad.i)
\* an accepted test case defines every name once, and no builtin name
DefinedOnce ==
  /\ (Done /\ outcome = "PASS") =>
       /\ \A i \in DefIdx(prog), j \in DefIdx(prog) : (prog[i].name = prog[j].name) => i = j
       /\ \A i \in DefIdx(prog) : prog[i].name \notin Builtins
  /\ (Done /\ bad.kind = "duplicate") =>
       (bad.sym \in Builtins \/ \E j \in Before(bad.i) : prog[j].name = bad.sym)
\* an accepted test case satisfies every restriction, through everything the referenced symbols are built from
TypeCheckedTransitively ==
  (Done /\ outcome = "PASS") =>
     \A i \in 1..Len(prog) : \A k \in 1..Len(prog[i].refs) :
        LET n == prog[i].refs[k] r == Restr(prog[i].shape)[k] IN
        /\ TD(n, i).type \in Accepts(r)
        /\ Trans(r, TD(n, i).type) => Culprits(n, i) = {}
\* the walk rejects exactly the programs that break a rule, and names the first instruction (in execution order)
\* that does
RejectedIffViolation ==
  Done => /\ (outcome = "VALIDATION_ERROR") <=> (Violations # {})
          /\ (outcome = "VALIDATION_ERROR") =>
               /\ bad.i = FirstViolation.i
               /\ bad.kind \in FirstViolation.kinds /\ bad.sym \in FirstViolation.syms
\* ... before anything is executed
RejectedBeforeExecution ==
  (outcome = "VALIDATION_ERROR") => (nexec = 0 /\ obs = <<>> /\ etab = BuiltinTable)
\* at every execution point the execution-time table is a prefix of the validation-time table
ValidationTableCoversExecutionTable ==
  /\ (stage = "exec" \/ (Done /\ outcome = "PASS")) => IsPrefix(etab, vtab)
  /\ (Done /\ outcome = "PASS") => etab = vtab
  /\ (stage = "exec") => TabNames(etab) = Builtins \cup {prog[j].name : j \in Before(XCur)}
\* whatever an executed instruction refers to is in the execution-time table, with everything it is built from
RECURSIVE Closure(_)
Closure(n) == IF n \notin TabNames(etab) THEN {n}
              ELSE {n} \cup UNION {Closure(ED(n).refs[k]) : k \in 1..Len(ED(n).refs)}
AcceptedImpliesResolvable ==
  (stage = "exec") => \A k \in 1..Len(XIns.refs) : Closure(XIns.refs[k]) \subseteq TabNames(etab)
\* every use of an accepted test case is executed once, in execution order
EveryUseObserved ==
  (Done /\ outcome = "PASS") =>
     /\ nexec = Len(prog)
     /\ Len(obs) = Cardinality({i \in 1..Len(prog) : prog[i].op = "use"})
     /\ \A k \in 1..Len(obs) : prog[obs[k].i].op = "use" /\ (k > 1 => ExecLess(obs[k - 1].i, obs[k].i))
\* shape of the substituted values: a reference in a string context gives ONE string; as a list element a list gives
\* its elements, anything else one element; a list inside a string is its elements and single separators
SubstitutionShape ==
  \A k \in 1..Len(obs) :
     (prog[obs[k].i].shape = "data") =>
        LET a == obs[k].exp.argv  t == ED(prog[obs[k].i].refs[1]).type
            inner == SubSeq(a[1], 2, Len(a[1]) - 1)  els == SubSeq(a, 2, Len(a)) IN
        /\ Len(a) >= 1 /\ a[1][1] = "<" /\ a[1][Len(a[1])] = ">"
        /\ (t # "list") => (Len(els) = 1 /\ els[1] = inner)
        /\ (t = "list") => /\ inner = Join(els)
                           /\ Len(inner) = Len(Flat(els)) + (IF els = <<>> THEN 0 ELSE Len(els) - 1)
        /\ (t = "path") => inner[1] \in {"<tmp>", "<act>"}
\* the report of an accepted case lists exactly what the validation walk put into its table, in that order; every
\* written reference is counted for exactly one symbol (or is a reference to a builtin); a symbol with no reference
\* is mentioned by no instruction
RECURSIVE SumSeq(_)
SumSeq(q) == IF q = <<>> THEN 0 ELSE Head(q) + SumSeq(Tail(q))
Written(i) == SumSeq(Occ(prog[i].shape))
BuiltinRefs(i) == SumSeq([k \in 1..Len(prog[i].refs) |-> IF prog[i].refs[k] \in Builtins THEN Occ(prog[i].shape)[k] ELSE 0])
ReportMatchesWalk ==
  (Done /\ outcome = "PASS") =>
     /\ [j \in 1..Len(SelectSeq(vtab, LAMBDA e : e.idx # 0)) |-> SelectSeq(vtab, LAMBDA e : e.idx # 0)[j].idx]
           = SelectSeq(DefSeq, LAMBDA i : prog[i].op = "def")
     /\ SumSeq([j \in 1..Len(Report) |-> Report[j].nrefs])
           = SumSeq([i \in 1..Len(prog) |-> Written(i) - BuiltinRefs(i)])
     /\ \A j \in 1..Len(Report) :
           (Report[j].nrefs = 0) <=> (\A i \in 1..Len(prog) : \A k \in 1..Len(prog[i].refs) : prog[i].refs[k] # Report[j].name)
     /\ \A j \in 1..Len(Report) : \A a \in 1..Len(RefsOf[j]) :
           /\ ExecLess(DefSeq[j], RefsOf[j][a])                       \* referred to only after its definition
           /\ (a > 1 => (RefsOf[j][a - 1] = RefsOf[j][a] \/ ExecLess(RefsOf[j][a - 1], RefsOf[j][a])))
=============================================================================
