-------------------------- MODULE SectionDocExport --------------------------
EXTENDS SectionDoc, Json
Export == LET r == Result IN
   PrintT(<<"DOC", ToJson([doc |-> doc, bdoc |-> bdoc, cdoc |-> cdoc, err |-> r.err, unspec |-> r.unspec,
                           res |-> r.res])>>)
=============================================================================
