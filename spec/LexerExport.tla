---------------------------- MODULE LexerExport ----------------------------
(* Export of every source string with what it denotes in the three contexts (LIST, STRING, :> text),      *)
(* according to the documented syntax and according to the syntax with the recorded deviation D3.          *)
EXTENDS Lexer, Json
Export ==
   PrintT(<<"CASE", ToJson([src |-> src, listErr |-> ListError, list |-> ListValue, cont |-> Continues,
                            strErr |-> StringError, str |-> StringValue, text |-> TextUntilEol,
                            ntok |-> NTok, strOpt |-> StringIsOption])>>)
=============================================================================
