------------------------------- MODULE Lexer -------------------------------
(***************************************************************************)
(* C09: the documented STRING / LIST / TEXT-UNTIL-END-OF-LINE syntax as a  *)
(* character automaton (reference manual: syntax elements STRING, LIST,    *)
(* RICH-STRING; "Comments may not appear inside instructions").            *)
(*                                                                         *)
(* The machine reads one character per step; every reachable state is a    *)
(* source string, and Result gives what that string denotes if the line    *)
(* ends there.  Characters are small integers (TLC strings cannot be       *)
(* indexed); REF stands for the five characters of a symbol reference      *)
(* @[S]@ and VAL for the value substituted for it.                         *)
(*                                                                         *)
(* Deviations: {"D3"} = "the kind of a token's FIRST fragment decides      *)
(* substitution and plainness for the whole token" (recorded defect D3).   *)
(***************************************************************************)
EXTENDS Naturals, Sequences, FiniteSets, TLC

CONSTANTS Alphabet,    \* the characters sources are built from
          MaxLen,      \* bound on the length of a source
          Deviations

A == 1  SP == 2  DQ == 3  SQ == 4  HASH == 5  BS == 6  EACUTE == 7  REF == 8  EQ == 9  RPAR == 10
VAL == 11     \* not a source character: the substituted value of the reference
OPT == 12     \* a whole word: an option of the instruction the string is an argument of ("-contents-of")
TMARK == 13   \* the two characters ":>" - alone and unquoted the marker of TEXT-UNTIL-END-OF-LINE; as part of a
              \* longer word, or quoted, just these two characters

Reserved == {<<EQ>>, <<RPAR>>}      \* the reserved words expressible over this alphabet: "=" and ")"

VARIABLES src,      \* the characters read so far
          st,       \* between / naked / soft / hard  (soft, hard: inside quotes)
          first,    \* kind of the current token's first fragment
          cur,      \* value of the current token so far
          curPlain, \* all fragments so far are naked
          toks      \* finished tokens: <<value, all fragments naked, first fragment naked>>
vars == <<src, st, first, cur, curPlain, toks>>

Init == src = <<>> /\ st = "between" /\ first = "-" /\ cur = <<>> /\ curPlain = TRUE /\ toks = <<>>

\* what a character denotes inside a fragment of the given kind
Denote(c, kind) ==
  LET k == IF "D3" \in Deviations THEN first ELSE kind
  IN IF c = REF /\ k # "hard" THEN VAL ELSE c

StartToken(kind) == first' = kind /\ curPlain' = (kind = "naked")

Read(c) ==
  /\ Len(src) < MaxLen /\ c \in Alphabet
  /\ src' = Append(src, c)
  /\ CASE st = "between" ->
            IF c = SP THEN UNCHANGED <<st, first, cur, curPlain, toks>>
            ELSE IF c = DQ THEN st' = "soft" /\ StartToken("soft") /\ cur' = <<>> /\ UNCHANGED toks
            ELSE IF c = SQ THEN st' = "hard" /\ StartToken("hard") /\ cur' = <<>> /\ UNCHANGED toks
            ELSE /\ st' = "naked" /\ StartToken("naked") /\ UNCHANGED toks
                 /\ cur' = <<IF c = REF THEN VAL ELSE c>>
       [] st = "naked" ->
            IF c = SP THEN /\ toks' = Append(toks, <<cur, curPlain, first = "naked">>) /\ st' = "between"
                           /\ cur' = <<>> /\ curPlain' = TRUE /\ first' = "-"
            ELSE IF c = DQ THEN st' = "soft" /\ curPlain' = FALSE /\ UNCHANGED <<first, cur, toks>>
            ELSE IF c = SQ THEN st' = "hard" /\ curPlain' = FALSE /\ UNCHANGED <<first, cur, toks>>
            ELSE cur' = Append(cur, Denote(c, "naked")) /\ UNCHANGED <<st, first, curPlain, toks>>
       [] st = "soft" ->
            IF c = DQ THEN st' = "naked" /\ UNCHANGED <<first, cur, curPlain, toks>>    \* the token stays open
            ELSE cur' = Append(cur, Denote(c, "soft")) /\ UNCHANGED <<st, first, curPlain, toks>>
       [] st = "hard" ->
            IF c = SQ THEN st' = "naked" /\ UNCHANGED <<first, cur, curPlain, toks>>
            ELSE cur' = Append(cur, Denote(c, "hard")) /\ UNCHANGED <<st, first, curPlain, toks>>

Next == \E c \in Alphabet : Read(c)
Spec == Init /\ [][Next]_vars

\* ---- what the source denotes if the line ends here ----------------------------------------
Plainness(t) == IF "D3" \in Deviations THEN t[3] ELSE t[2]
Unterminated == st \in {"soft", "hard"}
\* tokens: <<value, all fragments naked, first fragment naked>>
Tokens == toks
          \o (IF st = "naked" THEN <<<<cur, curPlain, first = "naked">>>> ELSE <<>>)
NTok == Len(Tokens)
IsPlain(j) == Plainness(Tokens[j])
\* LIST: an unquoted "\" at end of line continues the list on the next line
Continues == NTok >= 1 /\ IsPlain(NTok) /\ Tokens[NTok][1] = <<BS>>
HasReserved == \E j \in 1..NTok : IsPlain(j) /\ Tokens[j][1] \in Reserved
ListError == Unterminated \/ HasReserved
ListValue == [j \in 1..(IF Continues THEN NTok - 1 ELSE NTok) |-> Tokens[j][1]]
\* STRING as the last argument of an instruction: exactly one token.  An UNQUOTED first word that is one of the
\* instruction's options is that option - what follows is then not this syntax element.  A word with any quoted
\* fragment is never an option: it denotes its characters.
StringIsOption == NTok >= 1 /\ IsPlain(1) /\ Tokens[1][1] \in {<<OPT>>, <<TMARK>>}
StringError == Unterminated \/ NTok # 1 \/ HasReserved
StringValue == IF NTok >= 1 THEN Tokens[1][1] ELSE <<>>
\* :> TEXT-UNTIL-END-OF-LINE: the rest of the line, blanks at both ends removed, references substituted, no quoting
RECURSIVE StripL(_), StripR(_)
StripL(s) == IF s # <<>> /\ Head(s) = SP THEN StripL(Tail(s)) ELSE s
StripR(s) == IF s # <<>> /\ s[Len(s)] = SP THEN StripR(SubSeq(s, 1, Len(s) - 1)) ELSE s
TextUntilEol == LET t == StripR(StripL(src)) IN [j \in 1..Len(t) |-> IF t[j] = REF THEN VAL ELSE t[j]]

\* ---- properties ----------------------------------------------------------------------------------
\* a token keeps its first-fragment kind only as bookkeeping: values are built fragment by fragment
NoBlankInNakedToken == \A j \in 1..Len(toks) : toks[j][2] => \A x \in 1..Len(toks[j][1]) : toks[j][1][x] # SP
\* quote removal only: the characters of all tokens are the source's characters minus blanks outside quotes and
\* minus the quote characters that delimit fragments, with references substituted outside hard quotes
Chars(s) == [j \in 1..Len(s) |-> IF s[j] = VAL THEN REF ELSE s[j]]
RECURSIVE Concat(_)
Concat(ts) == IF ts = <<>> THEN <<>> ELSE Chars(Head(ts)[1]) \o Concat(Tail(ts))
RECURSIVE IsSubseq(_, _)
IsSubseq(a, b) == IF a = <<>> THEN TRUE ELSE IF b = <<>> THEN FALSE
                  ELSE IF Head(a) = Head(b) THEN IsSubseq(Tail(a), Tail(b)) ELSE IsSubseq(a, Tail(b))
QuoteRemovalOnly == (~Unterminated) => IsSubseq(Concat(Tokens), src)
\* token boundaries: the number of tokens never decreases when a character is appended; a blank outside quotes
\* never changes the tokens already finished
TokensMonotone == [][Len(toks') >= Len(toks) /\ SubSeq(toks', 1, Len(toks)) = toks]_vars
=============================================================================
