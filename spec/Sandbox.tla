------------------------------ MODULE Sandbox ------------------------------
(***************************************************************************)
(* C04: sandbox lifecycle and isolation of the Exactly process.            *)
(*                                                                         *)
(* A refinement of PhaseExec by deterministic fault scripts, extended with *)
(* the state the property talks about:                                     *)
(*   top       top-level entries of the sandbox directory                  *)
(*   resultDir files in result/                                            *)
(*   tmpDir    files in tmp/  (only what instructions of the case put      *)
(*             there: Exactly itself never touches it)                     *)
(*   tcwd      the test's current directory (act, or act/sub after `cd`;   *)
(*             "gone" once the action to check has removed the directory   *)
(*             it stands in - fRm: the process is then left without a      *)
(*             valid current directory, which must not disturb the rest    *)
(*             of the execution, the verdict or the restoring of the       *)
(*             process' own directory)                                     *)
(*   tenv      variables set by `env` (visible to later instructions)      *)
(*   penv      variables set in the environment of the Exactly PROCESS     *)
(* The setup phase is a sequence of instruction kinds: a stub (observes    *)
(* and may fail), optional real instructions (dir+cd, env, file in tmp/),  *)
(* and a final stub.  Every other phase has one stub.  Each executed main  *)
(* step of a stub takes a snapshot; snapshots are compared with what the   *)
(* real stubs see in the real sandbox.                                     *)
(***************************************************************************)
EXTENDS PhaseExec

VARIABLES endK, endI, endO, cleanupO, fCd, fEnv, fTmp, fRm,      \* the case (chosen in Init)
          top, resultDir, tmpDir, tcwd, tenv, penv, snaps
svars == <<vars, endK, endI, endO, cleanupO, fCd, fEnv, fTmp, fRm, top, resultDir, tmpDir, tcwd, tenv, penv, snaps>>

SetupKinds == <<"stub">> \o (IF fCd THEN <<"dir", "cd">> ELSE <<>>) \o (IF fEnv THEN <<"env">> ELSE <<>>)
              \o (IF fTmp THEN <<"tmpfile">> ELSE <<>>) \o <<"stub">>

Layout == {"act", "tmp", "result", "internal"}
ResultFiles == {"stdout", "stderr", "exit-code"}

SInit ==
  /\ fCd \in BOOLEAN /\ fEnv \in BOOLEAN /\ fTmp \in BOOLEAN
  /\ fRm \in BOOLEAN /\ (fRm => fCd)      \* the action removes act/sub, where the test then stands
  /\ n = [p \in Phases |-> IF p = "conf" THEN 0 ELSE IF p = "setup" THEN Len(SetupKinds) ELSE 1]
  /\ tcStatus = "PASS" /\ mode \in Modes
  /\ endK \in (0..NF) \ {KConf, KMkSds}
  /\ endO \in {"ok", "ve", "he_ret", "he_raise", "fail", "syntax", "exc"}
  /\ IF endK = 0 THEN endO = "ok" /\ endI = 1
     ELSE /\ endO \in (Outcomes(Forward[endK][1], Forward[endK][2]) \ {"ok"})
          /\ endI \in (IF Forward[endK][2] = "setup" THEN {1, Len(SetupKinds)} ELSE {1})   \* only stubs fail
  /\ (mode = "act") => endK \notin {KBaMain, KAssertMain}
  /\ cleanupO \in {"ok", "he_ret", "exc"}
  /\ (endK # 0 /\ endK < KMkSds) => cleanupO = "ok"
  /\ k = 1 /\ i = 1 /\ sds = "none" /\ cwd = "orig" /\ prev = "-" /\ fail = <<>> /\ cfail = <<>>
  /\ inCleanup = FALSE /\ ci = 1 /\ cleanupEntered = 0 /\ mains = 0
  /\ log = <<>> /\ done = FALSE /\ result = <<>>
  /\ top = {} /\ resultDir = {} /\ tmpDir = {} /\ tcwd = "-" /\ tenv = {} /\ penv = {} /\ snaps = <<>>

Frame == UNCHANGED <<endK, endI, endO, cleanupO, fCd, fEnv, fTmp, fRm>>

Scripted == IF k = endK /\ i = endI THEN endO ELSE "ok"

Snap(ph, ix) == [phase |-> ph, idx |-> ix, top |-> top, result |-> resultDir, tmp |-> tmpDir, cwd |-> tcwd,
                 env |-> tenv, penv |-> penv]

\* effect of the main step of setup instruction i (of kind SetupKinds[i]) when it succeeds
SetupEffect(kind) ==
  /\ tcwd' = IF kind = "cd" THEN "act/sub" ELSE tcwd
  /\ tenv' = IF kind = "env" THEN tenv \cup {"VERIF_X"} ELSE tenv
  /\ tmpDir' = IF kind = "tmpfile" THEN tmpDir \cup {"u.txt"} ELSE tmpDir

SForward ==
  /\ Frame
  /\ ForwardStep(Scripted)
  /\ LET s == Forward[k] IN
     /\ IF s = <<"main", "setup">>
        THEN /\ (IF Scripted = "ok" THEN SetupEffect(SetupKinds[i]) ELSE UNCHANGED <<tcwd, tenv, tmpDir>>)
             /\ snaps' = IF SetupKinds[i] = "stub" THEN Append(snaps, Snap("setup", i)) ELSE snaps
             /\ UNCHANGED resultDir
        ELSE /\ UNCHANGED <<tenv, tmpDir>>
             /\ tcwd' = IF s = <<"execute", "act">> /\ Scripted = "ok" /\ fRm THEN "gone" ELSE tcwd
             /\ snaps' = IF s[1] = "main" /\ s[2] \in {"ba", "assert"} THEN Append(snaps, Snap(s[2], i)) ELSE snaps
             \* the action to check has run: result/ holds its output (with --act it goes to the process' streams)
             \* (stdout and stderr are opened before the action starts: they exist, without exit-code, if it fails)
             /\ resultDir' = IF s = <<"execute", "act">> /\ mode # "act"
                             THEN (IF Scripted = "ok" THEN ResultFiles ELSE {"stdout", "stderr"}) ELSE resultDir
  /\ UNCHANGED <<top, penv>>

SCreate ==
  /\ Frame
  /\ CreateSandbox
  /\ top' = Layout /\ tcwd' = "act"
  /\ UNCHANGED <<resultDir, tmpDir, tenv, penv, snaps>>

SCleanup ==
  /\ Frame
  /\ CleanupStep(cleanupO)
  /\ snaps' = Append(snaps, Snap("cleanup", ci))
  /\ UNCHANGED <<top, resultDir, tmpDir, tcwd, tenv, penv>>

SOther ==
  /\ Frame
  /\ (SkipStep \/ ForwardDone \/ CleanupDone \/ Report)
  /\ UNCHANGED <<top, resultDir, tmpDir, tcwd, tenv, penv, snaps>>

SNext == SForward \/ SCreate \/ SCleanup \/ SOther
SSpec == SInit /\ [][SNext]_svars

\* ---- what a case may leave in its sandbox (constant level; the harness builds one case per row) ----------
\* Entries that resist removal (no write permission; as a user other than root) or that removal and --keep must
\* treat as what they are: a symbolic link is removed, never followed; with --keep everything - contents, kinds,
\* permissions - stays exactly as the case left it.  The verdict is that of the ending, whatever is left.
LeftKinds == {"ro-dir-in-act", "ro-file-in-act", "ro-dir-in-tmp", "ro-nested", "ro-act-itself", "no-access-dir",
              "link-to-dir", "link-to-file", "dangling-link", "link-to-dir-outside",
              \* entries a program of the case puts directly into the ROOT directory of the sandbox (beside act/,
              \* tmp/, result/ ...): the sandbox is its root directory with everything in it
              "file-in-root", "dir-in-root", "ro-dir-in-root"}
LeftEndings == {"pass", "fail", "hard"}
LeftRows == {[kind |-> kd, ending |-> e, keep |-> kp] : kd \in LeftKinds, e \in LeftEndings, kp \in BOOLEAN}
LeftExit(e) == CASE e = "pass" -> 0 [] e = "fail" -> 32 [] e = "hard" -> 128
LeftExpected(r) == [exit |-> LeftExit(r.ending),
                    sandbox |-> IF r.keep THEN "kept-as-left" ELSE "removed",
                    outside |-> "untouched"]       \* what a link points to outside the sandbox is never touched

\* ---- properties -----------------------------------------------------------------------------
\* a freshly created sandbox has the documented layout, act/ is the current directory, nothing else exists yet
FreshLayout ==
  (Len(snaps) >= 1) => LET s == snaps[1] IN
     /\ s.top = Layout /\ s.cwd = "act" /\ s.result = {} /\ s.tmp = {} /\ s.phase = "setup" /\ s.idx = 1
LayoutStable == \A a \in 1..Len(snaps) : snaps[a].top = Layout
\* result/ holds exactly stdout, stderr, exit-code after the act phase and nothing before it
ActExecuted == \E a \in 1..Len(log) : log[a][1] = "execute" /\ log[a][4] = "ok"
ActAttempted == \E a \in 1..Len(log) : log[a][1] = "execute"
ResultAfterAct ==
  \A a \in 1..Len(snaps) :
     /\ (snaps[a].phase \in {"ba", "assert"} /\ mode # "act") => snaps[a].result = ResultFiles
     /\ (snaps[a].phase = "setup") => snaps[a].result = {}
     /\ snaps[a].result \in {{}, {"stdout", "stderr"}, ResultFiles}
     /\ (snaps[a].result = ResultFiles) => ActExecuted
     /\ (snaps[a].result = {"stdout", "stderr"}) => (ActAttempted /\ ~ActExecuted /\ snaps[a].phase = "cleanup")
\* Exactly itself never touches tmp/: it holds what the case's own instructions put there
TmpUntouched == \A a \in 1..Len(snaps) : snaps[a].tmp \subseteq (IF fTmp THEN {"u.txt"} ELSE {})
\* settings of the test do not leak into the process; (PhaseExec) RemovedAtEnd, ProcessStateRestored hold too
ProcessEnvUntouched == penv = {}
\* a change of directory made by the case persists for the rest of the execution (and only the case makes one)
CdPersists ==
  /\ \A a \in 1..Len(snaps) : \A b \in a..Len(snaps) :
        /\ snaps[a].cwd = "act/sub" => snaps[b].cwd \in {"act/sub", "gone"}
        /\ snaps[a].cwd = "gone" => snaps[b].cwd = "gone"
  /\ \A a \in 1..Len(snaps) : snaps[a].cwd = "gone" => (fRm /\ ActExecuted /\ snaps[a].phase # "setup")
  /\ \A a \in 1..Len(snaps) : (snaps[a].phase = "setup" /\ snaps[a].idx = Len(SetupKinds))
                                  => snaps[a].cwd = (IF fCd THEN "act/sub" ELSE "act")
  /\ \A a \in 1..Len(snaps) : snaps[a].cwd = "act/sub" => fCd
\* removing the directory the test stands in does not change how the run ends (nor ProcessStateRestored, RemovedAtEnd)
CwdRemovalHarmless == (done /\ result # <<>> /\ endK = 0 /\ cleanupO = "ok") => result[3] = "PASS"
=============================================================================
