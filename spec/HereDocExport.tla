--------------------------- MODULE HereDocExport ---------------------------
EXTENDS HereDoc, Json
Export == PrintT(<<"HERE", ToJson([body |-> body, closed |-> closed, err |-> Error])>>)
=============================================================================
