--------------------------- MODULE IntervalOpsEq ---------------------------
(***************************************************************************)
(* C13: the typed operators of IntervalOps.tla (about which Apalache       *)
(* proves the unbounded lemmas) ARE the operators of LineFilter.tla (which *)
(* TLC checks and whose predictions are replayed against the program):     *)
(* equal results for every pair of well-formed interval pairs with limits  *)
(* in Lim, every comparison and every adaption.  Constant-level (ASSUME).  *)
(***************************************************************************)
EXTENDS Integers, Sequences, FiniteSets, TLC
CONSTANTS Lim
LimDefault == (0 - 1)..3
LimQuick == 0..2
VARIABLES stack, tokens, negs, done
LF == INSTANCE LineFilter WITH MaxLines <- 4, Ks <- Lim, MaxTokens <- 1, MaxNeg <- 0, Deviations <- {}
LFD1 == INSTANCE LineFilter WITH MaxLines <- 4, Ks <- Lim, MaxTokens <- 1, MaxNeg <- 0, Deviations <- {"D1"}
T == INSTANCE IntervalOps

Plains == {LF!EmptyI, LF!UnlI} \cup {LF!Plain("up", LF!None, u) : u \in Lim} \cup {LF!Plain("lo", l, LF!None) : l \in Lim}
            \cup {LF!Plain("fin", l, u) : <<l, u>> \in {lu \in Lim \X Lim : lu[1] <= lu[2]}}
Pairs == {LF!Pair(p, q) : <<p, q>> \in Plains \X Plains}
ConvP(p) == T!Mk(p.k, p.l, p.u)
Conv(x) == T!Pair(ConvP(x.pos), ConvP(x.inv))

EqNat == \A p \in Plains : Conv(LF!Natural(p)) = T!Natural(ConvP(p))
EqLeaf == \A op \in LF!Ops, k \in Lim : Conv(LF!LeafInterval(op, k)) = T!LeafInterval(op, k)
EqAdapt == \A x \in Pairs : Conv(LF!AdaptLine(x)) = T!AdaptLine(Conv(x))
EqUnion == \A x \in Pairs, y \in Pairs : Conv(LF!Union(x, y)) = T!Union(Conv(x), Conv(y))
EqInter == \A x \in Pairs, y \in Pairs : Conv(LF!Intersection(x, y)) = T!Intersection(Conv(x), Conv(y))
EqBinOp == \A x \in Pairs, y \in Pairs, lvl \in {"i", "l"}, isU \in BOOLEAN :
              /\ Conv(LF!BinOp(lvl, isU, x, y)) = T!BinOp(lvl, isU, Conv(x), Conv(y))
              /\ Conv(LFD1!BinOp(lvl, isU, x, y)) = T!BinOpD1(lvl, isU, Conv(x), Conv(y))
EqIn == \A p \in Plains, n \in Lim : LF!In(n, p) = T!In(n, ConvP(p))

ASSUME PrintT(<<"IntervalOpsEq", Cardinality(Plains), Cardinality(Pairs)>>)
ASSUME EqNat
ASSUME EqLeaf
ASSUME EqAdapt
ASSUME EqIn
ASSUME EqUnion
ASSUME EqInter
ASSUME EqBinOp

Init == stack = <<>> /\ tokens = 0 /\ negs = 0 /\ done = TRUE
Next == UNCHANGED <<stack, tokens, negs, done>>
=============================================================================
