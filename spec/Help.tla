-------------------------------- MODULE Help --------------------------------
(***************************************************************************)
(* C20: the built-in help agrees with what the program accepts; the HTML   *)
(* reference manual has no dead links.                                     *)
(*                                                                         *)
(* The constants are bound, at check time, to the OBSERVED UNIVERSE of the *)
(* program under test (generated module HelpMC, scratch only):             *)
(*   - what the program ACCEPTS, observed through its parsers (a minimal   *)
(*     use of a name in a phase / suite section / `def TYPE` / `@[SYM]@` / *)
(*     `--reporter` / `actor =` is "unknown ..." or not),                  *)
(*   - what the help LISTS (instruction lists, entity lists, the manual's  *)
(*     articles, anchors and cross references).                            *)
(*                                                                         *)
(* Two things are specified:                                               *)
(*  1. static relations between the two sides (invariants over constants), *)
(*  2. the request grammar of `exactly help ARGUMENT...` as documented by  *)
(*     `help help`: a small machine, one action per documented form.  The  *)
(*     synopsis is ambiguous in places (a word may be an ENTITY-TYPE and   *)
(*     an INSTRUCTION) and silent in others (superfluous arguments, names  *)
(*     given in another letter case or abbreviated): there several actions *)
(*     are enabled and every reachable result is acceptable.               *)
(*                                                                         *)
(* Names are strings; an entity name is a sequence of words                *)
(* (<<"command", "line">>), a request is the sequence of all its words.    *)
(***************************************************************************)
EXTENDS Naturals, Sequences, FiniteSets, TLC

CONSTANTS
  \* ---- documented structure (help case spec / help suite spec / help help / help concept instruction)
  Phases,            \* test-case phases
  InstrPhases,       \* phases that consist of instructions (all but act)
  Sections,          \* test-suite sections
  SectionPhase,      \* [Sections -> Phases \cup {"-"}]: the phase a section corresponds to
  EntityTypes,       \* ENTITY-TYPEs listed by `help help`
  AcceptTypes,       \* entity types whose members the program accepts through an interface of its own
                     \*   (type: `def TYPE`, builtin: `@[NAME]@`, reporter: `--reporter NAME`, actor: `actor = ...`)
  \* ---- observed: accepted by the program
  Accepted,          \* [InstrPhases -> SUBSET STRING]  names the phase parser knows
  SuiteAccepted,     \* [{s \in Sections : SectionPhase[s] \in InstrPhases} -> SUBSET STRING]
  EntAccepted,       \* [AcceptTypes -> SUBSET Seq(STRING)]
  HeaderProbes,      \* words tried as `[word]` header
  AcceptedPhaseHeaders, AcceptedSectionHeaders,     \* \subseteq HeaderProbes
  \* ---- observed: listed / displayed by the help
  Listed,            \* [InstrPhases -> SUBSET STRING]  `help PHASE instructions`
  ListedAll,         \* [InstrPhases -> SUBSET STRING]  `help instructions`
  PhasePageListed,   \* [Phases -> SUBSET STRING]       list at the end of `help PHASE`
  SuiteListed,       \* [Sections -> SUBSET STRING]     "additional instructions" of `help suite SECTION`
  EntListed,         \* [EntityTypes -> SUBSET Seq(STRING)]  `help ENTITY-TYPE`
  ManualInstr,       \* sequence of <<[name] of the enclosing section, instruction>>: instruction articles of the manual
  ManualEnt,         \* sequence of <<entity type, entity name>>: entity articles of the manual
  Ids,               \* sequence: every id attribute of the manual, in document order
  Refs,              \* sequence: every internal href (without #), in document order
  LinkNames,         \* sequence of <<href, name>>: links whose text names the target (`Concept "x"`, `Phase [x]`)
  AnchorTitles,      \* sequence of <<id, title>>: anchors that carry a title
  ConsoleRefs,       \* requests printed as `(>help ...)` hints by any console page
  \* ---- request domain
  Items,             \* vocabulary: set of word sequences
  Probes,            \* small subset of Items used as superfluous third argument
  Heads,             \* first words in other letter case (HELP, Setup, TYPE ...)
  Variants,          \* names in other letter case, parts of names (only combined with Heads, family words and suite)
  ExtraRequests,     \* further requests (cross references, seeded random ones)
  LooseTo,           \* [word sequences w -> the names n such that w is not n but equals it ignoring case or is a
                     \*  part of it]: the names a word may be taken for when it is nothing exactly (a lookup table
                     \*  computed by the harness: TLC cannot look into strings)
  CaseEq,            \* <<w, n>>: w is not n but equals it ignoring case (w, n words)
  AllRequests        \* TRUE: the whole domain; FALSE: only ExtraRequests

Keywords == {"help", "htmldoc", "case", "symbol", "instructions", "suite"}
Spec_ == "spec"
Instructions_ == "instructions"

\* =========================================================================
\* The universe the help has to describe: what the program accepts
\* =========================================================================
\* directives are accepted by the parser of every instruction phase but are no instructions: they are entities of
\* their own (help directive); which accepted names are directives can only be told by the documentation
DirectiveNames == IF "directive" \in EntityTypes
                  THEN {d[1] : d \in {e \in EntListed["directive"] : Len(e) = 1}} ELSE {}
\* instructions of a phase: what its parser knows, minus the directives
Instr(p) == IF p \in InstrPhases THEN Accepted[p] \ DirectiveNames ELSE {}
\* a suite section consists of the instructions of its phase plus additional ones (help suite SECTION)
SuiteExtra(s) == IF s \in DOMAIN SuiteAccepted
                 THEN (SuiteAccepted[s] \ DirectiveNames) \ Instr(SectionPhase[s])
                 ELSE {}
\* members of an entity type: what the program accepts where it has an interface for it, else what is listed
Ent(t) == IF t \in AcceptTypes THEN EntAccepted[t] ELSE EntListed[t]

Range(s) == {s[j] : j \in DOMAIN s}
Count(s, x) == Cardinality({j \in DOMAIN s : s[j] = x})

\* =========================================================================
\* 1. Static relations R_... over the universe (constant level; the invariants of the same name are below)
\* =========================================================================
\* per phase: documented = accepted, in each of the three places that list a phase's instructions
MissingHelp  == UNION {{<<p, i>> : i \in Instr(p) \ Listed[p]} : p \in InstrPhases}    \* accepted, not documented
PhantomHelp  == UNION {{<<p, i>> : i \in Listed[p] \ Instr(p)} : p \in InstrPhases}    \* documented, not accepted
R_DocumentedIffAccepted == \A p \in InstrPhases : Listed[p] = Instr(p)
R_ListsAgree ==
  /\ \A p \in InstrPhases : ListedAll[p] = Instr(p) /\ PhasePageListed[p] = Instr(p)
  /\ \A p \in Phases \ InstrPhases : PhasePageListed[p] = {}
\* per suite section: a section accepts the instructions of its phase, and the additional ones are listed
R_SuiteDocumentedIffAccepted ==
  /\ \A s \in DOMAIN SuiteAccepted : Instr(SectionPhase[s]) \subseteq SuiteAccepted[s]
  /\ \A s \in Sections : SuiteListed[s] = SuiteExtra(s)
\* entities: listed = accepted
R_EntitiesDocumentedIffAccepted == \A t \in AcceptTypes : EntListed[t] = EntAccepted[t]
\* "accepts the including directive" (every phase page but act's; a suite section is as its phase)
R_DirectivesAccepted ==
  /\ \A p \in InstrPhases : DirectiveNames \subseteq Accepted[p]
  /\ \A s \in DOMAIN SuiteAccepted : DirectiveNames \subseteq SuiteAccepted[s]
\* "each instruction [of conf] sets one of the configuration parameters" (help conf)
R_ConfParamsAreConfInstructions ==
  "confparam" \in EntityTypes => EntListed["confparam"] = {<<i>> : i \in Instr("conf")}
\* the kinds of things the property names are entity types of the help
PropertyEntityTypes == {"type", "actor", "directive", "confparam", "builtin", "concept", "reporter"}
R_EntityTypesDocumented == PropertyEntityTypes \subseteq EntityTypes /\ AcceptTypes \subseteq EntityTypes
\* phase / section headers: accepted = documented
R_HeadersDocumentedIffAccepted ==
  /\ AcceptedPhaseHeaders = Phases \cap HeaderProbes /\ Phases \subseteq HeaderProbes
  /\ AcceptedSectionHeaders = Sections \cap HeaderProbes /\ Sections \subseteq HeaderProbes
\* the manual (`help htmldoc` = "all help information") has exactly one article per instruction and per entity
ManualInstrExpected(x, i) == (IF x \in InstrPhases /\ i \in Instr(x) THEN 1 ELSE 0)
                             + (IF x \in Sections /\ i \in SuiteExtra(x) THEN 1 ELSE 0)
ManualInstrPairs == Range(ManualInstr) \cup UNION {{<<p, i>> : i \in Instr(p)} : p \in InstrPhases}
                    \cup UNION {{<<s, i>> : i \in SuiteExtra(s)} : s \in Sections}
ManualInstrBad == {x \in ManualInstrPairs : Count(ManualInstr, x) # ManualInstrExpected(x[1], x[2])}
R_ManualCoversInstructions == ManualInstrBad = {}
ManualEntPairs == Range(ManualEnt) \cup UNION {{<<t, n>> : n \in Ent(t)} : t \in EntityTypes}
ManualEntBad == {x \in ManualEntPairs :
                   Count(ManualEnt, x) # (IF x[1] \in EntityTypes /\ x[2] \in Ent(x[1]) THEN 1 ELSE 0)}
R_ManualCoversEntities == ManualEntBad = {}
\* the manual: every internal cross reference points at an anchor that exists exactly once
DuplicateIds == {Ids[j] : j \in {k \in DOMAIN Ids : \E l \in DOMAIN Ids : l # k /\ Ids[l] = Ids[k]}}
DeadRefs == {Refs[j] : j \in {k \in DOMAIN Refs : \A l \in DOMAIN Ids : Ids[l] # Refs[k]}}
R_AnchorsUnique == \A j, k \in DOMAIN Ids : Ids[j] = Ids[k] => j = k
R_EveryRefHasAnchor == \A j \in DOMAIN Refs : \E k \in DOMAIN Ids : Ids[k] = Refs[j]
R_RefTargetExactlyOnce == \A j \in DOMAIN Refs : Cardinality({k \in DOMAIN Ids : Ids[k] = Refs[j]}) = 1
\* ... and a link whose text names its target points at the anchor with that title
MisnamedLinks == {l \in Range(LinkNames) : \E a \in Range(AnchorTitles) : a[1] = l[1] /\ a[2] # l[2]}
R_LinkNamesItsTarget == MisnamedLinks = {}

\* =========================================================================
\* 2. The request grammar (help help) as a machine: one action per form
\* =========================================================================
Domain ==
  IF ~AllRequests THEN ExtraRequests
  ELSE {<<>>} \cup Items \cup {x \o y : x \in Items, y \in Items}
       \cup {<<"suite", s>> \o x : s \in Sections, x \in Items \cup Variants}
       \cup {<<p, x[1], y[1]>> : p \in Phases, x \in {z \in Probes : Len(z) = 1}, y \in {z \in Probes : Len(z) = 1}}
       \cup Variants \cup {<<h>> \o v : h \in Heads, v \in Items \cup Variants}
       \cup ExtraRequests

VARIABLES req,     \* the request (never changes)
          stage,   \* "start", a form family, or "done"
          first,   \* the first word as it is interpreted
          args,    \* the remaining words
          exact,   \* FALSE once a word has been interpreted loosely (other letter case / abbreviation)
          res      \* the result
vars == <<req, stage, first, args, exact, res>>

NoItems == {}
Result(kind, a, b, items) == [kind |-> kind, a |-> a, b |-> b, items |-> items, exact |-> exact]
None == [kind |-> "none", a |-> <<>>, b |-> <<>>, items |-> NoItems, exact |-> TRUE]
Families == Keywords \cup {"entity", "phase", "other"}
PageKinds == {"program", "help", "htmldoc", "case-cli", "case-spec", "suite-cli", "suite-spec", "symbol-cli",
              "instr-all", "phase", "instr-list", "instr", "search", "section", "suite-instr",
              "entity-list", "entity"}
ResultKinds == PageKinds \cup {"invalid", "unspecified"}

InstrNames == UNION {Instr(p) : p \in InstrPhases}
PhasesWith(i) == {p \in InstrPhases : i \in Instr(p)}
LooseOf(w, universe) == IF w \in DOMAIN LooseTo THEN LooseTo[w] \cap universe ELSE {}

\* the readings of the first word of a request: keyword, entity type, phase; if it is none of these - or also, when
\* it is the only word and names an instruction (`help INSTRUCTION`) - "other"
ReadingsOf(w, n) ==
  LET named == (IF w \in Keywords THEN {w} ELSE {}) \cup (IF w \in EntityTypes THEN {"entity"} ELSE {})
               \cup (IF w \in Phases THEN {"phase"} ELSE {})
  IN  named \cup (IF named = {} \/ (n = 1 /\ w \in InstrNames) THEN {"other"} ELSE {})
Readings(r) == ReadingsOf(r[1], Len(r))

Init ==
  /\ req \in Domain
  /\ stage = "start" /\ first = "" /\ args = <<>> /\ exact = TRUE /\ res = None

Finish(r) == /\ res' = r /\ stage' = "done" /\ UNCHANGED <<req, first, args, exact>>
Invalid == Result("invalid", <<>>, <<>>, NoItems)

\* ---- help ------------------------------------------------------------------------------------------------
Empty == /\ stage = "start" /\ req = <<>>
         /\ Finish(Result("program", <<>>, <<>>, NoItems))

\* the first word selects the family of forms
Classify == /\ stage = "start" /\ req # <<>>
            /\ first' = Head(req) /\ args' = Tail(req)
            /\ stage' \in Readings(req)
            /\ UNCHANGED <<req, exact, res>>
\* ... the synopsis does not say whether HELP, Setup, TYPE are the words help, setup, type
FoldCase == /\ stage = "start" /\ req # <<>>
            /\ \E k \in Keywords \cup EntityTypes \cup Phases :
                  /\ <<Head(req), k>> \in CaseEq
                  /\ first' = k /\ stage' \in ReadingsOf(k, Len(req)) \ {"other"}
            /\ args' = Tail(req) /\ exact' = FALSE
            /\ UNCHANGED <<req, res>>

\* ---- help help / htmldoc / case / symbol / instructions -----------------------------------------------------
HelpPage     == stage = "help" /\ args = <<>> /\ Finish(Result("help", <<>>, <<>>, {<<t>> : t \in EntityTypes}))
HtmlDoc      == stage = "htmldoc" /\ args = <<>> /\ Finish(Result("htmldoc", <<>>, <<>>, NoItems))
CaseCli      == stage = "case" /\ args = <<>> /\ Finish(Result("case-cli", <<>>, <<>>, NoItems))
CaseSpec     == stage = "case" /\ args = <<Spec_>> /\ Finish(Result("case-spec", <<>>, <<>>, NoItems))
SymbolCli    == stage = "symbol" /\ args = <<>> /\ Finish(Result("symbol-cli", <<>>, <<>>, NoItems))
AllInstructions ==
  /\ stage = "instructions" /\ args = <<>>
  /\ Finish(Result("instr-all", <<>>, <<>>, UNION {{<<p, i>> : i \in Instr(p)} : p \in InstrPhases}))

\* ---- help suite ... -----------------------------------------------------------------------------------------
SectionWords == {<<s>> : s \in Sections}
CaseEqOf(w, universe) == {n \in universe : <<w, n>> \in CaseEq}
SuiteCli  == stage = "suite" /\ args = <<>> /\ Finish(Result("suite-cli", <<>>, <<>>, NoItems))
SuiteSpec == stage = "suite" /\ args = <<Spec_>> /\ Finish(Result("suite-spec", <<>>, <<>>, NoItems))
SuiteSection ==
  /\ stage = "suite" /\ Len(args) = 1 /\ args[1] \in Sections
  /\ Finish(Result("section", <<args[1]>>, <<>>, {<<i>> : i \in SuiteExtra(args[1])}))
\* `help suite SECTION [INSTRUCTION]` with something that is not a section
NotASection == stage = "suite" /\ Len(args) \in {1, 2} /\ args[1] \notin Sections /\ args # <<Spec_>>
SuiteNoSuchSection ==
  /\ NotASection /\ CaseEqOf(args[1], Sections) = {}
  /\ Finish(Invalid)
SuiteInstruction ==
  /\ stage = "suite" /\ Len(args) = 2 /\ args[1] \in Sections /\ args[2] \in SuiteExtra(args[1])
  /\ Finish(Result("suite-instr", <<args[1]>>, <<args[2]>>, NoItems))
\* ... with something that is not an additional instruction of the section
NotASuiteInstr == stage = "suite" /\ Len(args) = 2 /\ args[1] \in Sections /\ args[2] \notin SuiteExtra(args[1])
SuiteInstrLooseSet == LooseOf(<<args[2]>>, {<<i>> : i \in SuiteExtra(args[1])})
SuiteInstrLoose ==
  /\ NotASuiteInstr
  /\ \E n \in SuiteInstrLooseSet : args' = <<args[1], n[1]>> /\ exact' = FALSE
  /\ UNCHANGED <<req, stage, first, res>>
SuiteInstrNone ==
  /\ NotASuiteInstr /\ SuiteInstrLooseSet = {}
  /\ Finish(Invalid)

\* ---- help ENTITY-TYPE [ENTITY-NAME] -----------------------------------------------------------------------
EntityList ==
  /\ stage = "entity" /\ args = <<>>
  /\ Finish(Result("entity-list", <<first>>, <<>>, Ent(first)))
EntityExact ==
  /\ stage = "entity" /\ args \in Ent(first)
  /\ Finish(Result("entity", <<first>>, args, NoItems))
NotAnEntity == stage = "entity" /\ args # <<>> /\ args \notin Ent(first)
EntityLoose ==
  /\ NotAnEntity
  /\ \E n \in LooseOf(args, Ent(first)) : args' = n /\ exact' = FALSE
  /\ UNCHANGED <<req, stage, first, res>>
EntityNone ==
  /\ NotAnEntity /\ LooseOf(args, Ent(first)) = {}
  /\ Finish(Invalid)

\* ---- help PHASE / PHASE instructions / PHASE INSTRUCTION ------------------------------------------------------
PhasePage ==
  /\ stage = "phase" /\ args = <<>>
  /\ Finish(Result("phase", <<first>>, <<>>, {<<i>> : i \in Instr(first)}))
PhaseInstructionList ==
  /\ stage = "phase" /\ args = <<Instructions_>> /\ first \in InstrPhases
  /\ Finish(Result("instr-list", <<first>>, <<>>, {<<i>> : i \in Instr(first)}))
PhaseInstrExact ==
  /\ stage = "phase" /\ Len(args) = 1 /\ args[1] \in Instr(first)
  /\ Finish(Result("instr", <<first>>, args, NoItems))
\* ... with something that is neither the word instructions nor an instruction of the phase
NotAPhaseInstr == stage = "phase" /\ Len(args) = 1 /\ args[1] \notin Instr(first) /\ args # <<Instructions_>>
PhaseInstrLooseSet == LooseOf(args, {<<i>> : i \in Instr(first)})
PhaseInstrLoose ==
  /\ NotAPhaseInstr
  /\ \E n \in PhaseInstrLooseSet : args' = n /\ exact' = FALSE
  /\ UNCHANGED <<req, stage, first, res>>
PhaseInstrNone ==
  /\ NotAPhaseInstr /\ PhaseInstrLooseSet = {}
  /\ Finish(Invalid)

\* ---- help INSTRUCTION (all phases), or a first word that is nothing -----------------------------------------
SearchFound ==
  /\ stage = "other" /\ args = <<>> /\ first \in InstrNames
  /\ Finish(Result("search", <<>>, <<first>>, {<<p>> : p \in PhasesWith(first)}))
NotAnInstr == stage = "other" /\ args = <<>> /\ first \notin InstrNames
SearchLooseSet == LooseOf(<<first>>, {<<i>> : i \in InstrNames})
SearchLoose ==
  /\ NotAnInstr
  /\ \E n \in SearchLooseSet : first' = n[1] /\ exact' = FALSE
  /\ UNCHANGED <<req, stage, args, res>>
SearchNone ==
  /\ NotAnInstr /\ SearchLooseSet = {}
  /\ Finish(Invalid)
NoSuchPhase ==            \* `help PHASE INSTRUCTION` with something that is not a phase
  /\ stage = "other" /\ Len(args) = 1
  /\ Finish(Invalid)

\* ---- a word that only matches loosely may as well be refused ---------------------------------------------------
LooseReject ==
  /\ \/ NotASuiteInstr /\ SuiteInstrLooseSet # {}
     \/ NotASection /\ CaseEqOf(args[1], Sections) # {}
     \/ NotAnEntity /\ LooseOf(args, Ent(first)) # {}
     \/ NotAPhaseInstr /\ PhaseInstrLooseSet # {}
     \/ NotAnInstr /\ SearchLooseSet # {}
  /\ Finish(Invalid)

\* ---- shapes the synopsis has no form for: nothing is specified ------------------------------------------------
OutsideSynopsis ==
  /\ \/ stage \in {"help", "htmldoc", "symbol", "instructions"} /\ args # <<>>
     \/ stage = "case" /\ args \notin {<<>>, <<Spec_>>}
     \/ stage = "suite" /\ Len(args) >= 3
     \/ NotASection /\ CaseEqOf(args[1], Sections) # {}             \* [CONF]: a section or not
     \/ stage = "phase" /\ Len(args) >= 2
     \/ stage = "phase" /\ args = <<Instructions_>> /\ first \notin InstrPhases
     \/ stage = "other" /\ Len(args) >= 2
  /\ Finish(Result("unspecified", <<>>, <<>>, NoItems))

Next == \/ Empty \/ Classify \/ FoldCase
        \/ HelpPage \/ HtmlDoc \/ CaseCli \/ CaseSpec \/ SymbolCli \/ AllInstructions
        \/ SuiteCli \/ SuiteSpec \/ SuiteSection \/ SuiteNoSuchSection
        \/ SuiteInstruction \/ SuiteInstrLoose \/ SuiteInstrNone
        \/ EntityList \/ EntityExact \/ EntityLoose \/ EntityNone
        \/ PhasePage \/ PhaseInstructionList \/ PhaseInstrExact \/ PhaseInstrLoose \/ PhaseInstrNone
        \/ SearchFound \/ SearchLoose \/ SearchNone \/ NoSuchPhase
        \/ LooseReject \/ OutsideSynopsis
Spec == Init /\ [][Next]_vars

\* =========================================================================
\* The static relations as invariants (TLC wants an invariant to mention the state; they are evaluated once per request)
\* =========================================================================
OnUniverse(R) == (stage = "start") => R
DocumentedIffAccepted == OnUniverse(R_DocumentedIffAccepted)
ListsAgree == OnUniverse(R_ListsAgree)
SuiteDocumentedIffAccepted == OnUniverse(R_SuiteDocumentedIffAccepted)
EntitiesDocumentedIffAccepted == OnUniverse(R_EntitiesDocumentedIffAccepted)
DirectivesAccepted == OnUniverse(R_DirectivesAccepted)
ConfParamsAreConfInstructions == OnUniverse(R_ConfParamsAreConfInstructions)
EntityTypesDocumented == OnUniverse(R_EntityTypesDocumented)
HeadersDocumentedIffAccepted == OnUniverse(R_HeadersDocumentedIffAccepted)
ManualCoversInstructions == OnUniverse(R_ManualCoversInstructions)
ManualCoversEntities == OnUniverse(R_ManualCoversEntities)
AnchorsUnique == OnUniverse(R_AnchorsUnique)
EveryRefHasAnchor == OnUniverse(R_EveryRefHasAnchor)
RefTargetExactlyOnce == OnUniverse(R_RefTargetExactlyOnce)
LinkNamesItsTarget == OnUniverse(R_LinkNamesItsTarget)

\* =========================================================================
\* Properties of the machine on this universe
\* =========================================================================
Done == stage = "done"
TypeOK == /\ stage \in Families \cup {"start", "done"}
          /\ res.kind \in ResultKinds \cup {"none"}
          /\ exact \in BOOLEAN
\* every request gets an answer: a page, invalid, or (outside the synopsis) unspecified
ResolveTotal == /\ Done => res.kind \in ResultKinds
                /\ ~Done => ENABLED Next
                /\ ~Done => res = None
\* a page is only ever shown for something that exists
PagesOnlyForWhatExists ==
  Done => /\ res.kind = "instr" => res.b[1] \in Instr(res.a[1])
          /\ res.kind = "suite-instr" => res.b[1] \in SuiteExtra(res.a[1])
          /\ res.kind = "entity" => res.b \in Ent(res.a[1])
          /\ res.kind = "search" => res.b[1] \in InstrNames /\ res.items # {}
          /\ res.kind = "phase" => res.a[1] \in Phases
          /\ res.kind = "section" => res.a[1] \in Sections
\* the canonical request for each thing the program accepts leads to its page and to nothing else
\* (fails if the universe shadows itself: an instruction called "instructions", an entity type called like a phase)
EveryInstructionResolves ==
  (Done /\ Len(req) = 2 /\ req[1] \in InstrPhases /\ req[2] \in Instr(req[1]))
     => res = [kind |-> "instr", a |-> <<req[1]>>, b |-> <<req[2]>>, items |-> NoItems, exact |-> TRUE]
EverySuiteInstructionResolves ==
  (Done /\ Len(req) = 3 /\ req[1] = "suite" /\ req[2] \in Sections /\ req[3] \in SuiteExtra(req[2]))
     => res = [kind |-> "suite-instr", a |-> <<req[2]>>, b |-> <<req[3]>>, items |-> NoItems, exact |-> TRUE]
EveryEntityResolves ==
  (Done /\ Len(req) >= 2 /\ req[1] \in EntityTypes /\ Tail(req) \in Ent(req[1]))
     => res = [kind |-> "entity", a |-> <<req[1]>>, b |-> Tail(req), items |-> NoItems, exact |-> TRUE]
EveryListResolves ==
  /\ (Done /\ Len(req) = 1 /\ Readings(req) = {"entity"}) => (res.kind = "entity-list" /\ res.items = Ent(req[1]))
  /\ (Done /\ Len(req) = 1 /\ Readings(req) = {"phase"}) => (res.kind = "phase" /\ res.a = req)
  /\ (Done /\ Len(req) = 2 /\ Readings(req) = {"phase"} /\ req[1] \in InstrPhases /\ req[2] = Instructions_
            /\ Instructions_ \notin Instr(req[1]))
        => (res.kind = "instr-list" /\ res.items = {<<i>> : i \in Instr(req[1])})
\* where the synopsis is ambiguous (`help actor`: ENTITY-TYPE or INSTRUCTION) the answer is one of the readings
AmbiguousFirstWord ==
  (Done /\ Len(req) = 1 /\ Cardinality(Readings(req)) > 1)
     => res.kind \in {"entity-list", "phase", "search", "help", "htmldoc", "case-cli", "suite-cli", "symbol-cli",
                      "instr-all"}
\* every `(>help ...)` hint printed by the help is a request with exactly one meaning: a page
EveryConsoleRefResolves ==
  (Done /\ req \in ConsoleRefs) => (res.kind \in PageKinds /\ res.exact)
=============================================================================
