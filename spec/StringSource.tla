---------------------------- MODULE StringSource ----------------------------
(***************************************************************************)
(* C14: a text has ONE value however it is consumed.                       *)
(*                                                                         *)
(* A text source (a file, the output of a program, or one of these after a *)
(* chain of value-preserving transformers) is consumed by a sequence of    *)
(* observers, each reading it its own way: line by line, as one string, as *)
(* a file, through the stdin of a process.  With two or more observers the *)
(* text is frozen (cached for reuse) before the first access, in memory or *)
(* on disk depending on the size of the memory buffer.  The specification  *)
(* is trivial by design: every access returns the one value, whose lines   *)
(* are divided at new-line characters only - whatever the source kind, the *)
(* transformer chain, the order of accesses, the freeze and the buffer     *)
(* size.  TLC enumerates all of these; the implementation must agree.      *)
(*                                                                         *)
(* Characters: 0 NL, 1 a, 2 CR, 3 FF, 4 LS (U+2028), 5 b.                  *)
(* A text is [unit, reps]: unit repeated reps times.                       *)
(***************************************************************************)
EXTENDS Naturals, Sequences, FiniteSets, TLC

CONSTANTS MaxObs,      \* longest sequence of observers
          TextIds,     \* which of the texts below are explored
          Chains,      \* which transformer chains are explored
          MemClasses   \* which buffer-size classes are explored

NL == 0  CA == 1  CR == 2  FF == 3  LS == 4  CB == 5
Texts == << [unit |-> <<>>, reps |-> 1],
            [unit |-> <<CA>>, reps |-> 1],
            [unit |-> <<CA, NL>>, reps |-> 1],
            [unit |-> <<CA, NL, CB>>, reps |-> 1],
            [unit |-> <<CA, NL, CB, NL>>, reps |-> 1],
            [unit |-> <<CA, FF, CB, NL>>, reps |-> 1],
            [unit |-> <<CA, LS, CB>>, reps |-> 1],
            [unit |-> <<FF>>, reps |-> 1],
            [unit |-> <<NL, NL>>, reps |-> 1],
            [unit |-> <<CA, FF, NL, LS, CB, NL, CA>>, reps |-> 1],
            [unit |-> <<CA, CB, NL>>, reps |-> 3000],          \* larger than the default memory buffer
            [unit |-> <<CA, FF, CB, NL>>, reps |-> 2500],
            [unit |-> <<CA, CR, NL, CB, CR, NL>>, reps |-> 1],  \* CR LF line ends
            [unit |-> <<CA, CR, CB>>, reps |-> 1],
            \* a short first line followed by a line longer than any look-ahead a comparison may use
            [unit |-> <<CA, NL>> \o [j \in 1..130 |-> CB] \o <<NL>>, reps |-> 1],
            [unit |-> <<CA, NL>> \o [j \in 1..130 |-> CB], reps |-> 1],
            \* characters of more than one byte BEFORE the point where a small memory buffer is given up for a file
            [unit |-> <<LS, CA, NL, CB, NL, CA, NL>>, reps |-> 1],
            [unit |-> <<LS, LS, NL, CB>>, reps |-> 1],
            [unit |-> <<LS, CB, NL>>, reps |-> 3000],
            \* a first line longer than any look-ahead, followed by little more
            [unit |-> [j \in 1..130 |-> CB] \o <<NL, CA, NL>>, reps |-> 1],
            [unit |-> [j \in 1..130 |-> CB] \o <<NL, NL>>, reps |-> 1] >>
Kinds == {"file", "program"}
\* num-lines / matches -full / equals -contents-of / run / the lines after the first (a consumer that reads the
\* head of the text in one pass over its lines and the rest in a second one) / the first line only
\* / "notfirst": the text compared with a text held in memory - its own first line - which it equals only if it has
\* no more than that line
\* / "peek": a consumer that stops reading after the first line (any line : line-num == 1)
Observers == {"lines", "str", "file", "stdin", "tail", "head", "notfirst", "peek"}

RECURSIVE CountNL(_)
CountNL(s) == IF s = <<>> THEN 0 ELSE (IF Head(s) = NL THEN 1 ELSE 0) + CountNL(Tail(s))
EndsNL(s) == s # <<>> /\ s[Len(s)] = NL
\* lines are divided at NL only
NumLines(tx) == tx.reps * CountNL(tx.unit) + (IF tx.unit # <<>> /\ ~EndsNL(tx.unit) THEN 1 ELSE 0)
RECURSIVE UpToNL(_)
UpToNL(q) == IF q = <<>> THEN <<>> ELSE IF Head(q) = NL THEN <<NL>> ELSE <<Head(q)>> \o UpToNL(Tail(q))
FirstLine(tx) == UpToNL(tx.unit)                       \* (the unit of every text with reps > 1 ends a line)
IsOnlyFirstLine(tx) == tx.reps = 1 /\ FirstLine(tx) = tx.unit
TailLines(tx) == IF NumLines(tx) = 0 THEN 0 ELSE NumLines(tx) - 1
HeadLines(tx) == IF NumLines(tx) = 0 THEN 0 ELSE 1
TextLen(tx) == tx.reps * Len(tx.unit)

VARIABLES text, kind, chain, mem,    \* the case (chosen in Init)
          n,                         \* number of observers the expression has
          frozen, repr,              \* cached for reuse? where?
          hist                       \* observers applied so far, each with the value it saw
vars == <<text, kind, chain, mem, n, frozen, repr, hist>>

Value == text          \* THE value: no access, freeze or buffer size changes it (the chains are value preserving)

Init == /\ text \in {Texts[j] : j \in TextIds} /\ kind \in Kinds /\ chain \in Chains /\ mem \in MemClasses
        /\ n \in 1..MaxObs /\ frozen = FALSE /\ repr = "none" /\ hist = <<>>
        \* a text as long as the multi-line ones must not be multiplied by every chain and buffer class
        /\ (text.reps > 1 => chain \in {"none", "filter"} /\ mem \in {"default", "len"})

\* a conjunction of two or more matchers freezes the text before the first of them reads it
Freeze == /\ n >= 2 /\ ~frozen /\ hist = <<>>
          /\ frozen' = TRUE /\ UNCHANGED <<text, kind, chain, mem, n, repr, hist>>
BufferHolds == CASE mem = "1" -> TextLen(text) <= 1 [] mem = "len" -> TRUE [] mem = "len+1" -> TRUE
                 [] mem = "len-1" -> TextLen(text) = 0 [] mem = "default" -> TextLen(text) <= 8192
Access(o) == /\ Len(hist) < n /\ (n >= 2 => frozen)
             /\ hist' = Append(hist, <<o, Value>>)
             /\ repr' = IF frozen /\ repr = "none" THEN (IF BufferHolds THEN "memory" ELSE "disk") ELSE repr
             /\ UNCHANGED <<text, kind, chain, mem, n, frozen>>
Next == Freeze \/ \E o \in Observers : Access(o)
Spec == Init /\ [][Next]_vars

Done == Len(hist) = n
OneValue == \A j \in 1..Len(hist) : hist[j][2] = Value
FrozenBeforeShared == (Len(hist) >= 1 /\ n >= 2) => frozen
ReprOnlyWhenFrozen == (repr # "none") => frozen
=============================================================================
