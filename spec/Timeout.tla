------------------------------ MODULE Timeout ------------------------------
(***************************************************************************)
(* C19: timeouts are enforced on every OS process; Exactly never waits     *)
(* indefinitely.                                                           *)
(*                                                                         *)
(* A refinement of PhaseExec with discrete time.  A case has ONE use of a  *)
(* program at a place (a phase and a kind of program use), a child with a  *)
(* behaviour (exits before the limit / runs past it / runs past it and     *)
(* ignores SIGTERM), a history of `timeout` instructions relative to the   *)
(* use, and possibly an `env` instruction in [setup].  While the step that *)
(* uses the program executes, a process sub-machine runs: Start, Tick,     *)
(* ChildExit, Kill.  Kill is urgent: time does not pass beyond the limit   *)
(* while the process runs.  The outcome of the step is what PhaseExec is   *)
(* given: hard error if the process was killed, ok otherwise - so that     *)
(* everything PhaseExec guarantees (cleanup, removal of the sandbox,       *)
(* reported outcome) follows.                                              *)
(***************************************************************************)
EXTENDS PhaseExec

CONSTANTS Limit,       \* the limit set by `timeout = N`, in ticks
          ShortDur,    \* how long a "short" child runs (< Limit)
          LongDur,     \* how long a "long" / "stubborn" child runs (> Limit)
          Places,      \* phases in which the program is used: subset of {"setup","act","ba","assert","cleanup"}
          Histories,   \* subset of the timeout histories below
          Deviations   \* {"CapturedAtDeclaration"}: sharpness control - the limit is the one in force where the
                       \* instruction that names the program stands, not where the process starts ({} in a check)

NoLimit == 1000
\* where the timeout instructions are, relative to the use, and what is in force at the use
\*   default        no timeout instruction: the default (far beyond every duration here)
\*   set-before     timeout = N in [setup] before the use
\*   set-after      timeout = N after the use (later in the phase / in a later phase): not in force at the use
\*   none-then-set  timeout = none, then timeout = N, both before the use
\*   set-then-none  timeout = N, then timeout = none, both before the use: lifted from that point on
\* "the use" is the point at which the process STARTS.  For a program that feeds the stdin of the action to check
\* (stdin = -stdout-from PROGRAM in [setup]) that is the act phase, later than the instruction that names it:
\*   decl-then-set  stdin = ..., then timeout = N, both in [setup]: in force when the process starts
\*   set-decl-none  timeout = N, stdin = ..., timeout = none: lifted when the process starts
\*   zero-before    timeout = 0 in [setup] before the use: a limit like any other - no process gets any time
\*   none-then-zero timeout = none, then timeout = 0 (0 is a number, not another way of writing "none")
DeclHistories == {"decl-then-set", "set-decl-none"}
LimitAtUse(h) == IF h \in {"set-before", "none-then-set", "decl-then-set"} THEN Limit
                 ELSE IF h \in {"zero-before", "none-then-zero"} THEN 0 ELSE NoLimit
\* what the process is given when it starts: the limit that was set, none, or the documented default (60 s)
AtStart(h) == IF LimitAtUse(h) = 0 THEN "zero" ELSE IF LimitAtUse(h) # NoLimit THEN "set"
              ELSE IF h \in {"set-then-none", "set-decl-none"} THEN "none" ELSE "default"
Uses(p) == CASE p = "act" -> {"actor-command-line", "actor-shell", "actor-file", "actor-source", "stdin-from-program"}
             [] p = "assert" -> {"run", "shell", "percent", "file-from-stdout", "transformer-run", "text-matcher-run",
                                 "file-matcher-run", "exit-code-from", "stdout-from", "env-from-stdout",
                                 "stdout-from-transformed",      \* (the program is the TRANSFORMER of another's output)
                                 "prune-matcher-run",            \* (... the matcher that prunes a recursive dir-contents)
                                 "selection-matcher-run"}
             [] OTHER -> {"run", "shell", "percent", "file-from-stdout", "transformer-run", "env-from-stdout"}
Dur(c) == IF c = "short" THEN ShortDur ELSE LongDur

VARIABLES place, use, child, hist, envSet,     \* the case
          proc,      \* notstarted / running / exited / killed
          clock,     \* ticks since the process started
          total      \* ticks Exactly has spent altogether
tvars == <<vars, place, use, child, hist, envSet, proc, clock, total>>
Frame == UNCHANGED <<place, use, child, hist, envSet>>

PhaseKey(p) == p
TInit ==
  /\ place \in Places /\ use \in Uses(place) /\ child \in {"short", "long", "stubborn"}
  /\ hist \in Histories /\ envSet \in BOOLEAN
  /\ (hist \in DeclHistories) => (use = "stdin-from-program")
  /\ n = [p \in Phases |-> IF p = "conf" THEN 0 ELSE IF p = "cleanup" THEN (IF place = "cleanup" THEN 2 ELSE 1)
                           ELSE IF p = place THEN 1 ELSE 0]
  /\ tcStatus = "PASS" /\ mode = "normal"
  /\ k = 1 /\ i = 1 /\ sds = "none" /\ cwd = "orig" /\ prev = "-" /\ fail = <<>> /\ cfail = <<>>
  /\ inCleanup = FALSE /\ ci = 1 /\ cleanupEntered = 0 /\ mains = 0
  /\ log = <<>> /\ done = FALSE /\ result = <<>>
  /\ proc = "notstarted" /\ clock = 0 /\ total = 0

\* the step during which the program runs: act/execute, the main step of the place, or cleanup instruction 1
AtUseStep ==
  IF place = "cleanup" THEN inCleanup /\ ci = 1 /\ ~done
  ELSE ~inCleanup /\ ~done /\ k <= NF /\ i = 1
       /\ Forward[k] = (IF place = "act" THEN <<"execute", "act">> ELSE <<"main", place>>)

Start == /\ AtUseStep /\ proc = "notstarted"
         /\ proc' = "running" /\ clock' = 0 /\ UNCHANGED <<vars, total>> /\ Frame
\* the limit the MACHINE applies (the properties speak of LimitAtUse)
MachineLimit(h) == IF "CapturedAtDeclaration" \in Deviations /\ h = "decl-then-set" THEN NoLimit
                   ELSE IF "CapturedAtDeclaration" \in Deviations /\ h = "set-decl-none" THEN Limit
                   ELSE LimitAtUse(h)
Over == MachineLimit(hist) # NoLimit /\ clock > MachineLimit(hist)
Tick == /\ proc = "running" /\ ~Over /\ clock < Dur(child)
        /\ clock' = clock + 1 /\ total' = total + 1 /\ UNCHANGED <<vars, proc>> /\ Frame
ChildExit == /\ proc = "running" /\ ~Over /\ clock = Dur(child)
             /\ proc' = "exited" /\ UNCHANGED <<vars, clock, total>> /\ Frame
\* whatever the child does with SIGTERM: it is gone after Kill
Kill == /\ proc = "running" /\ Over
        /\ proc' = "killed" /\ UNCHANGED <<vars, clock, total>> /\ Frame

StepOutcome == IF proc = "killed" THEN "he_ret" ELSE "ok"
\* PhaseExec takes its steps; the step that uses the program waits for the process
ExecStep ==
  /\ ~(AtUseStep /\ proc \in {"notstarted", "running"})
  /\ \/ SkipStep \/ CreateSandbox \/ ForwardDone \/ CleanupDone \/ Report
     \/ ForwardStep(IF AtUseStep THEN StepOutcome ELSE "ok")
     \/ CleanupStep(IF AtUseStep THEN StepOutcome ELSE "ok")
  /\ UNCHANGED <<proc, clock, total>> /\ Frame

TNext == Start \/ Tick \/ ChildExit \/ Kill \/ ExecStep
TSpec == TInit /\ [][TNext]_tvars
TFairSpec == TSpec /\ WF_tvars(TNext)

\* ---- properties -----------------------------------------------------------------------------
Limited == LimitAtUse(hist) # NoLimit
\* a process never runs beyond the limit in force at its start (by more than the tick in which that is noticed)
KilledWhenOver == (proc = "running" /\ Limited) => clock <= LimitAtUse(hist) + 1
MustBeKilled == Limited /\ Dur(child) > LimitAtUse(hist)
TerminatedWhenOver == (done /\ MustBeKilled) => proc = "killed"
\* ... and is not touched before
NotKilledWhenUnder == (proc = "killed") => (Limited /\ clock > LimitAtUse(hist))
RunsToCompletionOtherwise == (done /\ ~MustBeKilled) => proc = "exited"
\* the step is reported as HARD_ERROR, in the phase of the use
StepIsHardError ==
  (result # <<>> /\ proc = "killed") => (result[3] = "HARD_ERROR" /\ result[2] = place)
PassOtherwise == (result # <<>> /\ proc = "exited") => result[3] = "PASS"
\* cleanup still runs (its marker instruction is the last cleanup instruction), the sandbox is removed
CleanupStillRuns ==
  (done /\ proc = "killed" /\ place # "cleanup") =>
     \E a \in 1..Len(log) : log[a][1] = "main" /\ log[a][2] = "cleanup" /\ log[a][4] = "ok"
\* Exactly returns within a bounded time after the limit
BoundedReturn == Limited => total <= LimitAtUse(hist) + 1
SpendsTheChildsTime == (done /\ ~MustBeKilled) => total = Dur(child)
\* liveness: it always returns
Returns == <>(done /\ result # <<>>)
=============================================================================
