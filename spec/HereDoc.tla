------------------------------ MODULE HereDoc ------------------------------
(***************************************************************************)
(* C09: here-documents (`<<MARKER`, lines, MARKER).  A line-level machine: *)
(* after the instruction line `... <<EOF` one line is read per step; the   *)
(* document ends at the first line that equals the marker exactly.  Lines  *)
(* that only resemble the marker, phase headers, comments and empty lines  *)
(* are contents.  A missing end marker is an error of the instruction.     *)
(* Line kinds (rendered by the harness):                                   *)
(*  1 text  2 text with a symbol reference  3 marker + trailing blank      *)
(*  4 blank + marker  5 looks like a phase header  6 looks like a comment  *)
(*  7 empty  8 quote characters  9 marker as a prefix of a longer word     *)
(*  10 blanks only  11 a tab only  (contents like any other line: kept     *)
(*  character by character)                                                *)
(***************************************************************************)
EXTENDS Naturals, Sequences, TLC

CONSTANTS Kinds, MaxLines

VARIABLES body,     \* kinds of the lines read so far
          closed    \* the end marker has been read
vars == <<body, closed>>

Init == body = <<>> /\ closed = FALSE
ReadLine(k) == ~closed /\ Len(body) < MaxLines /\ k \in Kinds /\ body' = Append(body, k) /\ UNCHANGED closed
ReadMarker == ~closed /\ closed' = TRUE /\ UNCHANGED body
Next == ReadMarker \/ \E k \in Kinds : ReadLine(k)
Spec == Init /\ [][Next]_vars

\* what the instruction denotes if the file ends here
Error == ~closed                      \* end marker missing
Contents == body                      \* every line read before the marker, in order, each ended by new-line

ContentsBeforeMarkerOnly == [][closed => UNCHANGED body]_vars
=============================================================================
