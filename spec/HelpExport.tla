----------------------------- MODULE HelpExport -----------------------------
(* Export for the harness:                                                   *)
(*  - Export: every (request, acceptable result) pair of the request         *)
(*    machine, for replay against the real `exactly help ...`;               *)
(*  - ExportStatic: TLC's judgement of the static relations over the         *)
(*    observed universe - the discrepancy sets, so that a violated           *)
(*    invariant is reported with the names it is about.                      *)
EXTENDS Help, Json

Export == Done => PrintT(<<"CASE", ToJson([req |-> req, res |-> res])>>)

StaticReport ==
  [ MissingHelp        |-> MissingHelp,
    PhantomHelp        |-> PhantomHelp,
    ListedAllDiffers   |-> UNION {{<<p, i>> : i \in (ListedAll[p] \ Instr(p)) \cup (Instr(p) \ ListedAll[p])}
                                  : p \in InstrPhases},
    PhasePageDiffers   |-> UNION {{<<p, i>> : i \in (PhasePageListed[p] \ Instr(p)) \cup (Instr(p) \ PhasePageListed[p])}
                                  : p \in Phases},
    SuiteNotAsPhase    |-> UNION {{<<s, i>> : i \in Instr(SectionPhase[s]) \ SuiteAccepted[s]} : s \in DOMAIN SuiteAccepted},
    SuiteExtraDiffers  |-> UNION {{<<s, i>> : i \in (SuiteListed[s] \ SuiteExtra(s)) \cup (SuiteExtra(s) \ SuiteListed[s])}
                                  : s \in Sections},
    EntityMissingHelp  |-> UNION {{<<t, n>> : n \in EntAccepted[t] \ EntListed[t]} : t \in AcceptTypes \cap EntityTypes},
    EntityPhantomHelp  |-> UNION {{<<t, n>> : n \in EntListed[t] \ EntAccepted[t]} : t \in AcceptTypes \cap EntityTypes},
    DirectiveRefused   |-> UNION {{<<p, d>> : d \in DirectiveNames \ Accepted[p]} : p \in InstrPhases}
                           \cup UNION {{<<s, d>> : d \in DirectiveNames \ SuiteAccepted[s]} : s \in DOMAIN SuiteAccepted},
    ConfParamDiffers   |-> IF "confparam" \in EntityTypes
                           THEN (EntListed["confparam"] \ {<<i>> : i \in Instr("conf")})
                                \cup ({<<i>> : i \in Instr("conf")} \ EntListed["confparam"])
                           ELSE {},
    EntityTypesMissing |-> (PropertyEntityTypes \cup AcceptTypes) \ EntityTypes,
    PhaseHeaders       |-> (AcceptedPhaseHeaders \ Phases) \cup (Phases \ AcceptedPhaseHeaders),
    SectionHeaders     |-> (AcceptedSectionHeaders \ Sections) \cup (Sections \ AcceptedSectionHeaders),
    ManualInstrBad     |-> ManualInstrBad,
    ManualEntBad       |-> ManualEntBad,
    DuplicateIds       |-> DuplicateIds,
    DeadRefs           |-> DeadRefs,
    MisnamedLinks      |-> MisnamedLinks ]

ExportStatic == stage = "start" => PrintT(<<"STATIC", ToJson(StaticReport)>>)
=============================================================================
