--------------------------- MODULE OutcomeReport ---------------------------
(***************************************************************************)
(* C02: from the way a run of `exactly [--keep|--act] CASE` ends to what   *)
(* the process reports: exit code, stdout, stderr.                         *)
(*                                                                         *)
(* A run is determined by: the configured status, the output mode, how it  *)
(* ends before execution (usage error, unreadable file, preprocessor,      *)
(* syntax error) or at which executor step with which outcome (ExecSteps), *)
(* whether a cleanup instruction fails too, and the exit code of the       *)
(* action to check.  The reporter is a small step machine in the order of  *)
(* the code: the action's output passes through while it runs (--act),     *)
(* then the verdict is decided, then the mode's reporter writes.           *)
(*                                                                         *)
(* Streams are sequences of abstract tokens:                               *)
(*   <<"ID", verdict>>  the exit identifier line                           *)
(*   <<"SDS">>          the sandbox path line                              *)
(*   <<"ATCOUT">> / <<"ATCERR">>  the action's own output                  *)
(*   <<"MSG">>          an error message (any non-empty text)              *)
(***************************************************************************)
EXTENDS ExecSteps, FiniteSets, TLC

O == INSTANCE Outcome

CONSTANT AtcExits      \* exit codes of the action to check that are explored

MinExit == CHOOSE x \in AtcExits : \A y \in AtcExits : x <= y
PreEndings == {"none", "usage", "file-access", "preproc", "syntax"}
FailOutcomes == {"ve", "he_ret", "he_raise", "fail", "syntax", "exc"}

VARIABLES tc, mode, pre, endK, endO, cleanupO, atcExit,   \* the run (chosen in Init)
          stage, verdict, exit, out, err
vars == <<tc, mode, pre, endK, endO, cleanupO, atcExit, stage, verdict, exit, out, err>>

\* ---- what the run does (derived) ----------------------------------------------------------
ConfFailed   == endK = KConf
Skipped      == pre = "none" /\ tc = "SKIP" /\ ~ConfFailed
Executes     == pre = "none" /\ ~Skipped /\ ~ConfFailed                 \* partial execution is entered
SdsCreated   == Executes /\ (endK = 0 \/ endK > KMkSds)
AtcRan       == Executes /\ (endK = 0 \/ endK > KExecute)               \* act/execute completed
CleanupFails == SdsCreated /\ cleanupO # "ok"
Complete     == Executes /\ endK = 0 /\ ~CleanupFails                  \* every step succeeded
AssertFailed == Executes /\ endK = KAssertMain /\ endO = "fail" /\ ~CleanupFails

WellFormed ==
  /\ (pre # "none") => (endK = 0 /\ cleanupO = "ok")
  /\ endK # 0 => endO \in (Outcomes(Forward[endK][1], Forward[endK][2]) \ {"ok"})
  /\ endK = 0 => endO = "ok"
  /\ endK # KMkSds
  /\ (mode = "act") => endK \notin {KBaMain, KAssertMain}      \* those steps are not executed with --act
  /\ (endK # 0 /\ endK < KMkSds) => cleanupO = "ok"            \* no sandbox, no cleanup
  /\ (tc = "SKIP") => (endK \in {0, KConf} /\ (endK = 0 => cleanupO = "ok"))   \* nothing after [conf]
  /\ (~(pre = "none" /\ tc # "SKIP" /\ (endK = 0 \/ endK > KExecute)))          \* the action is not run:
        => atcExit = MinExit                                                      \*   its exit code is irrelevant

Init ==
  /\ tc \in O!TcStatuses /\ mode \in Modes /\ pre \in PreEndings
  /\ endK \in 0..NF /\ endO \in FailOutcomes \cup {"ok"}
  /\ cleanupO \in {"ok", "he_ret", "exc"} /\ atcExit \in AtcExits
  /\ WellFormed
  /\ stage = "run" /\ verdict = "-" /\ exit = 0 /\ out = <<>> /\ err = <<>>

\* A failing step and a failing cleanup instruction: either ERROR may be named.  But "an error is reported as an
\* error, and not as a failed test" (manual, Error during execution): a failing ASSERTION never hides an error of
\* the cleanup phase.
ExeStatuses ==
  (IF endK # 0 /\ ~(endO = "fail" /\ CleanupFails) THEN {Status(endO)} ELSE {})
  \cup (IF CleanupFails THEN {Status(cleanupO)} ELSE {})
  \cup (IF endK = 0 /\ ~CleanupFails THEN {"PASS"} ELSE {})

AcceptableVerdicts ==
  CASE pre = "file-access" -> {"FILE_ACCESS_ERROR"}
    [] pre = "preproc"     -> {"PRE_PROCESS_ERROR"}
    [] pre = "syntax"      -> {"SYNTAX_ERROR"}
    [] pre = "usage"       -> {"-"}
    [] ConfFailed          -> {Status(endO)}
    [] Skipped             -> {"SKIPPED"}
    [] OTHER               -> {O!Verdict(tc, s) : s \in ExeStatuses}

\* ---- the steps ------------------------------------------------------------------------------
\* the action to check writes through to the process' streams while it runs (only with --act)
Run ==
  /\ stage = "run"
  /\ IF mode = "act" /\ AtcRan
     THEN out' = <<<<"ATCOUT">>>> /\ err' = <<<<"ATCERR">>>>
     ELSE UNCHANGED <<out, err>>
  /\ stage' = "decide"
  /\ UNCHANGED <<tc, mode, pre, endK, endO, cleanupO, atcExit, verdict, exit>>

Decide ==
  /\ stage = "decide"
  /\ verdict' \in AcceptableVerdicts
  /\ stage' = "report"
  /\ UNCHANGED <<tc, mode, pre, endK, endO, cleanupO, atcExit, exit, out, err>>

MsgIfAny(v) == IF v \in {"PASS", "SKIPPED", "XPASS"} THEN <<>> ELSE <<<<"MSG">>>>

ReportUsage ==
  /\ stage = "report" /\ verdict = "-"
  /\ exit' = O!UsageErrorExitCode /\ err' = err \o <<<<"MSG">>>>
  /\ stage' = "done"
  /\ UNCHANGED <<tc, mode, pre, endK, endO, cleanupO, atcExit, verdict, out>>

ReportNormal ==
  /\ stage = "report" /\ verdict # "-" /\ mode = "normal"
  /\ out' = out \o <<<<"ID", verdict>>>>
  /\ err' = err \o MsgIfAny(verdict)
  /\ exit' = O!ExitCode(verdict)
  /\ stage' = "done"
  /\ UNCHANGED <<tc, mode, pre, endK, endO, cleanupO, atcExit, verdict>>

ReportKeep ==
  /\ stage = "report" /\ verdict # "-" /\ mode = "keep"
  /\ out' = out \o (IF SdsCreated THEN <<<<"SDS">>>> ELSE <<>>)
  /\ err' = err \o <<<<"ID", verdict>>>> \o MsgIfAny(verdict)
  /\ exit' = O!ExitCode(verdict)
  /\ stage' = "done"
  /\ UNCHANGED <<tc, mode, pre, endK, endO, cleanupO, atcExit, verdict>>

\* --act: when the execution is complete the action's exit code is the exit code and nothing is added
ReportAct ==
  /\ stage = "report" /\ verdict # "-" /\ mode = "act"
  /\ IF Complete
     THEN exit' = atcExit /\ UNCHANGED <<out, err>>
     ELSE /\ exit' = O!ExitCode(verdict)
          /\ err' = err \o <<<<"ID", verdict>>>> \o MsgIfAny(verdict)
          /\ UNCHANGED out
  /\ stage' = "done"
  /\ UNCHANGED <<tc, mode, pre, endK, endO, cleanupO, atcExit, verdict>>

Next == Run \/ Decide \/ ReportUsage \/ ReportNormal \/ ReportKeep \/ ReportAct
Spec == Init /\ [][Next]_vars

\* ---- properties -----------------------------------------------------------------------------
Done == stage = "done"
Ids(s) == SelectSeq(s, LAMBDA t : t[1] = "ID")

\* the verdict of a completely executed case is the documented function of status and assert outcome
VerdictTable ==
  (Done /\ pre = "none" /\ mode # "act") =>
     /\ (Complete /\ tc = "PASS") => verdict = "PASS"
     /\ (Complete /\ tc = "FAIL") => verdict = "XPASS"
     /\ (AssertFailed /\ tc = "PASS") => verdict = "FAIL"
     /\ (AssertFailed /\ tc = "FAIL") => verdict = "XFAIL"
     /\ Skipped => verdict = "SKIPPED"
\* anything that prevents or interrupts execution is the documented error verdict
ErrorVerdicts ==
  Done =>
     /\ (pre = "syntax") => verdict = "SYNTAX_ERROR"
     /\ (pre = "file-access") => verdict = "FILE_ACCESS_ERROR"
     /\ (pre = "preproc") => verdict = "PRE_PROCESS_ERROR"
     /\ (Executes /\ endK # 0 /\ ~CleanupFails /\ endO # "fail") => verdict = Status(endO)
     /\ (verdict \in {"PASS", "XPASS", "SKIPPED"}) => (pre = "none" /\ endK \in {0} /\ ~CleanupFails)
     /\ (verdict \in {"FAIL", "XFAIL"}) => ~CleanupFails           \* an error is never reported as a failed test
\* exit code and identifier correspond (documented table); exactly one identifier line
CodeMatchesIdentifier ==
  (Done /\ ~(mode = "act" /\ Complete)) =>
     /\ IF verdict = "-" THEN exit = 64 /\ Ids(out) = <<>> /\ Ids(err) = <<>> /\ out = <<>>
        ELSE /\ exit = O!ExitCode(verdict)
             /\ Len(Ids(out)) + Len(Ids(err)) = 1
             /\ (Ids(out) \o Ids(err))[1][2] = verdict
     /\ exit \in {0, 32, 33, 64, 65, 128, 129}
NormalIdOnStdout ==
  (Done /\ mode = "normal" /\ verdict # "-") => out = <<<<"ID", verdict>>>>
KeepStdoutIsOnlyPath ==
  (Done /\ mode = "keep" /\ verdict # "-") =>
     /\ out = (IF SdsCreated THEN <<<<"SDS">>>> ELSE <<>>)
     /\ err[1] = <<"ID", verdict>>
ActModePassThrough ==
  (Done /\ mode = "act") =>
     /\ Complete => (exit = atcExit /\ out = <<<<"ATCOUT">>>> /\ err = <<<<"ATCERR">>>>)
     /\ Ids(out) = <<>>
     /\ AtcRan => (out[1] = <<"ATCOUT">> /\ err[1] = <<"ATCERR">>)
     /\ ~AtcRan => out = <<>>
=============================================================================
