----------------------------- MODULE ExecSteps -----------------------------
(***************************************************************************)
(* Constant-level vocabulary of the executor: phases, the fixed list of    *)
(* forward steps in the order of the code, what each step can produce and  *)
(* the status each outcome stands for.  Shared by PhaseExec (the step      *)
(* machine), OutcomeReport (C02) and the trace specifications.             *)
(***************************************************************************)
EXTENDS Naturals, Sequences

Phases == {"conf", "setup", "ba", "assert", "cleanup"}
Modes  == {"normal", "keep", "act"}

\* The forward steps, in the order of the code: <<step, phase>>.  Steps of the action to check have phase "act".
Forward == <<
  <<"main","conf">>,
  <<"parse","act">>,
  <<"sym","setup">>, <<"sym","act">>, <<"sym","ba">>, <<"sym","assert">>, <<"sym","cleanup">>,
  <<"pre","setup">>, <<"pre","act">>, <<"pre","ba">>, <<"pre","assert">>, <<"pre","cleanup">>,
  <<"mksds","-">>,
  <<"main","setup">>,
  <<"post","setup">>, <<"post","act">>, <<"post","ba">>, <<"post","assert">>,
  <<"exeinput","act">>, <<"prepare","act">>, <<"execute","act">>,
  <<"main","ba">>, <<"main","assert">> >>
NF == Len(Forward)
KConf == 1
KMkSds == 13
ValidationKs == 2..12     \* act parse, symbol validation and pre-sds validation of every phase

\* What a step can produce.
Outcomes(step, phase) ==
  CASE step = "sym"      -> {"ok", "ve", "exc"}
    [] step = "parse"    -> {"ok", "syntax", "he_raise", "exc"}
    [] step \in {"pre", "post"} -> {"ok", "ve", "he_ret", "he_raise", "exc"}
    [] step = "exeinput" -> {"ok", "he_ret"}
    [] step \in {"prepare", "execute"} -> {"ok", "he_ret", "he_raise", "exc"}
    [] step = "main" /\ phase = "conf" -> {"ok", "ve", "he_ret", "he_raise", "exc"}
    [] step = "main" /\ phase = "assert" -> {"ok", "fail", "he_ret", "he_raise", "exc"}
    [] step = "main" -> {"ok", "he_ret", "he_raise", "exc"}
    [] OTHER -> {"ok"}

Status(o) == CASE o = "ve" -> "VALIDATION_ERROR" [] o = "syntax" -> "SYNTAX_ERROR"
               [] o \in {"he_ret", "he_raise"} -> "HARD_ERROR" [] o = "fail" -> "FAIL"
               [] o = "exc" -> "INTERNAL_ERROR" [] OTHER -> "PASS"


KExecute == 21
KBaMain == 22
KAssertMain == 23

\* The value the cleanup phase is told when the forward step kk fails.
PrevFor(kk) == LET s == Forward[kk] IN
  IF s = <<"execute", "act">> THEN "ACT"
  ELSE IF s = <<"main", "ba">> THEN "BEFORE_ASSERT"
  ELSE IF s = <<"main", "assert">> THEN "ASSERT" ELSE "SETUP"

HasEffects(kk) == Forward[kk][1] \in {"main", "prepare", "execute"} /\ kk # KConf
=============================================================================
