------------------------------ MODULE SymRefs ------------------------------
(***************************************************************************)
(* C09: where symbol references are substituted inside a string.           *)
(* Reference manual, SYMBOL-REFERENCE: @[NAME]@ with NAME made of letters, *)
(* digits and underscore.  Scanning is left to right: at "@[" the longest  *)
(* run of name characters is the candidate name; it is a reference iff it  *)
(* is non-empty and directly followed by "]@".  Everything else - stray    *)
(* "@[", "]@", "@", brackets - is ordinary text, and a reference directly  *)
(* after a stray "@[" is still a reference.                                *)
(* Characters: AT "@", LB "[", RB "]", NM (a name character), X (another   *)
(* character).  The machine reads one character per step.                  *)
(***************************************************************************)
EXTENDS Naturals, Sequences, TLC

CONSTANTS MaxLen, Alphabet

AT == 1  LB == 2  RB == 3  NM == 4  X == 5
ASSUME Alphabet \subseteq {AT, LB, RB, NM, X}

VARIABLE src
Init == src = <<>>
Read(c) == Len(src) < MaxLen /\ src' = Append(src, c)
Next == \E c \in Alphabet : Read(c)
Spec == Init /\ [][Next]_src

At(s, i) == IF i <= Len(s) THEN s[i] ELSE 0
RECURSIVE NameRun(_, _)
NameRun(s, i) == IF At(s, i) = NM THEN 1 + NameRun(s, i + 1) ELSE 0      \* length of the run of name characters at i

\* the denotation: a sequence of characters and references (RefBase + length of the name)
RefBase == 100
RECURSIVE Subst(_, _)
Subst(s, i) ==
  IF i > Len(s) THEN <<>>
  ELSE IF At(s, i) = AT /\ At(s, i + 1) = LB
       THEN LET n == NameRun(s, i + 2) IN
            IF n > 0 /\ At(s, i + 2 + n) = RB /\ At(s, i + 3 + n) = AT
            THEN <<RefBase + n>> \o Subst(s, i + 4 + n)
            ELSE <<s[i]>> \o Subst(s, i + 1)
       ELSE <<s[i]>> \o Subst(s, i + 1)
Value == Subst(src, 1)

IsRef(x) == x > RefBase
NumRefs == Len(SelectSeq(Value, IsRef))
\* substitution only replaces complete references: the other characters are kept, in order
RECURSIVE Expand(_)
Expand(v) == IF v = <<>> THEN <<>>
             ELSE IF IsRef(Head(v)) THEN <<AT, LB>> \o [j \in 1..(Head(v) - RefBase) |-> NM] \o <<RB, AT>> \o Expand(Tail(v))
             ELSE <<Head(v)>> \o Expand(Tail(v))
OnlyReferencesReplaced == Expand(Value) = src
=============================================================================
