------------------------------ MODULE Program ------------------------------
(***************************************************************************)
(* C10: the OS process started for the action to check - and for run, $,   *)
(* % instructions, programs used as text sources, in assertions (-from)    *)
(* and in `run` matchers / transformers - gets the argument vector, stdin  *)
(* and current directory the program syntax denotes; exit code, stdout and *)
(* stderr are what the test case subsequently sees; a non-zero exit code   *)
(* is FAIL in [assert] and HARD_ERROR elsewhere unless -ignore-exit-code.  *)
(*                                                                         *)
(* A test case is a small program                                          *)
(*     [cd]  def program P1 = DRIVER LEVEL1                                *)
(*           def program P2 = @ P1 LEVEL2 ... def program Pn = @ Pn-1 ..   *)
(*           [stdin = TEXT-SOURCE]  [cd]                                   *)
(*     USE context ( @ Pn LEVELn+1, or DRIVER LEVEL1 when n = 0 )          *)
(*     [assertions on exit code / stdout / stderr]                         *)
(* A LEVEL is what one PROGRAM element adds: an argument list (a named     *)
(* shape: a sequence of tokens), at most one `-stdin TEXT-SOURCE` (a named *)
(* kind of text source) and at most one `-transformed-by TRANSFORMER`.     *)
(* The instructions are executed in order, as Exactly executes a test      *)
(* case: def puts a program VALUE into the symbol table (a reference       *)
(* accumulates onto the value of the referenced symbol), cd changes the    *)
(* current directory, stdin sets the stdin of the action to check, and the *)
(* use goes through the steps the code takes: resolve - start the process  *)
(* (argv, stdin, cwd are fixed NOW) - the process exits - the output       *)
(* transformations are applied one by one to the stream the context        *)
(* observes - the exit code is mapped to the outcome of the phase.         *)
(*                                                                         *)
(* Values crossing to the harness: an argv element is a pair <<name, k>>   *)
(* (token name, level it was written at; the harness owns the table        *)
(* name -> source text and name -> string value); texts are sequences of   *)
(* small naturals (0 = new-line); directories are sequences of names.      *)
(*                                                                         *)
(* Deviation "D12" (defect found with this model, repaired in /repo by     *)
(* 0d09e39; kept as a control of the model's sharpness): a part of a       *)
(* multi-part stdin that a child process writes by itself comes before the *)
(* text of all other parts.                                                *)
(***************************************************************************)
EXTENDS Naturals, Sequences, FiniteSets, TLC

CONSTANTS Focuses,        \* families of cases explored (bounds of the exploration, see "families" below)
          Contexts,       \* ways of running a program that are explored
          Phases,         \* phases explored
          MaxDepth,       \* longest chain of program-symbol definitions
          DeepCtx,        \* contexts in which chains longer than 1 are explored exhaustively
          RichCtx,        \* contexts in which the rich sets below are explored
          DriverCtx,      \* contexts in which every driver is explored
          ChainPhases,    \* phases in which the families other than exit / cd / free are explored, for contexts that
                          \* exist in several phases
          Drivers,        \* "file" (PATH of executable) "sys" (% NAME) "shell" ($ LINE) "python" (-python)
          ExitCodes,      \* exit codes explored
          RichArgs,       \* argument-list shapes
          RichShellArgs,  \* argument shapes written inside a shell command line
          RichStdin,      \* kinds of text source after -stdin
          RichTrans,      \* transformers after -transformed-by
          ActStdinKinds,  \* kinds of text source of the [setup] stdin instruction
          CdKinds,        \* forms of a context cd: "sub" (dir sub / cd sub), "tmp" (cd -rel-tmp .)
          Deviations      \* named deviations switched on ({} when the property is checked)

D12 == "D12" \in Deviations

\* ---- vocabulary -------------------------------------------------------------------------------
AtcProc   == {"atc", "atcx", "atcfile", "atcsrc"}      \* actors that start a process: command line (default /
                                                       \* set explicitly), file interpreter, source interpreter
AtcCtx    == AtcProc \cup {"atcnull"}
InstrCtx  == {"run", "dollar", "percent"}              \* instructions run, $, %
SourceCtx == {"fileout", "fileerr"}                    \* file F = -stdout-from / -stderr-from PROGRAM
FromCtx   == {"outfrom", "errfrom", "exitfrom"}        \* stdout / stderr / exit-code -from PROGRAM MATCHER
FmCtx     == {"fmdef", "fmlast", "fmmark"}             \* file matcher run [-path-arg-last | -path-arg-marker MK]
MatchCtx  == {"tmrun", "ttrun"} \cup FmCtx             \* text matcher run, text transformer run, file matcher run
AllCtx    == AtcCtx \cup InstrCtx \cup SourceCtx \cup FromCtx \cup MatchCtx
InterpCtx == {"atcfile", "atcsrc"}

PhasesOf(c) == CASE c \in AtcCtx -> {"act"}
                 [] c \in InstrCtx \cup SourceCtx -> {"setup", "ba", "assert", "cleanup"}
                 [] OTHER -> {"assert"}
\* contexts whose syntax is PROGRAM: program symbols, -stdin, -transformed-by
FullProgram(c) == c \in {"atc", "atcx", "run"} \cup SourceCtx \cup FromCtx \cup MatchCtx
AllowsIgn(c)   == c \in {"run", "fileout", "fileerr", "ttrun"}          \* -ignore-exit-code exists
\* the stream the context reads (the one the program's transformations apply to); "none": output not read,
\* or "Transformations of the output associated with PROGRAM are ignored"
Stream(c) == CASE c \in {"atc", "atcx", "fileout", "outfrom", "ttrun"} -> "out"
               [] c \in {"fileerr", "errfrom"} -> "err"
               [] OTHER -> "none"
\* what can be asserted wrongly on purpose ("true": every assertion states what the specification predicts)
ClaimsOf(c) == CASE c \in AtcCtx -> {"true", "exit", "out", "err"}
                 [] c \in {"outfrom", "ttrun"} -> {"true", "out"}
                 [] c = "errfrom" -> {"true", "err"}
                 [] c = "exitfrom" -> {"true", "exit"}
                 [] OTHER -> {"true"}
DefaultDriver(c) == CASE c = "dollar" -> "shell" [] c = "percent" -> "sys" [] c = "atcnull" -> "none" [] OTHER -> "file"
\* exit codes for which the manual states the outcome
ExitsOf(c) == IF c \in {"outfrom", "errfrom"} THEN {0} ELSE IF c = "atcnull" THEN {0} ELSE ExitCodes

\* ---- texts ------------------------------------------------------------------------------------
NL == 0
ChA == 1  ChB == 2  ChC == 3  ChD == 4  ChO == 5  ChE == 6
Letter(k) == 10 + k             \* the stdin letter of level k
ChZ == 20                       \* the letter of the [setup] stdin
ChM == 21                       \* the letter of the text handed to a run matcher / transformer
StdoutText == <<ChA, ChB, ChC, ChD, ChO, NL>>     \* what every probe prints
StderrText == <<ChA, ChB, ChC, ChD, ChE, NL>>

RECURSIVE Flat(_)
Flat(ss) == IF ss = <<>> THEN <<>> ELSE Head(ss) \o Flat(Tail(ss))

Subst(r, t) == [i \in 1..Len(t) |-> IF t[i] = r.f THEN r.t ELSE t[i]]       \* replace r.f r.t
RECURSIVE ApplyAll(_, _)
ApplyAll(rs, t) == IF rs = <<>> THEN t ELSE ApplyAll(Tail(rs), Subst(Head(rs), t))

Rep(f, t) == [f |-> f, t |-> t]
TransDen(kind) == CASE kind = "none" -> <<>>
                    [] kind = "ab"   -> <<Rep(ChA, ChB)>>
                    [] kind = "bc"   -> <<Rep(ChB, ChC)>>
                    [] kind = "cd"   -> <<Rep(ChC, ChD)>>
                    [] kind = "da"   -> <<Rep(ChD, ChA)>>
                    [] kind = "abbc" -> <<Rep(ChA, ChB), Rep(ChB, ChC)>>     \* ( replace a b | replace b c )
                    [] kind = "bcab" -> <<Rep(ChB, ChC), Rep(ChA, ChB)>>
                    [] kind = "id"   -> <<>>                                   \* identity
TK == <<"ab", "bc", "cd", "da", "ab", "bc", "cd", "da">>     \* the plain transformer of level k

\* a stdin part: its text, and whether a child process writes it by itself (matters for deviation D12 only)
Part(t, d) == [text |-> t, direct |-> d]
PartOf(kind, c) ==
  CASE kind = "str"    -> Part(<<c>>, FALSE)                 \* 'p'
    [] kind = "empty"  -> Part(<<>>, FALSE)                  \* ''
    [] kind = "here"   -> Part(<<c, NL>>, FALSE)             \* <<EOF p EOF
    [] kind = "tail"   -> Part(<<c>>, FALSE)                 \* :> p
    [] kind = "sym"    -> Part(<<c>>, FALSE)                 \* reference to a string symbol
    [] kind = "tsym"   -> Part(<<c>>, FALSE)                 \* reference to a text-source symbol
    [] kind = "file"   -> Part(<<c, NL>>, FALSE)             \* -contents-of FILE
    [] kind = "strT"   -> Part(Subst(Rep(ChA, ChB), <<c, ChA>>), FALSE)      \* 'pa' -transformed-by replace a b
    [] kind = "out"    -> Part(<<c, NL>>, TRUE)              \* -stdout-from PROGRAM
    [] kind = "outign" -> Part(<<c, NL>>, TRUE)              \* -stdout-from -ignore-exit-code PROGRAM (exit 3)
    [] kind = "err"    -> Part(<<c, NL>>, FALSE)             \* -stderr-from PROGRAM
    [] kind = "errign" -> Part(<<c, NL>>, TRUE)              \* -stderr-from -ignore-exit-code PROGRAM (exit 3)
    [] kind = "outT"   -> Part(Subst(Rep(ChA, ChB), <<c, ChA, NL>>), FALSE)  \* -stdout-from ( PROGRAM -transformed-by .. )
    [] kind = "trun"   -> Part(<<c>>, TRUE)                  \* 'p' -transformed-by run % cat
StdinDen(kind, c) == IF kind = "none" THEN <<>> ELSE <<PartOf(kind, c)>>
Texts(ps) == [i \in 1..Len(ps) |-> ps[i].text]
\* the text a process reads: the parts in order
Concat(ps) == IF D12 /\ Len(ps) >= 2
              THEN Flat(Texts(SelectSeq(ps, LAMBDA p : p.direct))) \o Flat(Texts(SelectSeq(ps, LAMBDA p : ~p.direct)))
              ELSE Flat(Texts(ps))

\* ---- argument lists ----------------------------------------------------------------------------
Tokens(s) ==
  CASE s = "E"   -> <<>>
    [] s = "w"   -> <<"w">>                      \* w<k>
    [] s = "ww"  -> <<"w", "v">>                 \* w<k> v<k>
    [] s = "wm"  -> <<"w", "mk">>                \* w<k> MK            (MK: the marker of -path-arg-marker)
    [] s = "e"   -> <<"e">>                      \* ''
    [] s = "ewe" -> <<"e", "w", "e">>
    [] s = "qs"  -> <<"qs">>                     \* 's<k>  x'          (hard quotes, two blanks inside)
    [] s = "qd"  -> <<"qd">>                     \* "d<k> 'y'"         (soft quotes containing hard quotes)
    [] s = "qq"  -> <<"qq">>                     \* 'say "<k>"'
    [] s = "o"   -> <<"o", "lo">>                \* -o<k> --long=<k>
    [] s = "r"   -> <<"r">>                      \* '-stdin' ')' ':>' '<<EOF' '-existing-file' '@' (quoted reserved words)
    [] s = "inl" -> <<"is", "w", "it", "v">>     \* -stdin w<k> -transformed-by v<k>   on the argument line: arguments
    [] s = "S"   -> <<"S">>                      \* @[S]@       string symbol, value with blanks: one argument
    [] s = "Sc"  -> <<"Sc", "Sh">>               \* pre@[S]@post  '@[S]@' (hard quoted: no substitution)
    [] s = "L"   -> <<"w", "L", "v">>            \* w<k> @[L]@ v<k>    list symbol: one argument per element
    [] s = "L0"  -> <<"L0", "w">>                \* @[L0]@ w<k>        empty list: no argument
    [] s = "LQ"  -> <<"LQ">>                     \* "@[L]@"            one argument, elements separated by one space
    [] s = "P"   -> <<"P", "Pc">>                \* @[P]@ @[P]@/sub    path symbol: its absolute path
    [] s = "T"   -> <<"w", "T">>                 \* w<k> :> tail  text 'q' <k>
    [] s = "X"   -> <<"X", "XD", "XP", "w">>     \* -existing-file F -existing-dir D -existing-path F w<k>
    [] s = "C"   -> <<"w", "C", "v">>            \* w<k> \ NEWLINE v<k>   (continuation line)
    [] s = "mix" -> <<"qs", "L", "e", "o", "S", "w", "T">>
    [] s = "shS" -> <<"sq", "sl">>               \* shell: "@[S]@" @[L]@  (substituted inside the command line)
TokDen(tok, k) ==
  CASE tok = "L"  -> <<<<"l1", k>>, <<"l2", k>>>>
    [] tok = "sl" -> <<<<"l1", k>>, <<"l2", k>>>>
    [] tok = "r"  -> <<<<"r1", k>>, <<"r2", k>>, <<"r3", k>>, <<"r4", k>>, <<"r5", k>>, <<"r6", k>>>>
    [] tok = "L0" -> <<>>
    [] tok = "C"  -> <<>>
    [] OTHER      -> <<<<tok, k>>>>
ArgsDen(shape, k) == LET ts == Tokens(shape) IN Flat([j \in 1..Len(ts) |-> TokDen(ts[j], k)])

\* ---- program values ------------------------------------------------------------------------------
NoLevel == [a |-> "-", s |-> "-", t |-> "-"]
\* the value of  DRIVER LEVEL1 ; a shell command line is kept as written (cmd: the shape of its text)
Prim(d, lv) == [driver |-> d,
                cmd    |-> IF d = "shell" THEN lv.a ELSE "-",
                args   |-> IF d = "shell" THEN <<>> ELSE ArgsDen(lv.a, 1),
                stdin  |-> StdinDen(lv.s, Letter(1)),
                trans  |-> TransDen(lv.t)]
\* "Arguments, stdin and transformations are appended to the arguments, stdin and transformations of the
\* referenced program."
Accumulate(v, lv, k) == [v EXCEPT !.args  = @ \o ArgsDen(lv.a, k),
                                  !.stdin = @ \o StdinDen(lv.s, Letter(k)),
                                  !.trans = @ \o TransDen(lv.t)]

VARIABLES fam,       \* the family of the case (focus, context, phase, exit code the process will end with, ...)
          lv0,       \* the ACT-INTERPRETER's argument list (file / source interpreter actors), else NoLevel
          lvs,       \* the levels, in definition order; the last one is written at the use
          stage,     \* "shape" "env" "build" "exec" "done"
          pc,        \* instruction being executed
          symtab,    \* values of the program symbols P1 .. (filled by the def instructions, in order)
          cwd,       \* the current directory
          actIn,     \* the stdin set for the action to check: <<>> or <<part>>
          ustep,     \* progress of the use: "-" "resolved" "started" "exited"
          prg,       \* the resolved program of the use
          procs,     \* the OS processes started for the program of the use
          raw,       \* what the process produced
          seen,      \* what the context sees of it (after transformations)
          tpos,      \* number of transformations applied
          outcome    \* "-" until the case ends
vars == <<fam, lv0, lvs, stage, pc, symtab, cwd, actIn, ustep, prg, procs, raw, seen, tpos, outcome>>

ctx    == fam.ctx
phase  == fam.phase
depth  == fam.depth
driver == fam.driver

NoPrg == [driver |-> "-", cmd |-> "-", args |-> <<>>, stdin |-> <<>>, trans |-> <<>>]
NoOut == [exit |-> 999, out |-> <<>>, err |-> <<>>]

\* ---- families: which cases are explored (the bounds of the exploration, not a claim about the program) ----------
\*  exit    the minimal program (one word; with and without a transformation), every exit code, every context,
\*          phase, with and without -ignore-exit-code
\*  accum   chains 0..MaxDepth, every level: arguments or none x -stdin or none x -transformed-by or none
\*  rich    one component of one level from the rich sets, every other component present and plain
\*  driver  every driver x arguments x stdin, chains 0..1
\*  cd      the minimal program after a change of directory
\*  actin   the [setup] stdin instruction: every kind of text source x the program's own -stdin
\*  claim   one assertion states something else than the specification predicts: must FAIL
\*  free    everything combined (random simulation beyond the exhaustive bounds)
Min(a, b) == IF a < b THEN a ELSE b
Seed(f, c, ph) == [focus |-> f, ctx |-> c, phase |-> ph, ign |-> FALSE, depth |-> 0, exit |-> 0, driver |-> DefaultDriver(c),
                   richAt |-> 9, richComp |-> "-", actStdin |-> "none", cd |-> "none", cdpos |-> 0, claim |-> "true"]
FocusCtx(f) == CASE f = "accum"  -> {c \in Contexts : FullProgram(c)}
                 [] f = "rich"   -> Contexts \cap RichCtx
                 [] f = "driver" -> Contexts \cap DriverCtx
                 [] f = "actin"  -> Contexts \cap AtcCtx
                 [] f = "claim"  -> {c \in Contexts : ClaimsOf(c) # {"true"}}
                 [] OTHER        -> Contexts
FocusPhases(f, c) == IF f \in {"exit", "cd", "free"} \/ Cardinality(PhasesOf(c)) = 1 THEN PhasesOf(c) \cap Phases
                     ELSE PhasesOf(c) \cap Phases \cap ChainPhases
Seeds == UNION {UNION {{Seed(f, c, ph) : ph \in FocusPhases(f, c)} : c \in FocusCtx(f)} : f \in Focuses}

IgnSet(c) == IF AllowsIgn(c) THEN BOOLEAN ELSE {FALSE}
MaxDepthOf(c) == IF ~FullProgram(c) THEN 0 ELSE MaxDepth
DriversOf(c) == IF c \in InterpCtx THEN Drivers \cap {"file", "sys"}
                ELSE IF c \in FmCtx THEN Drivers \ {"shell"}      \* (a path appended to a shell line: not defined)
                ELSE IF FullProgram(c) THEN Drivers ELSE {DefaultDriver(c)}
CompsOf(c, k) == IF k = 0 THEN {"a"} ELSE IF FullProgram(c) THEN {"a", "s", "t"} ELSE IF c \in {"atcsrc", "atcnull"} THEN {} ELSE {"a"}
FirstLevel(c) == IF c \in InterpCtx THEN 0 ELSE 1
\* the shape of the case: [ign, depth, exit, driver, richAt, richComp]
ShapeChoices(s) ==
  LET c == s.ctx IN
  CASE s.focus = "exit" ->
         {[s EXCEPT !.ign = g, !.exit = e] : g \in IgnSet(c), e \in ExitsOf(c)}
    [] s.focus = "accum" ->
         {[s EXCEPT !.depth = d] : d \in 0..(IF c \in DeepCtx THEN MaxDepth ELSE Min(1, MaxDepth))}
    [] s.focus = "rich" ->
         UNION {UNION {{[s EXCEPT !.depth = d, !.richAt = k, !.richComp = x] : x \in CompsOf(c, k)}
                       : k \in FirstLevel(c)..(d + 1)} : d \in 0..Min(1, MaxDepthOf(c))}
    [] s.focus = "driver" ->
         {[s EXCEPT !.depth = d, !.driver = dr] : d \in 0..Min(1, MaxDepthOf(c)), dr \in DriversOf(c)}
    [] s.focus = "free" ->
         {[s EXCEPT !.ign = g, !.exit = e, !.depth = d, !.driver = dr]
            : g \in IgnSet(c), e \in ExitsOf(c), d \in 0..MaxDepthOf(c), dr \in DriversOf(c)}
    [] OTHER -> {s}
\* the surroundings: [actStdin, cd, cdpos, claim]
EnvChoices(s) ==
  LET c == s.ctx IN
  CASE s.focus = "cd" ->
         {[s EXCEPT !.cd = x, !.cdpos = p] : x \in CdKinds, p \in {1, 2}}
    [] s.focus = "actin" ->
         {[s EXCEPT !.actStdin = x] : x \in ActStdinKinds}
    [] s.focus = "accum" ->
         IF c \in {"atc", "atcx"} /\ s.depth <= 1 THEN {s, [s EXCEPT !.actStdin = "str"]}
         ELSE IF c \in {"atc", "atcx"} THEN {[s EXCEPT !.actStdin = "str"]} ELSE {s}
    [] s.focus = "rich" ->
         IF c \in AtcProc THEN {[s EXCEPT !.actStdin = "str"]} ELSE {s}
    [] s.focus = "claim" ->
         {[s EXCEPT !.claim = x] : x \in ClaimsOf(c) \ {"true"}}
    [] s.focus = "free" ->
         {[s EXCEPT !.actStdin = x, !.cd = y, !.cdpos = p, !.claim = z]
            : x \in (IF c \in AtcCtx THEN ActStdinKinds \cup {"none"} ELSE {"none"}),
              y \in CdKinds \cup {"none"}, p \in {1, 2}, z \in ClaimsOf(c)}
    [] OTHER -> {s}

\* the levels a case may be built from
HasStdin(c) == FullProgram(c)
HasTrans(c) == FullProgram(c)
WordShape == IF ctx = "fmmark" THEN "wm" ELSE "w"
PlainArgs == {"E", WordShape}
ShellSafe == {"E", "w", "ww", "o"}          \* shapes appended to a shell command line: plain words only
FullLevel(k) == [a |-> IF ctx \in {"atcsrc"} /\ k = 1 THEN "E" ELSE WordShape,
                 s |-> IF HasStdin(ctx) /\ k >= 1 THEN "str" ELSE "none",
                 t |-> IF HasTrans(ctx) /\ k >= 1 THEN TK[k] ELSE "none"]
MinLevel == [a |-> IF ctx = "atcsrc" THEN "E" ELSE WordShape, s |-> "none", t |-> "none"]
\* (the file interpreter actor reads "a single line": no continuation line there)
RichSet(comp, k) == CASE comp = "a" -> IF driver = "shell" /\ k = 1 THEN RichShellArgs
                                       ELSE IF driver = "shell" THEN ShellSafe
                                       ELSE IF ctx = "atcfile" /\ k = 1 THEN RichArgs \ {"C"} ELSE RichArgs
                      [] comp = "s" -> RichStdin
                      [] comp = "t" -> RichTrans
ArgSetFree(k) == IF k = 1 /\ ctx = "atcsrc" THEN {"E"}
                 ELSE IF driver = "shell" /\ k = 1 THEN RichShellArgs \cup {"E", "w"}
                 ELSE IF driver = "shell" THEN ShellSafe
                 ELSE IF ctx = "fmmark" THEN {"E", "wm", "ww", "qs"}
                 ELSE IF ctx = "atcfile" /\ k = 1 THEN (RichArgs \ {"C"}) \cup {"E", "w"}
                 ELSE RichArgs \cup {"E", "w"}
LevelSet(k) ==
  CASE fam.focus = "exit" ->
         {[MinLevel EXCEPT !.t = t] : t \in IF Stream(ctx) # "none" THEN {"none", "ab"} ELSE {"none"}}
    [] fam.focus = "accum" ->
         {[a |-> a, s |-> s, t |-> t] : a \in PlainArgs, s \in {"none", "str"}, t \in {"none", TK[k]}}
    [] fam.focus = "rich" ->
         IF k # fam.richAt THEN {FullLevel(k)}
         ELSE {[FullLevel(k) EXCEPT ![fam.richComp] = x] : x \in RichSet(fam.richComp, k)}
    [] fam.focus = "driver" ->
         {[a |-> a, s |-> s, t |-> "none"] : a \in IF k = 0 THEN {"E", "ww"} ELSE IF ctx = "atcsrc" THEN {"E"} ELSE {"E", "w"},
                                             s \in IF HasStdin(ctx) /\ k >= 1 THEN {"none", "str"} ELSE {"none"}}
    [] fam.focus = "actin" ->
         {[MinLevel EXCEPT !.s = s] : s \in IF ctx \in {"atc", "atcx"} THEN {"none", "str", "here", "out"} ELSE {"none"}}
    [] fam.focus = "claim" -> {FullLevel(k)}
    [] fam.focus = "free" ->
         {[a |-> a, s |-> s, t |-> t]
            : a \in ArgSetFree(k),
              s \in IF HasStdin(ctx) /\ k >= 1 THEN RichStdin \cup {"none", "str"} ELSE {"none"},
              t \in IF HasTrans(ctx) /\ k >= 1 THEN RichTrans \cup {"none", TK[k]} ELSE {"none"}}
    [] OTHER -> {MinLevel}

\* ---- the case as a list of instructions ------------------------------------------------------------
IsAtc == ctx \in AtcCtx
Layout == (IF fam.cd # "none" /\ fam.cdpos = 1 THEN <<"cd">> ELSE <<>>)
          \o [j \in 1..depth |-> "def"]
          \o (IF fam.actStdin # "none" THEN <<"stdin">> ELSE <<>>)
          \o (IF fam.cd # "none" /\ fam.cdpos = 2 THEN <<"cd">> ELSE <<>>)
          \o <<"use">>
          \o (IF IsAtc THEN <<"assert">> ELSE <<>>)

Init ==
  /\ fam \in Seeds
  /\ lv0 = NoLevel /\ lvs = <<>> /\ stage = "shape" /\ pc = 1 /\ symtab = <<>>
  /\ cwd = <<"act">>             \* "act directory: the current directory when [setup] begins"
  /\ actIn = <<>> /\ ustep = "-" /\ prg = NoPrg /\ procs = <<>> /\ raw = NoOut /\ seen = NoOut /\ tpos = 0
  /\ outcome = "-"

Rest == UNCHANGED <<pc, symtab, cwd, actIn, ustep, prg, procs, raw, seen, tpos, outcome>>

ChooseShape ==
  /\ stage = "shape"
  /\ fam' \in ShapeChoices(fam)
  /\ stage' = "env" /\ UNCHANGED <<lv0, lvs>> /\ Rest
ChooseEnv ==
  /\ stage = "env"
  /\ fam' \in EnvChoices(fam)
  /\ stage' = "build" /\ UNCHANGED <<lv0, lvs>> /\ Rest

AddInterp ==
  /\ stage = "build" /\ ctx \in InterpCtx /\ lv0 = NoLevel
  /\ lv0' \in LevelSet(0)
  /\ UNCHANGED <<fam, lvs, stage>> /\ Rest
DefBase ==
  /\ stage = "build" /\ (ctx \in InterpCtx => lv0 # NoLevel) /\ depth >= 1 /\ lvs = <<>>
  /\ \E lv \in LevelSet(1) : lvs' = <<lv>>
  /\ UNCHANGED <<fam, lv0, stage>> /\ Rest
DefLink ==
  /\ stage = "build" /\ Len(lvs) >= 1 /\ Len(lvs) < depth
  /\ \E lv \in LevelSet(Len(lvs) + 1) : lvs' = Append(lvs, lv)
  /\ UNCHANGED <<fam, lv0, stage>> /\ Rest
AddUse ==
  /\ stage = "build" /\ (ctx \in InterpCtx => lv0 # NoLevel) /\ Len(lvs) = depth
  /\ \E lv \in LevelSet(depth + 1) : lvs' = Append(lvs, lv)
  /\ stage' = "exec"
  /\ UNCHANGED <<fam, lv0>> /\ Rest

\* ---- execution, in order -----------------------------------------------------------------------------
Instr == Layout[pc]
Frame == UNCHANGED <<fam, lv0, lvs>>
Advance == IF pc < Len(Layout) THEN pc' = pc + 1 /\ stage' = "exec" /\ outcome' = outcome
           ELSE pc' = pc /\ stage' = "done" /\ outcome' = "PASS"
End(o) == pc' = pc /\ stage' = "done" /\ outcome' = o

ExecCd ==
  /\ stage = "exec" /\ Instr = "cd" /\ Frame
  /\ cwd' = IF fam.cd = "sub" THEN cwd \o <<"sub">> ELSE <<"tmp">>
  /\ Advance /\ UNCHANGED <<symtab, actIn, ustep, prg, procs, raw, seen, tpos>>

ExecDef ==
  /\ stage = "exec" /\ Instr = "def" /\ Frame
  /\ LET k == Len(symtab) + 1 IN
     symtab' = Append(symtab, IF k = 1 THEN Prim(driver, lvs[1]) ELSE Accumulate(symtab[k - 1], lvs[k], k))
  /\ Advance /\ UNCHANGED <<cwd, actIn, ustep, prg, procs, raw, seen, tpos>>

ExecStdin ==
  /\ stage = "exec" /\ Instr = "stdin" /\ Frame
  /\ actIn' = <<PartOf(fam.actStdin, ChZ)>>
  /\ Advance /\ UNCHANGED <<symtab, cwd, ustep, prg, procs, raw, seen, tpos>>

\* the use, step by step
InterpProgram ==        \* ACT-INTERPRETER [ARG]... SOURCE-FILE [ARG]...
  [driver |-> driver, cmd |-> "-",
   args |-> ArgsDen(lv0.a, 0) \o <<<<IF ctx = "atcfile" THEN "ACTFILE" ELSE "SRCFILE", 0>>>> \o ArgsDen(lvs[1].a, 1),
   stdin |-> <<>>, trans |-> <<>>]
Resolve ==
  /\ stage = "exec" /\ Instr = "use" /\ ustep = "-" /\ ctx # "atcnull" /\ Frame
  /\ prg' = IF ctx \in InterpCtx THEN InterpProgram
            ELSE IF depth = 0 THEN Prim(driver, lvs[1])
            ELSE Accumulate(symtab[depth], lvs[depth + 1], depth + 1)
  /\ ustep' = "resolved"
  /\ UNCHANGED <<stage, pc, symtab, cwd, actIn, procs, raw, seen, tpos, outcome>>

MFile == <<"MFILE", 0>>                                   \* the path of the file a file matcher is applied to
Prefix(d) == IF d = "python" THEN <<<<"PYPROBE", 0>>>> ELSE <<>>     \* -python SCRIPT: the script is python's argument
ContextArgs(as) ==
  CASE ctx \in {"fmdef", "fmlast"} -> as \o <<MFile>>                             \* "the last argument"
    [] ctx = "fmmark" -> [i \in 1..Len(as) |-> IF as[i][1] = "mk" THEN MFile ELSE as[i]]   \* "replaces every argument
                                                                                            \* that equals MARKER"
    [] OTHER -> as
\* what is appended to the program's own stdin
ContextStdin == CASE ctx \in AtcProc -> actIn                                    \* "followed by the stdin set in setup"
                  [] ctx \in {"tmrun", "ttrun"} -> <<Part(<<ChM, NL>>, FALSE)>>    \* "the text to match is appended"
                  [] OTHER -> <<>>

Start ==
  /\ stage = "exec" /\ Instr = "use" /\ ustep = "resolved" /\ Frame
  /\ procs' = Append(procs, [shell |-> prg.driver = "shell",
                             cmd   |-> prg.cmd,
                             argv  |-> Prefix(prg.driver) \o ContextArgs(prg.args),
                             stdin |-> Concat(prg.stdin \o ContextStdin),
                             cwd   |-> cwd])
  /\ ustep' = "started"
  /\ UNCHANGED <<stage, pc, symtab, cwd, actIn, prg, raw, seen, tpos, outcome>>

Exit ==
  /\ stage = "exec" /\ Instr = "use" /\ ustep = "started" /\ Frame
  /\ raw' = [exit |-> fam.exit, out |-> StdoutText, err |-> StderrText]
  /\ seen' = raw' /\ tpos' = 0 /\ ustep' = "exited"
  /\ UNCHANGED <<stage, pc, symtab, cwd, actIn, prg, procs, outcome>>

Pending == Stream(ctx) # "none" /\ tpos < Len(prg.trans)
TransformStep ==
  /\ stage = "exec" /\ Instr = "use" /\ ustep = "exited" /\ Pending /\ Frame
  /\ seen' = [seen EXCEPT ![Stream(ctx)] = Subst(prg.trans[tpos + 1], @)]
  /\ tpos' = tpos + 1
  /\ UNCHANGED <<stage, pc, symtab, cwd, actIn, ustep, prg, procs, raw, outcome>>

ClaimVerdict == IF fam.claim = "true" THEN "PASS" ELSE "FAIL"
ExitBad == fam.exit # 0 /\ ~fam.ign
UseOutcome ==
  CASE ctx \in InstrCtx -> IF ExitBad THEN (IF phase = "assert" THEN "FAIL" ELSE "HARD_ERROR") ELSE "PASS"
    [] ctx \in SourceCtx -> IF ExitBad THEN "HARD_ERROR" ELSE "PASS"
    [] ctx = "ttrun" -> IF ExitBad THEN "HARD_ERROR" ELSE ClaimVerdict
    [] ctx \in {"tmrun"} \cup FmCtx -> IF fam.exit # 0 THEN "FAIL" ELSE "PASS"      \* "matches iff its exit code is 0"
    [] ctx \in FromCtx -> ClaimVerdict
    [] OTHER -> "PASS"                                   \* the action to check: the exit code is captured
Conclude ==
  /\ stage = "exec" /\ Instr = "use" /\ ustep = "exited" /\ ~Pending /\ Frame
  /\ IF UseOutcome = "PASS" THEN Advance ELSE End(UseOutcome)
  /\ UNCHANGED <<symtab, cwd, actIn, ustep, prg, procs, raw, seen, tpos>>

\* the null actor: "Exit code is unconditionally 0, and there is no output"
NullAct ==
  /\ stage = "exec" /\ Instr = "use" /\ ctx = "atcnull" /\ Frame
  /\ raw' = [exit |-> 0, out |-> <<>>, err |-> <<>>] /\ seen' = raw'
  /\ Advance /\ UNCHANGED <<symtab, cwd, actIn, ustep, prg, procs, tpos>>

\* the assertions exit-code / stdout / stderr on the action to check
ExecAssert ==
  /\ stage = "exec" /\ Instr = "assert" /\ Frame
  /\ End(ClaimVerdict)
  /\ UNCHANGED <<symtab, cwd, actIn, ustep, prg, procs, raw, seen, tpos>>

Next == ChooseShape \/ ChooseEnv \/ AddInterp \/ DefBase \/ DefLink \/ AddUse
        \/ ExecCd \/ ExecDef \/ ExecStdin \/ Resolve \/ Start \/ Exit \/ TransformStep \/ Conclude \/ NullAct \/ ExecAssert
Spec == Init /\ [][Next]_vars

\* ---- what the program text denotes, read off the levels (not via the symbol table) ------------------------
Done    == stage = "done"
Started == Len(procs) >= 1
Proc    == procs[1]
Built   == stage \in {"exec", "done"}
FromLvl == IF driver = "shell" THEN 2 ELSE 1          \* the arguments of level 1 are inside the shell command line
TextArgs  == Flat([j \in 1..(Len(lvs) - FromLvl + 1) |-> ArgsDen(lvs[j + FromLvl - 1].a, j + FromLvl - 1)])
TextParts == Flat([k \in 1..Len(lvs) |-> StdinDen(lvs[k].s, Letter(k))])
TextTrans == Flat([k \in 1..Len(lvs) |-> TransDen(lvs[k].t)])
ExpectedCwd == CASE fam.cd = "none" -> <<"act">> [] fam.cd = "sub" -> <<"act", "sub">> [] fam.cd = "tmp" -> <<"tmp">>

\* ---- properties (checked with Deviations = {}) ---------------------------------------------------------
TypeOK ==
  /\ stage \in {"shape", "env", "build", "exec", "done"}
  /\ outcome \in {"-", "PASS", "FAIL", "HARD_ERROR"}
  /\ ustep \in {"-", "resolved", "started", "exited"}
  /\ Len(symtab) <= depth /\ Len(lvs) <= depth + 1 /\ Len(procs) <= 1
  /\ Built => (fam.exit \in ExitsOf(ctx) /\ (fam.ign => AllowsIgn(ctx)) /\ fam.claim \in ClaimsOf(ctx))

\* arguments, stdin parts and transformations of a chain of program symbols: appended in definition order
AccumulationIsAppendInDefinitionOrder ==
  (Started /\ FullProgram(ctx)) =>
     /\ Proc.argv = Prefix(driver) \o ContextArgs(TextArgs)
     /\ Proc.stdin = Flat(Texts(TextParts \o ContextStdin))
     /\ prg.trans = TextTrans
\* the command-line actor: the program's own stdin first, then the stdin set in [setup]; other actors: the stdin set
ActStdinLast ==
  (Started /\ ctx \in AtcProc) =>
     Proc.stdin = Flat(Texts(TextParts)) \o (IF fam.actStdin = "none" THEN <<>> ELSE PartOf(fam.actStdin, ChZ).text)
\* a shell command is one string, kept as written; every other driver gets a list
ShellIsOneString ==
  Started => /\ Proc.shell = (driver = "shell")
             /\ Proc.shell => (Proc.cmd = lvs[1].a /\ Proc.argv = ContextArgs(TextArgs))
             /\ ~Proc.shell => Proc.cmd = "-"
\* interpreter actors: ACT-INTERPRETER's arguments, the source file, the arguments of the act phase
InterpreterArgv ==
  (Started /\ ctx \in InterpCtx) =>
     /\ Proc.argv = ArgsDen(lv0.a, 0) \o <<<<IF ctx = "atcfile" THEN "ACTFILE" ELSE "SRCFILE", 0>>>> \o ArgsDen(lvs[1].a, 1)
     /\ Proc.stdin = (IF fam.actStdin = "none" THEN <<>> ELSE PartOf(fam.actStdin, ChZ).text)
\* the process runs in the test's current directory - the one current when it is started
CwdIsCurrentDirectory == Started => Proc.cwd = ExpectedCwd
\* "The program is executed once, and only once"; the null actor starts nothing
ExecutedOnce == (Done /\ ctx # "atcnull") => Len(procs) = 1
NullActorStartsNothing == (ctx = "atcnull") => (procs = <<>> /\ (Done => seen = [exit |-> 0, out |-> <<>>, err |-> <<>>]))
\* exit code -> outcome, per context and phase
OutcomeTable ==
  Done =>
     /\ (ctx \in InstrCtx /\ fam.exit # 0 /\ ~fam.ign) => outcome = (IF phase = "assert" THEN "FAIL" ELSE "HARD_ERROR")
     /\ (ctx \in InstrCtx /\ (fam.exit = 0 \/ fam.ign)) => outcome = "PASS"
     /\ (ctx \in SourceCtx \cup {"ttrun"} /\ fam.exit # 0 /\ ~fam.ign) => outcome = "HARD_ERROR"
     /\ (ctx \in SourceCtx /\ (fam.exit = 0 \/ fam.ign)) => outcome = "PASS"
     /\ (ctx \in {"tmrun"} \cup FmCtx) => outcome = (IF fam.exit = 0 THEN "PASS" ELSE "FAIL")
     /\ (ctx \in AtcCtx \cup FromCtx /\ fam.claim = "true") => outcome = "PASS"       \* whatever the exit code
     /\ (outcome = "HARD_ERROR") => (phase # "act" /\ fam.exit # 0 /\ ~fam.ign)
     /\ (fam.claim # "true" /\ ~(ctx = "ttrun" /\ ExitBad)) => outcome = "FAIL"
\* what the assertions see is what the process produced: its exit code, its stderr, its stdout - the stream of the
\* context transformed by every transformation of the chain, in definition order, the other stream untouched
AssertionsSeeTheProcess ==
  (Done /\ raw # NoOut /\ ctx # "atcnull" /\ ~Pending) =>
     /\ seen.exit = fam.exit
     /\ seen.out = (IF Stream(ctx) = "out" THEN ApplyAll(TextTrans, StdoutText) ELSE StdoutText)
     /\ seen.err = (IF Stream(ctx) = "err" THEN ApplyAll(TextTrans, StderrText) ELSE StderrText)
TransformsContextStreamOnly ==
  (raw # NoOut) => /\ seen.exit = raw.exit
                   /\ Stream(ctx) # "out" => seen.out = raw.out
                   /\ Stream(ctx) # "err" => seen.err = raw.err
\* what a process was started with does not change afterwards (a later cd, a later definition do not reach it);
\* a symbol's value is fixed by its definition
ProcessFixedAtStart == [][Started => procs' = procs]_vars
SymbolsDefinedOnce  == [][\A k \in 1..Len(symtab) : Len(symtab') >= k /\ symtab'[k] = symtab[k]]_vars
=============================================================================
