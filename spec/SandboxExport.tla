--------------------------- MODULE SandboxExport ---------------------------
(* Export of every case of Sandbox with the snapshots its stubs must see, for replay against the real program. *)
EXTENDS Sandbox, Json
O == INSTANCE Outcome
Export == (done /\ result = <<>>) =>
   PrintT(<<"CASE", ToJson([mode |-> mode, endK |-> endK, endI |-> endI, endO |-> endO,
                            endStep |-> IF endK = 0 THEN <<"-", "-">> ELSE Forward[endK],
                            cleanupO |-> cleanupO, fCd |-> fCd, fEnv |-> fEnv, fTmp |-> fTmp, fRm |-> fRm,
                            setup |-> SetupKinds, snaps |-> snaps, sds |-> sds,
                            acc |-> {O!Verdict(tcStatus, r[3]) : r \in Acceptable},
                            executed |-> ActExecuted])>>)
ASSUME PrintT(<<"LEFT", ToJson({[row |-> r, exp |-> LeftExpected(r)] : r \in LeftRows})>>)
=============================================================================
