------------------------------ MODULE Outcome ------------------------------
(***************************************************************************)
(* The documented outcome table (reference manual, "Outcome"; CLI section):*)
(* configured status x result of the execution -> verdict;                 *)
(* verdict -> (exit code, exit identifier);                                *)
(* output mode -> what is written on stdout / stderr.                      *)
(* Operators only; the reporter as a step machine is in OutcomeReport.     *)
(***************************************************************************)
EXTENDS Naturals, Sequences, FiniteSets

TcStatuses == {"PASS", "FAIL", "SKIP"}

\* Result statuses of an execution that was started.
ExeStatuses == {"PASS", "FAIL", "VALIDATION_ERROR", "HARD_ERROR", "INTERNAL_ERROR", "SYNTAX_ERROR"}

\* Ways of not even getting to the execution (reported by the processor).
AccessErrors == {"FILE_ACCESS_ERROR", "PRE_PROCESS_ERROR", "SYNTAX_ERROR", "NO_EXECUTION__VALIDATION_ERROR"}

Verdicts == {"PASS", "FAIL", "XFAIL", "XPASS", "SKIPPED", "VALIDATION_ERROR", "HARD_ERROR", "INTERNAL_ERROR",
             "SYNTAX_ERROR", "FILE_ACCESS_ERROR", "PRE_PROCESS_ERROR"}

\* status configured in [conf]  x  status of the execution  ->  verdict
Verdict(tc, exe) ==
  IF tc = "SKIP" /\ exe = "PASS" THEN "SKIPPED"
  ELSE IF tc = "FAIL" /\ exe = "FAIL" THEN "XFAIL"
  ELSE IF tc = "FAIL" /\ exe = "PASS" THEN "XPASS"
  ELSE exe

ExitCode(v) ==
  CASE v \in {"PASS", "SKIPPED"} -> 0
    [] v = "FAIL" -> 32
    [] v \in {"XFAIL", "XPASS"} -> 33
    [] v \in {"SYNTAX_ERROR", "VALIDATION_ERROR", "FILE_ACCESS_ERROR", "PRE_PROCESS_ERROR"} -> 65
    [] v = "HARD_ERROR" -> 128
    [] v = "INTERNAL_ERROR" -> 129

UsageErrorExitCode == 64

Successful(v) == v \in {"PASS", "SKIPPED", "XFAIL"}   \* what a suite counts as success

=============================================================================
