---------------------------- MODULE ExactlyExport ----------------------------
(* Export of every complete behaviour of the composition, for replay through the real CLI. *)
EXTENDS Exactly, Json
Export == Exited =>
   PrintT(<<"RUN", ToJson([n |-> n, st |-> tcStatus, mode |-> mode, log |-> log, pre |-> pre, atcExit |-> atcExit,
                           exit |-> xexit, out |-> xout, err |-> xerr, sds |-> sds, verdict |-> Verdict])>>)
=============================================================================
