--------------------------- MODULE InvalidExport ---------------------------
(* Export of every case of Invalid with the predicted report, for replay with real instructions. *)
EXTENDS Invalid, Json
Export == (done /\ result = <<>>) =>
   PrintT(<<"CASE", ToJson([defect |-> defect, dphase |-> dphase, dpos |-> dpos, frontend |-> frontend,
                            mode |-> mode, actor |-> actor, base |-> Base,
                            detected |-> Detected,
                            verdict |-> IF Detected THEN fail[3] ELSE "PASS",
                            step |-> IF Detected THEN <<fail[1], fail[2]>> ELSE <<"-", "-">>,
                            log |-> log])>>)
=============================================================================
