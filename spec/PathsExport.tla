---------------------------- MODULE PathsExport ----------------------------
(* Export of every case of Paths with what the specification predicts, for replay against the real program.  *)
(* One record per terminal state; a case whose argument is only read and whose relativity the manual does    *)
(* not list has two terminal states (accepted and resolved / rejected): either is acceptable.  When only the *)
(* accepting behaviour is explored (MayReject = FALSE, random simulation) the other alternative is exported  *)
(* from the state in which the choice exists (tag ALT; simulation evaluates invariants on every successor,   *)
(* followed or not: an ALT record counts only for a program that also reached a terminal state).             *)
(* Per use instruction: resolved = the location its path resolved to, cwdAtUse = the directory current then, *)
(* rc = the path below its root before the current directory is substituted (the relative path the harness   *)
(* puts under every root).                                                                                   *)
EXTENDS Paths, Json
Rec(o, us) ==
   [role |-> role, phase |-> phase, depth |-> depth, cdpos |-> cdpos, cdform |-> cdform,
    prog |-> [j \in 1..Len(prog) |->
                [op |-> prog[j].op, role |-> prog[j].role, rel |-> prog[j].x.rel,
                 sym |-> prog[j].x.sym, sfx |-> prog[j].x.sfx, parts |-> Parts(prog[j].x.sfx)]],
    outcome |-> o, uses |-> us,
    bad |-> \E j \in 1..Len(prog) : Bad(prog[j].x), d4 |-> D4]
UsesRec == [k \in 1..Len(uses) |->
              [resolved |-> uses[k].loc, cwdAtUse |-> uses[k].at,
               rc |-> Eval(Use.x, symtab, Default(role)).comps \o Leaf(k)]]
Export ==
  /\ Done => PrintT(<<"CASE", ToJson(Rec(outcome, IF outcome = "PASS" THEN UsesRec ELSE <<>>))>>)
  /\ (~MayReject /\ MayRejectOutcome # "-") => PrintT(<<"ALT", ToJson(Rec(MayRejectOutcome, <<>>))>>)
=============================================================================
