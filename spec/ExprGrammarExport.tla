------------------------- MODULE ExprGrammarExport -------------------------
(* Export for replay: every token string with what it denotes under both readings of the unspecified line     *)
(* breaks; every tree in every layout with its value and the primitives evaluated (lazy, left to right).       *)
EXTENDS ExprGrammar, Json
ExportStrings == (Mode = "strings" /\ ts # <<>> /\ ts[Len(ts)] # "NL") =>
   PrintT(<<"STR", ToJson([ts |-> ts, strict |-> Denote(ts, FALSE), lenient |-> Denote(ts, TRUE)])>>)
ExportTrees == (Mode = "trees" /\ done) =>
   \A l \in Layouts : LET r == RenderL(Top, l) IN
      PrintT(<<"TREE", ToJson([ts |-> r, layout |-> l, d |-> Denote(r, FALSE), shape |-> Shape(Top)])>>)
\* near misses: every rendering with one token deleted, or one operator / parenthesis / line break inserted - the
\* strings on which a parser is most likely to accept too much
InsertAt(r, i, x) == SubSeq(r, 1, i - 1) \o x \o SubSeq(r, i, Len(r))
Insertions == {<<"&&">>, <<"||">>, <<"(">>, <<")">>, <<"!">>, <<"NL">>, <<"NL", "&&">>, <<"NL", "||">>, <<"&&", "NL">>,
               <<"NL", ")">>}
DeleteAt(r, i) == SubSeq(r, 1, i - 1) \o SubSeq(r, i + 1, Len(r))
NearRec(t) == [ts |-> t, strict |-> Denote(t, FALSE), lenient |-> Denote(t, TRUE)]
ReplaceAt(r, i, x) == SubSeq(r, 1, i - 1) \o x \o SubSeq(r, i + 1, Len(r))
NearRenderings == {RenderL(Top, <<"min", "none">>), RenderL(Top, <<"all", "none">>), RenderL(Top, <<"outer", "none">>),
                   Wrap(RenderL(Top, <<"outer", "none">>), "none")}          \* the last: redundant double parentheses
\* a QUOTED reserved word is a string, never the operator or parenthesis: in place of one it is malformed
Quoted(tok) == CASE tok = "!" -> "'!'" [] tok = "&&" -> "\"&&\"" [] tok = "||" -> "'||'" [] tok = "(" -> "'('"
                 [] tok = ")" -> "\")\"" [] OTHER -> tok
ExportNear == (Mode = "trees" /\ done) =>
   \A r \in NearRenderings :
      /\ \A i \in 1..Len(r) : PrintT(<<"NEAR", ToJson(NearRec(DeleteAt(r, i)))>>)
      /\ \A i \in 1..Len(r) : (Quoted(r[i]) # r[i]) => PrintT(<<"NEAR", ToJson(NearRec(ReplaceAt(r, i, <<Quoted(r[i])>>)))>>)
      \* "P": a primitive that has lost its argument (`matches`, `num-lines`, `==` without what must follow).  It is
      \* no token of the grammar: whatever follows it - an operator, a parenthesis, the end of the line - is not
      \* its argument (reserved words are no arguments), so the expression is malformed
      /\ \A i \in 1..Len(r) : (r[i] \in {"T", "F"}) => PrintT(<<"NEAR", ToJson(NearRec(ReplaceAt(r, i, <<"P">>)))>>)
      \* ... also when a reserved word stands where the argument would be and the REST is a well-formed expression
      /\ \A i \in 1..Len(r) : \A x \in {"&&", "||", "!", "(", ")"} :
            (r[i] \in {"T", "F"}) => PrintT(<<"NEAR", ToJson(NearRec(ReplaceAt(r, i, <<"P", x>>)))>>)
      /\ \A i \in 1..Len(r) : \A x \in Insertions :
            (x # <<r[i]>> /\ (i > 1 \/ x[1] # "NL")) => PrintT(<<"NEAR", ToJson(NearRec(ReplaceAt(r, i, x)))>>)
      /\ \A i \in 1..(Len(r) + 1) : \A x \in Insertions :
            (i > 1 \/ x[1] # "NL") => PrintT(<<"NEAR", ToJson(NearRec(InsertAt(r, i, x)))>>)
=============================================================================
