------------------------- MODULE ExprGrammarExport -------------------------
(* Export for replay: every token string with what it denotes under both readings of the unspecified line     *)
(* breaks; every tree in every layout with its value and the primitives evaluated (lazy, left to right).       *)
EXTENDS ExprGrammar, Json
ExportStrings == (Mode = "strings" /\ ts # <<>> /\ ts[Len(ts)] # "NL") =>
   PrintT(<<"STR", ToJson([ts |-> ts, strict |-> Denote(ts, FALSE), lenient |-> Denote(ts, TRUE)])>>)
ExportTrees == (Mode = "trees" /\ done) =>
   \A l \in Layouts : LET r == RenderL(Top, l) IN
      PrintT(<<"TREE", ToJson([ts |-> r, layout |-> l, d |-> Denote(r, FALSE), shape |-> Shape(Top)])>>)
=============================================================================
