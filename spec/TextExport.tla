----------------------------- MODULE TextExport -----------------------------
(* Export: the operation families once, and for every text the output of every transformer and the verdict of   *)
(* every matcher (by index into the families).                                                                   *)
EXTENDS Text, Json
ASSUME PrintT(<<"OPS", ToJson([transformers |-> Transformers, matchers |-> Matchers])>>)
Export ==
   PrintT(<<"TEXT", ToJson([t |-> t,
                            outs |-> [k \in 1..Len(Transformers) |-> Apply(Transformers[k], t)],
                            holds |-> [k \in 1..Len(Matchers) |-> Holds(Matchers[k], t)]])>>)
=============================================================================
