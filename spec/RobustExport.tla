---------------------------- MODULE RobustExport ----------------------------
EXTENDS Robust, Json
Export == (stage = "done") =>
   PrintT(<<"CASE", ToJson([toks |-> toks, class |-> Class, allowed |-> Allowed, defects |-> defects, muts |-> muts])>>)
=============================================================================
