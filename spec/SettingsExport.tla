--------------------------- MODULE SettingsExport ---------------------------
(* Export of every case of Settings - the history and what every process of the case must have seen - for     *)
(* replay against the real program.  One record per terminal state (family "timed": only the cases in which   *)
(* the sleeper has been placed).                                                                              *)
(*   hist      the setting instructions, with the parts of the VALUE template                                 *)
(*   probes    per process, in order of execution: id, phase, kind of instruction that starts it, the tracked *)
(*             variables it sees, its current directory, the timeout in force, the symbols it is given        *)
(*             (pval: what the path symbol  -rel-cd a  denotes THERE), at: the number of setting instructions *)
(*             executed before it (its place in the case), sleeper? killed?                                   *)
(*   verdict   PASS / HARD_ERROR;  skipped: the phases that are not executed after a kill                     *)
(*   mayRefuse the history uses PHASE-SPEC after [setup], which the manual does not list there: the case may  *)
(*             also be refused as a whole (SYNTAX_ERROR, nothing executed)                                    *)
EXTENDS Settings, Json
HistRec  == [k \in 1..Len(hist) |->
               [ph |-> hist[k].ph, op |-> hist[k].op, a |-> hist[k].a, b |-> hist[k].b, c |-> hist[k].c,
                d |-> hist[k].d,
                parts |-> IF hist[k].op = "set" THEN TplParts(hist[k].c) ELSE <<>>]]
ProbeRec == [j \in 1..Len(probes) |->
               [id |-> probes[j].id, ph |-> probes[j].ph, kind |-> probes[j].kind, sees |-> probes[j].sees,
                env |-> probes[j].env, cwd |-> probes[j].cwd, to |-> probes[j].to, syms |-> probes[j].syms,
                pval |-> Append(probes[j].cwd, "a"), at |-> probes[j].at,
                timed |-> probes[j].timed, killed |-> probes[j].killed]]
Skipped  == IF killedIn \in {"-", "cleanup"} THEN {}
            ELSE {PhaseSeq[j] : j \in {j \in 1..4 : j > PhaseIdx(killedIn)}}
MayRefuse == \E k \in 1..Len(hist) : hist[k].op \in {"set", "unset"} /\ hist[k].ph # "setup" /\ hist[k].a # "both"
Export ==
  (Done /\ (fam = "timed" => timedUsed)) =>
     PrintT(<<"CASE", ToJson([fam |-> fam, plan |-> plan, hist |-> HistRec, probes |-> ProbeRec,
                              verdict |-> Verdict, killedIn |-> killedIn, skipped |-> Skipped,
                              mayRefuse |-> MayRefuse, osEnv |-> osEnv])>>)
=============================================================================
