----------------------------- MODULE IntervalOps -----------------------------
(***************************************************************************)
(* C13, unbounded part.  The interval algebra of LineFilter.tla (the       *)
(* mechanism behind `filter`, as the code has it after the repair of D1)   *)
(* written without the sentinel `None`: whether a limit exists is read     *)
(* off the kind of the interval, so that the limits range over ALL         *)
(* integers.  Constant module, typed for Apalache:                         *)
(*   IntervalLemmas.tla    Apalache proves the local soundness lemmas for  *)
(*                         every integer operand and every line number;    *)
(*   IntervalOpsEq.tla     TLC checks that these operators ARE the ones of *)
(*                         LineFilter.tla on the bounded domain.           *)
(* The lemmas are the induction steps of IntervalSound / InversionSound of *)
(* LineFilter.tla (structural induction over the expression), which TLC    *)
(* checks for every expression up to a size bound.                         *)
(***************************************************************************)
EXTENDS Integers

Kinds == {"e", "u", "up", "lo", "fin"}

\* @type: (Str, Int, Int) => {k: Str, l: Int, u: Int};
Mk(kind, l, u) == [k |-> kind, l |-> IF kind \in {"lo", "fin"} THEN l ELSE 0, u |-> IF kind \in {"up", "fin"} THEN u ELSE 0]
\* @type: {k: Str, l: Int, u: Int} => Bool;
HasL(p) == p.k \in {"lo", "fin"}
\* @type: {k: Str, l: Int, u: Int} => Bool;
HasU(p) == p.k \in {"up", "fin"}
EmptyI == Mk("e", 0, 0)
UnlI == Mk("u", 0, 0)
\* @type: (Bool, Int, Bool, Int) => {k: Str, l: Int, u: Int};
Of(hl, l, hu, u) == IF hl THEN (IF hu THEN Mk("fin", l, u) ELSE Mk("lo", l, 0))
                    ELSE (IF hu THEN Mk("up", 0, u) ELSE UnlI)
\* @type: {k: Str, l: Int, u: Int} => {k: Str, l: Int, u: Int};
NatInv(p) == CASE p.k = "e" -> UnlI [] p.k = "u" -> EmptyI [] p.k = "up" -> Mk("lo", p.u + 1, 0)
               [] p.k = "lo" -> Mk("up", 0, p.l - 1) [] OTHER -> UnlI

\* @type: ({k: Str, l: Int, u: Int}, {k: Str, l: Int, u: Int}) => {pos: {k: Str, l: Int, u: Int}, inv: {k: Str, l: Int, u: Int}};
Pair(p, q) == [pos |-> p, inv |-> q]
\* @type: {k: Str, l: Int, u: Int} => {pos: {k: Str, l: Int, u: Int}, inv: {k: Str, l: Int, u: Int}};
Natural(p) == Pair(p, NatInv(p))
\* @type: {pos: {k: Str, l: Int, u: Int}, inv: {k: Str, l: Int, u: Int}} => {pos: {k: Str, l: Int, u: Int}, inv: {k: Str, l: Int, u: Int}};
Inv(x) == Pair(x.inv, x.pos)
\* @type: {pos: {k: Str, l: Int, u: Int}, inv: {k: Str, l: Int, u: Int}} => Bool;
IsEmpty(x) == x.pos.k = "e"
\* @type: (Int, Int) => Int;
Min(a, b) == IF a < b THEN a ELSE b
\* @type: (Int, Int) => Int;
Max(a, b) == IF a > b THEN a ELSE b

\* @type: ({pos: {k: Str, l: Int, u: Int}, inv: {k: Str, l: Int, u: Int}}, {pos: {k: Str, l: Int, u: Int}, inv: {k: Str, l: Int, u: Int}}) => {pos: {k: Str, l: Int, u: Int}, inv: {k: Str, l: Int, u: Int}};
Union(a, b) ==
  IF IsEmpty(a) THEN b ELSE IF IsEmpty(b) THEN a
  ELSE Natural(Of(HasL(a.pos) /\ HasL(b.pos), Min(a.pos.l, b.pos.l),
                  HasU(a.pos) /\ HasU(b.pos), Max(a.pos.u, b.pos.u)))
\* @type: ({pos: {k: Str, l: Int, u: Int}, inv: {k: Str, l: Int, u: Int}}, {pos: {k: Str, l: Int, u: Int}, inv: {k: Str, l: Int, u: Int}}) => {pos: {k: Str, l: Int, u: Int}, inv: {k: Str, l: Int, u: Int}};
Intersection(a, b) ==
  IF IsEmpty(a) THEN a ELSE IF IsEmpty(b) THEN b
  ELSE LET hl == HasL(a.pos) \/ HasL(b.pos)
           hu == HasU(a.pos) \/ HasU(b.pos)
           l == IF ~HasL(a.pos) THEN b.pos.l ELSE IF ~HasL(b.pos) THEN a.pos.l ELSE Max(a.pos.l, b.pos.l)
           u == IF ~HasU(a.pos) THEN b.pos.u ELSE IF ~HasU(b.pos) THEN a.pos.u ELSE Min(a.pos.u, b.pos.u)
       IN IF hl /\ hu /\ l > u THEN Natural(EmptyI) ELSE Natural(Of(hl, l, hu, u))

\* @type: (Str, Int) => {pos: {k: Str, l: Int, u: Int}, inv: {k: Str, l: Int, u: Int}};
LeafInterval(op, k) ==
  CASE op = "==" -> Natural(Mk("fin", k, k))
    [] op = "!=" -> Pair(UnlI, Mk("fin", k, k))
    [] op = "<" -> Natural(Mk("up", 0, k - 1))
    [] op = "<=" -> Natural(Mk("up", 0, k))
    [] op = ">" -> Natural(Mk("lo", k + 1, 0))
    [] OTHER -> Natural(Mk("lo", k, 0))

\* @type: {pos: {k: Str, l: Int, u: Int}, inv: {k: Str, l: Int, u: Int}} => {pos: {k: Str, l: Int, u: Int}, inv: {k: Str, l: Int, u: Int}};
AdaptLine(x) ==
  IF IsEmpty(x) THEN x
  ELSE IF HasU(x.pos) /\ x.pos.u < 1 THEN Natural(EmptyI)
  ELSE LET l0 == Max(1, x.pos.l)
           hl == HasL(x.pos) /\ l0 # 1
           u == Max(1, x.pos.u)
       IN IF hl /\ HasU(x.pos) /\ l0 > u THEN Natural(EmptyI) ELSE Natural(Of(hl, l0, HasU(x.pos), u))
\* @type: (Str, {pos: {k: Str, l: Int, u: Int}, inv: {k: Str, l: Int, u: Int}}) => {pos: {k: Str, l: Int, u: Int}, inv: {k: Str, l: Int, u: Int}};
Adapt(lvl, x) == IF lvl = "l" THEN AdaptLine(x) ELSE x

\* the repaired combination: the inversion is built from the operands' inversions (De Morgan)
\* @type: (Str, Bool, {pos: {k: Str, l: Int, u: Int}, inv: {k: Str, l: Int, u: Int}}, {pos: {k: Str, l: Int, u: Int}, inv: {k: Str, l: Int, u: Int}}) => {pos: {k: Str, l: Int, u: Int}, inv: {k: Str, l: Int, u: Int}};
BinOp(lvl, isUnion, x, y) ==
  LET un == IF isUnion THEN Union(x, y) ELSE Intersection(x, y)
      inversion == IF isUnion THEN Intersection(Inv(x), Inv(y)) ELSE Union(Inv(x), Inv(y))
  IN Pair(un.pos, Adapt(lvl, inversion).pos)
\* the combination before the repair of D1: the inversion of the cover
\* @type: (Str, Bool, {pos: {k: Str, l: Int, u: Int}, inv: {k: Str, l: Int, u: Int}}, {pos: {k: Str, l: Int, u: Int}, inv: {k: Str, l: Int, u: Int}}) => {pos: {k: Str, l: Int, u: Int}, inv: {k: Str, l: Int, u: Int}};
BinOpD1(lvl, isUnion, x, y) ==
  LET un == IF isUnion THEN Union(x, y) ELSE Intersection(x, y)
  IN Pair(un.pos, Adapt(lvl, Inv(un)).pos)

\* @type: (Int, {k: Str, l: Int, u: Int}) => Bool;
In(n, p) == CASE p.k = "e" -> FALSE [] p.k = "u" -> TRUE [] p.k = "up" -> n <= p.u
              [] p.k = "lo" -> n >= p.l [] OTHER -> p.l <= n /\ n <= p.u

\* @type: (Str, Int, Int) => Bool;
Cmp(op, n, k) == CASE op = "==" -> n = k [] op = "!=" -> n # k [] op = "<" -> n < k
                   [] op = "<=" -> n <= k [] op = ">" -> n > k [] OTHER -> n >= k
=============================================================================
