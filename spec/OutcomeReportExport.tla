------------------------ MODULE OutcomeReportExport ------------------------
(* Export of every run of OutcomeReport with what it must report, for replay against the real program. *)
EXTENDS OutcomeReport, Json
Export == Done =>
   PrintT(<<"CASE", ToJson([tc |-> tc, mode |-> mode, pre |-> pre, endK |-> endK, endO |-> endO,
                            endStep |-> IF endK = 0 THEN <<"-", "-">> ELSE Forward[endK],
                            cleanupO |-> cleanupO, atcExit |-> atcExit,
                            verdict |-> verdict, exit |-> exit, out |-> out, err |-> err,
                            sds |-> SdsCreated, complete |-> Complete])>>)
=============================================================================
