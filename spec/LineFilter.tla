----------------------------- MODULE LineFilter -----------------------------
(***************************************************************************)
(* C13: `filter LINE-MATCHER` keeps exactly the lines the matcher accepts; *)
(* `filter -line-nums RANGE...` keeps exactly the lines in some range.     *)
(*                                                                         *)
(* Two layers.                                                             *)
(*  Reference: Accepts(lm, n) per line, RangeSel(ranges, N).               *)
(*  Mechanism, as the code has it: every matcher expression gets an        *)
(*  interval of line numbers (with an explicit "inversion" for negation)   *)
(*  computed by two mutually recursive visitors; only lines inside the     *)
(*  interval are read (skip lower-1 lines, stop after line upper) and      *)
(*  tested.  The design-level claims are IntervalSound / InversionSound    *)
(*  (the analysis never excludes an accepted line) and FilterExact.        *)
(*                                                                         *)
(* Expressions are built by a stack machine (the actions are the tokens of *)
(* the expression in postfix order), so TLC enumerates every expression    *)
(* up to a size bound, at the integer-matcher and the line-matcher level.  *)
(*                                                                         *)
(* Deviations: {"D1"} switches the mechanism back to the code before the   *)
(* repair of defect D1 (inversion of a combination taken from its cover).  *)
(***************************************************************************)
EXTENDS Integers, Sequences, FiniteSets, TLC

CONSTANTS MaxLines,      \* length of the longest text
          Ks,            \* operands of line-num comparisons
          MaxTokens,     \* bound on the size of an expression (postfix tokens)
          MaxNeg,        \* bound on the number of negations in an expression
          Deviations

Ops == {"==", "!=", "<", "<=", ">", ">="}
ContentsLines == {n \in 1..MaxLines : n % 2 = 1}     \* the lines the `contents` leaf accepts (odd lines)
TextLens == {0, 1, MaxLines}

-----------------------------------------------------------------------------
(* Reference semantics                                                      *)
Cmp(op, n, k) == CASE op = "==" -> n = k [] op = "!=" -> n # k [] op = "<" -> n < k
                   [] op = "<=" -> n <= k [] op = ">" -> n > k [] op = ">=" -> n >= k

\* expressions: <<"cmp", op, k>> <<"const", b>> <<"not", e>> <<"and", e1, e2>> <<"or", e1, e2>>     (integer matchers)
\*              <<"ln", im>> <<"contents">> and the same constants / combinators                    (line matchers)
RECURSIVE Accepts(_, _)
Accepts(e, n) ==
  CASE e[1] = "cmp" -> Cmp(e[2], n, e[3])
    [] e[1] = "const" -> e[2]
    [] e[1] = "not" -> ~Accepts(e[2], n)
    [] e[1] = "and" -> Accepts(e[2], n) /\ Accepts(e[3], n)
    [] e[1] = "or" -> Accepts(e[2], n) \/ Accepts(e[3], n)
    [] e[1] = "ln" -> Accepts(e[2], n)
    [] e[1] = "contents" -> n \in ContentsLines

Filter(e, N) == {n \in 1..N : Accepts(e, n)}

-----------------------------------------------------------------------------
(* Mechanism: intervals with inversion                                      *)
None == 0 - 9999
Plain(kind, l, u) == [k |-> kind, l |-> l, u |-> u]
EmptyI == Plain("e", None, None)
UnlI == Plain("u", None, None)
Of(l, u) == IF l = None THEN (IF u = None THEN UnlI ELSE Plain("up", None, u))
            ELSE (IF u = None THEN Plain("lo", l, None) ELSE Plain("fin", l, u))
NatInv(p) == CASE p.k = "e" -> UnlI [] p.k = "u" -> EmptyI [] p.k = "up" -> Plain("lo", p.u + 1, None)
               [] p.k = "lo" -> Plain("up", None, p.l - 1) [] p.k = "fin" -> UnlI
\* an interval as the code sees it: what it covers (pos) and what its inversion covers (inv)
Pair(p, q) == [pos |-> p, inv |-> q]
Natural(p) == Pair(p, NatInv(p))
Inv(x) == Pair(x.inv, x.pos)
IsEmpty(x) == x.pos.k = "e"
Min(a, b) == IF a < b THEN a ELSE b
Max(a, b) == IF a > b THEN a ELSE b

Union(a, b) ==
  IF IsEmpty(a) THEN b ELSE IF IsEmpty(b) THEN a
  ELSE Natural(Of(IF a.pos.l # None /\ b.pos.l # None THEN Min(a.pos.l, b.pos.l) ELSE None,
              IF a.pos.u # None /\ b.pos.u # None THEN Max(a.pos.u, b.pos.u) ELSE None))
Intersection(a, b) ==
  IF IsEmpty(a) THEN a ELSE IF IsEmpty(b) THEN b
  ELSE LET l == IF a.pos.l = None THEN b.pos.l ELSE IF b.pos.l = None THEN a.pos.l ELSE Max(a.pos.l, b.pos.l)
           u == IF a.pos.u = None THEN b.pos.u ELSE IF b.pos.u = None THEN a.pos.u ELSE Min(a.pos.u, b.pos.u)
       IN IF l # None /\ u # None /\ l > u THEN Natural(EmptyI) ELSE Natural(Of(l, u))

LeafInterval(op, k) ==
  CASE op = "==" -> Natural(Plain("fin", k, k))
    [] op = "!=" -> Pair(UnlI, Plain("fin", k, k))
    [] op = "<" -> Natural(Plain("up", None, k - 1))
    [] op = "<=" -> Natural(Plain("up", None, k))
    [] op = ">" -> Natural(Plain("lo", k + 1, None))
    [] op = ">=" -> Natural(Plain("lo", k, None))

\* adaption to line numbers (first line is 1); the identity at the integer-matcher level
AdaptLine(x) ==
  IF IsEmpty(x) THEN x
  ELSE IF x.pos.u # None /\ x.pos.u < 1 THEN Natural(EmptyI)
  ELSE LET l0 == IF x.pos.l = None THEN None ELSE Max(1, x.pos.l)
           l == IF l0 = 1 THEN None ELSE l0
           u == IF x.pos.u = None THEN None ELSE Max(1, x.pos.u)
       IN IF l # None /\ u # None /\ l > u THEN Natural(EmptyI) ELSE Natural(Of(l, u))
Adapt(lvl, x) == IF lvl = "l" THEN AdaptLine(x) ELSE x

UnknownRaw == Pair(UnlI, UnlI)
Unknown(lvl) == Pair(Adapt(lvl, UnknownRaw).pos, Adapt(lvl, Inv(UnknownRaw)).pos)

Not(e) == <<"not", e>>

\* P: the interval of e;  N: the interval of the negation of e   (the two visitors of the code)
RECURSIVE P(_, _), N(_, _)
BinOp(lvl, isUnion, x, y) ==
  LET un == IF isUnion THEN Union(x, y) ELSE Intersection(x, y)
      inversion == IF "D1" \in Deviations
                   THEN Inv(un)                                          \* before the repair: inversion of the cover
                   ELSE IF isUnion THEN Intersection(Inv(x), Inv(y))     \* De Morgan over the operands' inversions
                                   ELSE Union(Inv(x), Inv(y))
  IN Pair(un.pos, Adapt(lvl, inversion).pos)
P(lvl, e) ==
  CASE e[1] = "const" -> Adapt(lvl, Natural(IF e[2] THEN UnlI ELSE EmptyI))
    [] e[1] = "not" -> Adapt(lvl, N(lvl, e[2]))
    [] e[1] = "and" -> BinOp(lvl, FALSE, P(lvl, e[2]), P(lvl, e[3]))
    [] e[1] = "or" -> BinOp(lvl, TRUE, P(lvl, e[2]), P(lvl, e[3]))
    [] e[1] = "cmp" -> Adapt(lvl, LeafInterval(e[2], e[3]))
    [] e[1] = "ln" -> Adapt(lvl, P("i", e[2]))          \* line-num IM: the interval of the integer matcher
    [] e[1] = "contents" -> Unknown(lvl)
N(lvl, e) ==
  CASE e[1] = "const" -> Natural(IF e[2] THEN EmptyI ELSE UnlI)
    [] e[1] = "not" -> P(lvl, e[2])
    [] e[1] = "and" -> P(lvl, <<"or", Not(e[2]), Not(e[3])>>)
    [] e[1] = "or" -> P(lvl, <<"and", Not(e[2]), Not(e[3])>>)
    [] e[1] = "cmp" -> Inv(LeafInterval(e[2], e[3]))
    [] e[1] = "ln" -> Inv(P("i", e[2]))
    [] e[1] = "contents" -> Pair(Unknown(lvl).inv, Unknown(lvl).pos)

In(n, p) == CASE p.k = "e" -> FALSE [] p.k = "u" -> TRUE [] p.k = "up" -> n <= p.u
              [] p.k = "lo" -> n >= p.l [] p.k = "fin" -> p.l <= n /\ n <= p.u

\* reading limited by an interval: skip lower-1 lines, yield, stop after the line whose number is upper
ReadWithin(p, Nn) ==
  IF p.k = "e" THEN {}
  ELSE IF p.k = "u" THEN 1..Nn
  ELSE LET skip == IF p.l = None THEN 0 ELSE p.l - 1
       IN {ln \in (skip + 1)..Nn : p.u = None \/ ln <= p.u \/ p.u < skip + 1}

FilterImpl(e, Nn) == {n \in ReadWithin(P("l", e).pos, Nn) : Accepts(e, n)}

-----------------------------------------------------------------------------
(* -line-nums RANGE...                                                      *)
\* ranges: <<"single", k>>  <<"upto", k>>  <<"from", k>>  <<"range", j, k>>; negative numbers count from the end
Tr(k, Nn) == IF k < 0 THEN Nn + 1 + k ELSE k
InRange(r, n, Nn) ==
  CASE r[1] = "single" -> n = Tr(r[2], Nn)
    [] r[1] = "upto" -> n <= Tr(r[2], Nn)
    [] r[1] = "from" -> n >= Tr(r[2], Nn)
    [] r[1] = "range" -> Tr(r[2], Nn) <= n /\ n <= Tr(r[3], Nn)
RangeSel(rs, Nn) == {n \in 1..Nn : \E j \in 1..Len(rs) : InRange(rs[j], n, Nn)}

-----------------------------------------------------------------------------
(* The expression machine                                                   *)
VARIABLES stack,   \* sequence of <<level, expression>>
          tokens, negs, done
vars == <<stack, tokens, negs, done>>

Init == stack = <<>> /\ tokens = 0 /\ negs = 0 /\ done = FALSE

Top == stack[Len(stack)]
Pop1 == SubSeq(stack, 1, Len(stack) - 1)
Pop2 == SubSeq(stack, 1, Len(stack) - 2)
CanGrow == ~done /\ tokens < MaxTokens

PushCmp(op, k) == /\ CanGrow /\ Len(stack) < 2
                  /\ stack' = Append(stack, <<"i", <<"cmp", op, k>>>>)
                  /\ tokens' = tokens + 1 /\ UNCHANGED <<negs, done>>
PushConst(lvl, b) == /\ CanGrow /\ Len(stack) < 2
                     /\ stack' = Append(stack, <<lvl, <<"const", b>>>>)
                     /\ tokens' = tokens + 1 /\ UNCHANGED <<negs, done>>
PushContents == /\ CanGrow /\ Len(stack) < 2
                /\ stack' = Append(stack, <<"l", <<"contents">>>>)
                /\ tokens' = tokens + 1 /\ UNCHANGED <<negs, done>>
Negate == /\ CanGrow /\ Len(stack) >= 1 /\ negs < MaxNeg
          /\ stack' = Append(Pop1, <<Top[1], <<"not", Top[2]>>>>)
          /\ tokens' = tokens + 1 /\ negs' = negs + 1 /\ UNCHANGED done
Combine(op) == /\ CanGrow /\ Len(stack) >= 2
               /\ stack[Len(stack) - 1][1] = Top[1]
               /\ stack' = Append(Pop2, <<Top[1], <<op, stack[Len(stack) - 1][2], Top[2]>>>>)
               /\ tokens' = tokens + 1 /\ UNCHANGED <<negs, done>>
LineNum == /\ CanGrow /\ Len(stack) >= 1 /\ Top[1] = "i"
           /\ stack' = Append(Pop1, <<"l", <<"ln", Top[2]>>>>)
           /\ tokens' = tokens + 1 /\ UNCHANGED <<negs, done>>
Finish == /\ ~done /\ Len(stack) = 1 /\ Top[1] = "l"
          /\ done' = TRUE /\ UNCHANGED <<stack, tokens, negs>>

Next == \/ \E op \in Ops, k \in Ks : PushCmp(op, k)
        \/ \E lvl \in {"i", "l"}, b \in BOOLEAN : PushConst(lvl, b)
        \/ PushContents \/ Negate \/ Combine("and") \/ Combine("or") \/ LineNum \/ Finish
Spec == Init /\ [][Next]_vars

Expr == Top[2]
Probe == (0 - 1)..(MaxLines + 2)

\* the analysis never excludes a number the expression accepts - for every expression on the stack, at its level
IntervalSound ==
  \A j \in 1..Len(stack) : \A n \in Probe :
     (Accepts(stack[j][2], n) /\ (stack[j][1] = "i" \/ n >= 1)) => In(n, P(stack[j][1], stack[j][2]).pos)
\* ... and at the integer-matcher level, where `line-num IM` under a negation takes the inversion of IM's interval,
\* the explicit inversion never excludes a number the expression rejects.  (At the line-matcher level the
\* inversion of an adapted interval is never consulted: negations are pushed down to the leaves.)
InversionSound ==
  \A j \in 1..Len(stack) : \A n \in Probe :
     (stack[j][1] = "i" /\ ~Accepts(stack[j][2], n)) => In(n, P("i", stack[j][2]).inv)
\* hence interval-limited reading + per-line test = per-line test of every line
FilterExact == done => \A Nn \in TextLens : FilterImpl(Expr, Nn) = Filter(Expr, Nn)
=============================================================================
