----------------------------- MODULE PathLookup -----------------------------
(***************************************************************************)
(* C11, the environment variable PATH: a program named without a directory *)
(* (`% PROGRAM`) is looked up through the PATH of the set of environment   *)
(* variables its process GETS - the act set for the action to check, the   *)
(* non-act set for every other process - not through the PATH Exactly was  *)
(* started with.                                                           *)
(* Two directories hold a program of the same name: "orig" (on the PATH    *)
(* Exactly is started with) and "dbl" (a test double).  [setup] holds up   *)
(* to MaxSets instructions `env [-of act | -of !act] PATH = DIR:${PATH}`;  *)
(* a process is started after each of them (non-act set), then the action  *)
(* to check (act set), then one more process in [assert] (non-act set).    *)
(* The state machine executes the instructions; `ran` records, for every   *)
(* process, the directory its program was found in.                        *)
(***************************************************************************)
EXTENDS Naturals, Sequences, TLC, Json

CONSTANT MaxSets
Targets == {"act", "nonact", "both"}
Dirs == {"dbl", "orig"}

VARIABLES nonAct, act,     \* PATH of the two sets: sequences of directories
          hist,            \* the env instructions executed: <<target, directory put first>>
          ran,             \* <<observer, directory of the program that ran>>
          stage            \* "setup" | "act" | "assert" | "done"
vars == <<nonAct, act, hist, ran, stage>>
Found(path) == Head(path)                  \* both directories hold the program: the first one on the PATH wins
Init == nonAct = <<"orig">> /\ act = <<"orig">> /\ hist = <<>> /\ ran = <<>> /\ stage = "setup"
\* env TARGET PATH = d:${PATH}  (expanded against the set being changed), followed by a process of [setup]
SetPath(t, d) ==
  /\ stage = "setup" /\ Len(hist) < MaxSets
  /\ nonAct' = IF t \in {"nonact", "both"} THEN <<d>> \o nonAct ELSE nonAct
  /\ act' = IF t \in {"act", "both"} THEN <<d>> \o act ELSE act
  /\ hist' = Append(hist, <<t, d>>)
  /\ ran' = Append(ran, <<"setup", Found(nonAct')>>)
  /\ UNCHANGED stage
EndSetup == stage = "setup" /\ stage' = "act" /\ UNCHANGED <<nonAct, act, hist, ran>>
Act == stage = "act" /\ ran' = Append(ran, <<"act", Found(act)>>) /\ stage' = "assert" /\ UNCHANGED <<nonAct, act, hist>>
AssertProc == stage = "assert" /\ ran' = Append(ran, <<"assert", Found(nonAct)>>) /\ stage' = "done"
          /\ UNCHANGED <<nonAct, act, hist>>
Next == (\E t \in Targets, d \in Dirs : SetPath(t, d)) \/ EndSetup \/ Act \/ AssertProc
Spec == Init /\ [][Next]_vars

\* a process finds its program through the PATH of ITS set: the last directory put first in that set, else the original
LastFor(set) == LET js == {j \in 1..Len(hist) : hist[j][1] \in {set, "both"}}
                IN IF js = {} THEN "orig" ELSE hist[CHOOSE j \in js : \A k \in js : k <= j][2]
LookupThroughOwnSet ==
  \A i \in 1..Len(ran) : ran[i][1] = "act" => ran[i][2] = LastFor("act")
AssertSeesNonAct == stage = "done" => ran[Len(ran)][2] = LastFor("nonact")
Export == stage = "done" => PrintT(<<"PATHCASE", ToJson([hist |-> hist, ran |-> ran])>>)
=============================================================================
